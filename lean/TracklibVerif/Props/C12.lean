import TracklibVerif.Lemmas.Partition
import TracklibVerif.Lemmas.PartitionArr
import TracklibVerif.Lemmas.PartitionFront
import TracklibVerif.Lemmas.PartitionTree
import TracklibVerif.Lemmas.PartitionRound
import TracklibVerif.Lemmas.PartitionStops
import Mathlib.Algebra.Order.Group.Int
import Mathlib.Algebra.Order.Field.Rat
set_option linter.unusedSectionVars false
/-! # C12 — optimal partitioning returns a global optimum for the requested direction

Property theorems only (helpers: `Lemmas/PartitionTable.lean` — the in-place table form equals the function
form; `Lemmas/Partition.lean` — optimality of the function form, `backtracking`; `Lemmas/PartitionTree.lean` —
optimality over bracketed sums without associativity; `Lemmas/PartitionFront.lean` — the matrices built by the front
ends). The model is `Model/Partition.lean`; `optimalPartition 0 rows C mode` is the table form run by the driver, with the
code's convention `N = rows − 1` break candidates `0 … N−1` (hypothesis `3 ≤ rows` = at least two candidates).
T1/T2 (`result_shape`, `optimal_min`, `optimal_max`): costs in any linearly ordered additive commutative monoid (ℕ, ℤ, ℚ, ℝ:
exact arithmetic). `optimal_bracketed`: any monotone addition, no associativity — the statement that holds for IEEE
doubles without NaN. T3: the front ends `optimalSegmentation` (call protocol of the cost function, requested parameter,
matrix construction), `optimalSimplification`, `simplify` modes 4–8 and `findStopsGlobal`, each composed with T1/T2.
`findStopsGlobal` twice: with its tests as abstract predicates (`stops_matrix`, `stops_documented`, `stops_optimal`), and read
from the track (`Lemmas/PartitionStops.lean`; ordered commutative ring): `stops_planimetric` (the altitude is never read),
`stops_criterion` (the reward matrix is the documented one — enclosing circle and duration only: the row loop's early exit is
sound for the PLANIMETRIC distance), `stops_fit_in_circle`, `stops_track_optimal`, `stops_final_filter`, `find_stops_global`
(caller's arguments → stops returned, `downsampling` included) and `find_stops_global_checked` (its hypothesis on the circles
as the certificate `enclosedB` the driver evaluates on every case). Lists are Python lists of indices.
Further property theorems: `Props/C12MinCircle.lean` (`minCircle` as modelled: the two findings as theorems, what is guaranteed),
`Props/C12MinCircleStops.lean` (the reward matrix with `minCircle` as modelled), `Props/C12Dispatch.lean` (`findStops`),
`Props/C12Collection.lean` (`TrackCollection.simplify`), `Props/C12Round.lean` (rounded addition = rounding of the exact sum). -/
namespace TV.C12
open TV.Partition
variable {α : Type} [AddCommMonoid α] [LinearOrder α] [IsOrderedAddMonoid α]

/-- the returned list is `0 :: mids ++ [N−1]`, consecutive elements increase, and its summed segment cost is
the table entry `D[0, N−1]`, which is the function form's value (for every `mode`, also outside {0, 1}) -/
theorem partition_spec (rows : Nat) (C : Nat → Nat → α) (mode : Nat) (h : 3 ≤ rows) :
    ∃ mids, optimalPartition 0 rows C mode = 0 :: (mids ++ [rows - 2]) ∧
      Inc (0 :: (mids ++ [rows - 2])) ∧
      pathCost 0 C (0 :: (mids ++ [rows - 2])) = (tables 0 rows C mode).D 0 (rows - 2) ∧
      (tables 0 rows C mode).D 0 (rows - 2) = (opt (better mode) (· + ·) C (rows - 1) 0 (rows - 2)).1 := by
  have hM : ∀ a b, a < b → b < rows - 1 →
      (tables 0 rows C mode).M a b = enc (-1) (opt (better mode) (· + ·) C (rows - 1) a b).2 :=
    fun a b hab hb => (fill_spec 0 mode (rows - 1) C a b hab hb).2
  have hD := (fill_spec 0 mode (rows - 1) C 0 (rows - 2) (by omega) (by omega)).1
  obtain ⟨mids, e, hinc, hc⟩ := bt_spec C (better mode) (rows - 1) (tables 0 rows C mode).M hM
    (rows - 1) 0 (rows - 2) (by omega) (by omega) (by omega)
  have e2 : rows - 1 - 1 = rows - 2 := by omega
  refine ⟨mids, ?_, hinc, ?_, hD⟩
  · unfold optimalPartition backward
    rw [e2, e]; rfl
  · rw [hc]; exact hD.symm

/-- **T1 `result_shape`**: for every matrix and every mode the result starts at the first candidate `0`, ends
at the last candidate `N − 1 = rows − 2`, and is strictly increasing. -/
theorem result_shape (rows : Nat) (C : Nat → Nat → α) (mode : Nat) (h : 3 ≤ rows) :
    (optimalPartition 0 rows C mode).head? = some 0 ∧
    (optimalPartition 0 rows C mode).getLast? = some (rows - 2) ∧
    (optimalPartition 0 rows C mode).Pairwise (· < ·) := by
  obtain ⟨mids, e, hinc, _, _⟩ := partition_spec rows C mode h
  rw [e]
  refine ⟨rfl, ?_, (inc_pairwise _).mp hinc⟩
  rw [lastOf_getLast?, lastOf_append]; rfl

/-- both directions at once: the result is at least as good (`R`) as every chain -/
theorem optimal_dir {R : α → α → Prop} (rows : Nat) (C : Nat → Nat → α) (mode : Nat)
    (hd : Dir (better (α := α) mode) R) (h : 3 ≤ rows)
    (π : List Nat) (h0 : π.head? = some 0) (hN : π.getLast? = some (rows - 2)) (hinc : π.Pairwise (· < ·)) :
    R (pathCost 0 C (optimalPartition 0 rows C mode)) (pathCost 0 C π) := by
  obtain ⟨mids, e, _, hc, hD⟩ := partition_spec rows C mode h
  rw [e, hc, hD]
  cases π with
  | nil => cases h0
  | cons a l =>
    have ha : a = 0 := by simpa using h0
    subst ha
    have hl : l ≠ [] := by
      intro hl; subst hl
      simp at hN; omega
    rw [lastOf_getLast?] at hN
    have hlast : lastOf 0 l = rows - 2 := by simpa using hN
    have := opt_bound hd C (rows - 1) 0 l hl ((inc_pairwise _).mpr hinc) (by omega)
    rw [hlast] at this
    exact this

/-- **T2 `optimal_min`**: with `mode = MODE_SEGMENTATION_MINIMIZE` (0) the summed segment cost of the result is
the minimum over ALL strictly increasing index lists from the first to the last candidate. -/
theorem optimal_min (rows : Nat) (C : Nat → Nat → α) (h : 3 ≤ rows)
    (π : List Nat) (h0 : π.head? = some 0) (hN : π.getLast? = some (rows - 2)) (hinc : π.Pairwise (· < ·)) :
    pathCost 0 C (optimalPartition 0 rows C 0) ≤ pathCost 0 C π :=
  optimal_dir rows C 0 dir_min h π h0 hN hinc

/-- **T2 `optimal_max`**: with `mode = MODE_SEGMENTATION_MAXIMIZE` (1) it is the maximum. -/
theorem optimal_max (rows : Nat) (C : Nat → Nat → α) (h : 3 ≤ rows)
    (π : List Nat) (h0 : π.head? = some 0) (hN : π.getLast? = some (rows - 2)) (hinc : π.Pairwise (· < ·)) :
    pathCost 0 C (optimalPartition 0 rows C 1) ≥ pathCost 0 C π :=
  optimal_dir rows C 1 dir_max h π h0 hN hinc

/-- table form = function form: the value left in `D[0, N−1]` by the in-place dynamic programme is the value of
the interval recursion `opt`, and it is the summed cost of the returned list. -/
theorem table_value (rows : Nat) (C : Nat → Nat → α) (mode : Nat) (h : 3 ≤ rows) :
    (tables 0 rows C mode).D 0 (rows - 2) = (opt (better mode) (· + ·) C (rows - 1) 0 (rows - 2)).1 ∧
    pathCost 0 C (optimalPartition 0 rows C mode) = (tables 0 rows C mode).D 0 (rows - 2) := by
  obtain ⟨mids, e, _, hc, hD⟩ := partition_spec rows C mode h
  exact ⟨hD, by rw [e, hc]⟩

/-- array form = function-table form: the programme run by the driver on real two-dimensional arrays
(`Array (Array _)` for numpy's `D` and `M`, in-place `D[i,j] = v`) returns the same list and leaves the same
tables as the function-table form the theorems above are about. -/
theorem array_form (rows : Nat) (C : Nat → Nat → α) (mode : Nat) :
    optimalPartitionA 0 rows C mode = optimalPartition 0 rows C mode ∧
    absT 0 (tablesA 0 rows C mode) = tables 0 rows C mode :=
  ⟨optimalPartitionA_eq 0 rows C mode, tablesA_eq 0 rows C mode⟩

/-! ## T2 without associativity (IEEE doubles) -/

/-- both directions at once, for ANY addition: the split table records a bracketing `t` of the returned list whose
value is the table entry `D[0, N−1]`, and that value is at least as good (`R`) as every bracketing of every chain -/
theorem bracketed_dir {β : Type} [Add β] [LT β] [DecidableLT β] {R : β → β → Prop} (zero : β) (rows : Nat)
    (C : Nat → Nat → β) (mode : Nat) (hd : Dir (better (α := β) mode) R) (h : 3 ≤ rows) :
    ∃ t : Br, t.WF ∧ t.lo = 0 ∧ t.hi = rows - 2 ∧ t.chain = optimalPartition zero rows C mode ∧
      t.val C = (tables zero rows C mode).D 0 (rows - 2) ∧
      ∀ t' : Br, t'.WF → t'.lo = 0 → t'.hi = rows - 2 → R (t.val C) (t'.val C) := by
  have hM : ∀ a b, a < b → b < rows - 1 →
      (tables zero rows C mode).M a b = enc (-1) (opt (better mode) (· + ·) C (rows - 1) a b).2 :=
    fun a b hab hb => (fill_spec zero mode (rows - 1) C a b hab hb).2
  have hD := (fill_spec zero mode (rows - 1) C 0 (rows - 2) (by omega) (by omega)).1
  obtain ⟨wf, lo, hi, ch, v⟩ := btTree_spec C (better mode) (rows - 1) (tables zero rows C mode).M hM
    (rows - 1) 0 (rows - 2) (by omega) (by omega) (by omega)
  have e2 : rows - 1 - 1 = rows - 2 := by omega
  refine ⟨_, wf, lo, hi, ?_, ?_, ?_⟩
  · rw [ch]; unfold optimalPartition backward; rw [e2]
  · rw [v]; exact hD.symm
  · intro t' wf' lo' hi'
    rw [v]
    have := opt_bound_br hd C (rows - 1) t' wf' (by omega)
    rw [lo', hi'] at this
    exact this

/-- **T2 `optimal_bracketed`** — optimality that does NOT use associativity or commutativity of `+`, hence valid for IEEE
doubles (without NaN), whose addition is monotone (`a ≤ b → c ≤ d → a + c ≤ b + d`) but not associative. A *bracketing*
`Br` is a way of summing the segment costs of a chain (`Br.chain`) pairwise (`Br.val`). For MINIMIZE (resp. MAXIMIZE): the
split table `M` records a bracketing of the returned list whose value is exactly `D[0, N−1]`, and this value is `≤`
(resp. `≥`) the value of EVERY bracketing of EVERY strictly increasing list from `0` to `N−1` — in particular the
left-to-right and right-to-left sums of every chain. (What this leaves to sampling for doubles: the distance between two
bracketings of the same chain, a few ulps of the summed absolute costs.) -/
theorem optimal_bracketed {β : Type} [Add β] [LinearOrder β]
    (hmono : ∀ a b c d : β, a ≤ b → c ≤ d → a + c ≤ b + d) (zero : β) (rows : Nat) (C : Nat → Nat → β) (h : 3 ≤ rows) :
    (∃ t : Br, t.WF ∧ t.lo = 0 ∧ t.hi = rows - 2 ∧ t.chain = optimalPartition zero rows C 0 ∧
      t.val C = (tables zero rows C 0).D 0 (rows - 2) ∧
      ∀ t' : Br, t'.WF → t'.lo = 0 → t'.hi = rows - 2 → t.val C ≤ t'.val C) ∧
    (∃ t : Br, t.WF ∧ t.lo = 0 ∧ t.hi = rows - 2 ∧ t.chain = optimalPartition zero rows C 1 ∧
      t.val C = (tables zero rows C 1).D 0 (rows - 2) ∧
      ∀ t' : Br, t'.WF → t'.lo = 0 → t'.hi = rows - 2 → t.val C ≥ t'.val C) :=
  ⟨bracketed_dir zero rows C 0 (dir_min_of_mono hmono) h, bracketed_dir zero rows C 1 (dir_max_of_mono hmono) h⟩

/-- a bracketed sum computed with a rounded addition, against the exact summed cost of its chain -/
theorem br_exact {F β : Type} [Add F] [Field β] [LinearOrder β] [IsStrictOrderedRing β]
    (ι : F → β) (u : β) (hu : 0 ≤ u) (herr : ∀ a b : F, |ι (a + b) - (ι a + ι b)| ≤ u * |ι a + ι b|)
    (C : Nat → Nat → F) (t : Br) (hwf : t.WF) (n : Nat) (hn : t.hi - t.lo ≤ n + 1) :
    |ι (t.val C) - pathCost 0 (fun a b => ι (C a b)) t.chain| ≤
      ((1 + u) ^ n - 1) * pathCost 0 (fun a b => |ι (C a b)|) t.chain := by
  have hh : t.height ≤ n := by have := Br.height_lt_span t hwf; omega
  obtain ⟨r1, e1, _, _, _, v1⟩ := br_chain_cost (fun a b => ι (C a b)) t hwf
  obtain ⟨r2, e2, _, _, _, v2⟩ := br_chain_cost (fun a b => |ι (C a b)|) t hwf
  have := (round_err ι u hu herr C t n hh).1
  have hr : r1 = r2 := by
    have := e1.symm.trans e2
    simpa using this
  subst hr
  rw [e1, ← v1, ← v2]
  exact this

/-- **T2 `optimal_rounded`** — optimality up to rounding in the standard model of floating-point arithmetic. `F` is the
set of machine numbers with its rounded addition `+` and its order, `ι : F → β` their exact values in an ordered field,
with `ι` monotone, `+` monotone, and `|ι (a + b) − (ι a + ι b)| ≤ u · |ι a + ι b|` (IEEE doubles without NaN and without
overflow: `u = 2⁻⁵³`; nothing is assumed about associativity). Then the EXACT summed cost of the list returned in MINIMIZE
mode exceeds the exact summed cost of any other chain `π` by at most `ε · (Σ|cost| along the result + Σ|cost| along π)`
with `ε = (1+u)^(N−2) − 1 ≈ (N−2)·u`; symmetrically for MAXIMIZE. This is the tolerance shape of the transfer check on
doubles (there with the generous `ε = 10⁻⁹`). -/
theorem optimal_rounded {F β : Type} [Add F] [LinearOrder F] [Field β] [LinearOrder β] [IsStrictOrderedRing β]
    (ι : F → β) (u : β) (hu : 0 ≤ u)
    (hι : ∀ a b : F, a ≤ b → ι a ≤ ι b)
    (hmono : ∀ a b c d : F, a ≤ b → c ≤ d → a + c ≤ b + d)
    (herr : ∀ a b : F, |ι (a + b) - (ι a + ι b)| ≤ u * |ι a + ι b|)
    (zero : F) (rows : Nat) (C : Nat → Nat → F) (h : 3 ≤ rows)
    (π : List Nat) (h0 : π.head? = some 0) (hN : π.getLast? = some (rows - 2)) (hinc : π.Pairwise (· < ·)) :
    let c : Nat → Nat → β := fun a b => ι (C a b)
    let ac : Nat → Nat → β := fun a b => |ι (C a b)|
    let ε : β := (1 + u) ^ (rows - 3) - 1
    pathCost 0 c (optimalPartition zero rows C 0) ≤
      pathCost 0 c π + ε * (pathCost 0 ac (optimalPartition zero rows C 0) + pathCost 0 ac π) ∧
    pathCost 0 c π ≤
      pathCost 0 c (optimalPartition zero rows C 1) + ε * (pathCost 0 ac (optimalPartition zero rows C 1) + pathCost 0 ac π) := by
  intro c ac ε
  -- a bracketing of π
  cases π with
  | nil => cases h0
  | cons a l =>
    have ha : a = 0 := by simpa using h0
    subst ha
    have hl : l ≠ [] := by
      intro hl; subst hl
      simp at hN; omega
    rw [lastOf_getLast?] at hN
    have hlast : lastOf 0 l = rows - 2 := by simpa using hN
    obtain ⟨w', lo', hi', ch'⟩ := combBr_spec l 0 hl ((inc_pairwise _).mpr hinc)
    have b' := br_exact ι u hu herr C (combBr 0 l) w' (rows - 3) (by rw [hi', lo', hlast]; omega)
    rw [ch'] at b'
    have hb' := abs_le.mp b'
    constructor
    · obtain ⟨t, wf, lo, hi, ch, _, hopt⟩ := bracketed_dir zero rows C 0 (dir_min_of_mono hmono) h
      have b := br_exact ι u hu herr C t wf (rows - 3) (by rw [hi, lo]; omega)
      rw [ch] at b
      have hb := abs_le.mp b
      have hle := hι _ _ (hopt (combBr 0 l) w' lo' (by rw [hi', hlast]))
      show pathCost 0 c (optimalPartition zero rows C 0) ≤
        pathCost 0 c (0 :: l) + ε * (pathCost 0 ac (optimalPartition zero rows C 0) + pathCost 0 ac (0 :: l))
      have e : ε * (pathCost 0 ac (optimalPartition zero rows C 0) + pathCost 0 ac (0 :: l)) =
          ε * pathCost 0 ac (optimalPartition zero rows C 0) + ε * pathCost 0 ac (0 :: l) := by ring
      rw [e]
      linarith [hb.1, hb.2, hb'.1, hb'.2, hle]
    · obtain ⟨t, wf, lo, hi, ch, _, hopt⟩ := bracketed_dir zero rows C 1 (dir_max_of_mono hmono) h
      have b := br_exact ι u hu herr C t wf (rows - 3) (by rw [hi, lo]; omega)
      rw [ch] at b
      have hb := abs_le.mp b
      have hle := hι _ _ (hopt (combBr 0 l) w' lo' (by rw [hi', hlast]))
      show pathCost 0 c (0 :: l) ≤
        pathCost 0 c (optimalPartition zero rows C 1) + ε * (pathCost 0 ac (optimalPartition zero rows C 1) + pathCost 0 ac (0 :: l))
      have e : ε * (pathCost 0 ac (optimalPartition zero rows C 1) + pathCost 0 ac (0 :: l)) =
          ε * pathCost 0 ac (optimalPartition zero rows C 1) + ε * pathCost 0 ac (0 :: l) := by ring
      rw [e]
      linarith [hb.1, hb.2, hb'.1, hb'.2, hle]

/-! ## T3 — the front ends: matrix construction composed with `optimalPartition` -/

/-- **matrix construction** of `optimalSegmentation`: the two nested loops with in-place assignment followed by
`C + C.T` (loop form `segMatrixL`) build the closed form `segMatrix`, which is symmetric, holds
`cost(track, a, b−1)` at every pair of candidates `a < b ≤ size−2`, twice `cost(track, a, a−1)` on the diagonal
(`a < size−2`; never read by `optimalPartition`) and `0` in the last row and column (outside the `N × N` block). -/
theorem seg_matrix (size : Nat) (cost : Nat → Int → α) :
    segMatrixL 0 size cost = segMatrix 0 size cost ∧
    (∀ a b, segMatrix 0 size cost a b = segMatrix 0 size cost b a) ∧
    (∀ a b, a < b → b ≤ size - 2 → 3 ≤ size → segMatrix 0 size cost a b = cost a ((b : Int) - 1)) ∧
    (∀ a, a + 2 < size → segMatrix 0 size cost a a = cost a ((a : Int) - 1) + cost a ((a : Int) - 1)) ∧
    (∀ a, segMatrix 0 size cost a (size - 1) = 0 ∧ segMatrix 0 size cost (size - 1) a = 0) := by
  refine ⟨segMatrixL_eq 0 size cost, ?_, ?_, ?_, ?_⟩
  · intro a b; simp only [segMatrix]; exact add_comm _ _
  · intro a b hab hb hs
    unfold segMatrix
    have h1 : a + 2 < size ∧ a ≤ b ∧ b + 1 < size := by omega
    have h2 : ¬ (b + 2 < size ∧ b ≤ a ∧ a + 1 < size) := by omega
    simp only [if_pos h1, if_neg h2, add_zero]
  · intro a ha
    unfold segMatrix
    have h1 : a + 2 < size ∧ a ≤ a ∧ a + 1 < size := by omega
    simp only [if_pos h1]
  · intro a
    unfold segMatrix
    have h1 : ¬ (a + 2 < size ∧ a ≤ size - 1 ∧ size - 1 + 1 < size) := by omega
    have h2 : ¬ (size - 1 + 2 < size ∧ size - 1 ≤ a ∧ a + 1 < size) := by omega
    simp only [if_neg h1, if_neg h2, add_zero, and_self]

theorem segMatrix_entry (size : Nat) (cost : Nat → Int → α) (a b : Nat) (hab : a < b) (hb : b ≤ size - 2) (hs : 3 ≤ size) :
    segMatrix 0 size cost a b = cost a ((b : Int) - 1) :=
  (seg_matrix size cost).2.2.1 a b hab hb hs

/-- **T3 (segmentation, cost as a total function)**: the result is an increasing list from `0` to `size − 2` that is
optimal, in the requested direction, for the segment costs `cost(track, a, b−1)`. -/
theorem segmentation_optimal {R : α → α → Prop} (size : Nat) (cost : Nat → Int → α) (mode : Nat)
    (hd : Dir (better (α := α) mode) R) (h : 3 ≤ size)
    (π : List Nat) (h0 : π.head? = some 0) (hN : π.getLast? = some (size - 2)) (hinc : π.Pairwise (· < ·)) :
    let segCost : Nat → Nat → α := fun a b => cost a ((b : Int) - 1)
    (optimalSegmentation 0 size cost mode).head? = some 0 ∧
    (optimalSegmentation 0 size cost mode).getLast? = some (size - 2) ∧
    (optimalSegmentation 0 size cost mode).Pairwise (· < ·) ∧
    R (pathCost 0 segCost (optimalSegmentation 0 size cost mode)) (pathCost 0 segCost π) := by
  intro segCost
  obtain ⟨s1, s2, s3⟩ := result_shape size (segMatrix 0 size cost) mode h
  refine ⟨s1, s2, s3, ?_⟩
  have hopt := optimal_dir size (segMatrix 0 size cost) mode hd h π h0 hN hinc
  have hcongr : ∀ (l : List Nat), l.head? = some 0 → l.getLast? = some (size - 2) → l.Pairwise (· < ·) →
      pathCost 0 (segMatrix 0 size cost) l = pathCost 0 segCost l := by
    intro l l0 lN linc
    cases l with
    | nil => cases l0
    | cons a t =>
      rw [lastOf_getLast?] at lN
      have hl : lastOf a t = size - 2 := by simpa using lN
      exact pathCost_congr _ _ (size - 2) (fun x y hxy hy => segMatrix_entry size cost x y hxy hy h) t a
        ((inc_pairwise _).mpr linc) (by omega)
  rw [hcongr π h0 hN hinc] at hopt
  unfold optimalSegmentation
  rw [← hcongr _ s1 s2 s3]
  exact hopt

/-- **T3 `segmentation_requested`** — `optimalSegmentation(track, cost, glob_param, mode)` as called from Python.
`req i e` names the value of the call the CALLER means: `cost(track, i, e)` when `glob_param is None`,
`cost(track, i, e, glob_param)` otherwise (hypothesis `hreq`: the function accepts that call). Then the call returns
a list, strictly increasing from `0` to `size − 2`, optimal in the requested direction for
`Σ req(i_k, i_{k+1} − 1)` — the criterion evaluated with the REQUESTED parameter, whatever its value (`γ` is
arbitrary: `0`, `0.0`, `False`, negative numbers, `inf`, an empty tuple are values like any other; only `None`
selects the three-argument call). -/
theorem segmentation_requested {γ : Type} {R : α → α → Prop} (size : Nat) (c : CostFn γ α) (glob : Option γ) (mode : Nat)
    (hd : Dir (better (α := α) mode) R) (h : 3 ≤ size)
    (req : Nat → Int → α) (hreq : ∀ i e, segCall c glob i e = .ok (req i e)) :
    ∃ l, optimalSegmentationPy 0 size c glob mode = .ok l ∧
      l.head? = some 0 ∧ l.getLast? = some (size - 2) ∧ l.Pairwise (· < ·) ∧
      ∀ π : List Nat, π.head? = some 0 → π.getLast? = some (size - 2) → π.Pairwise (· < ·) →
        R (pathCost 0 (fun a b => req a ((b : Int) - 1)) l) (pathCost 0 (fun a b => req a ((b : Int) - 1)) π) := by
  have hc : segCost c glob = some req := by
    cases c with
    | three f =>
      cases glob with
      | none =>
        have : f = req := by funext i e; simpa [segCall, CostFn.call3] using hreq i e
        simp [segCost, this]
      | some g => have := hreq 0 0; simp [segCall, CostFn.call4] at this
    | four f =>
      cases glob with
      | none => have := hreq 0 0; simp [segCall, CostFn.call3] at this
      | some g =>
        have : (fun i e => f i e g) = req := by funext i e; simpa [segCall, CostFn.call4] using hreq i e
        simp [segCost, this]
    | fourD f d =>
      cases glob with
      | none =>
        have : (fun i e => f i e d) = req := by funext i e; simpa [segCall, CostFn.call3] using hreq i e
        simp [segCost, this]
      | some g =>
        have : (fun i e => f i e g) = req := by funext i e; simpa [segCall, CostFn.call4] using hreq i e
        simp [segCost, this]
    | notCallable =>
      cases glob with
      | none => have := hreq 0 0; simp [segCall, CostFn.call3] at this
      | some g => have := hreq 0 0; simp [segCall, CostFn.call4] at this
  refine ⟨optimalSegmentation 0 size req mode, ?_, ?_⟩
  · unfold optimalSegmentationPy
    rw [if_neg (by omega), if_neg (by omega), hc]
  · have hs := fun π h0 hN hinc => segmentation_optimal size req mode hd h π h0 hN hinc
    obtain ⟨a, b, c', _⟩ := hs [0, size - 2] rfl rfl (by simp; omega)
    exact ⟨a, b, c', fun π h0 hN hinc => (hs π h0 hN hinc).2.2.2⟩

/-- minimising instance with an explicit four-parameter function (with or without a default): the criterion is
`Σ f(i_k, i_{k+1} − 1, g)` for the value `g` that was passed, never the default `d` -/
theorem segmentation_requested_min {γ : Type} (size : Nat) (f : Nat → Int → γ → α) (d g : γ) (h : 3 ≤ size)
    (π : List Nat) (h0 : π.head? = some 0) (hN : π.getLast? = some (size - 2)) (hinc : π.Pairwise (· < ·)) :
    ∃ l, optimalSegmentationPy 0 size (CostFn.fourD f d) (some g) 0 = .ok l ∧
      pathCost 0 (fun a b => f a ((b : Int) - 1) g) l ≤ pathCost 0 (fun a b => f a ((b : Int) - 1) g) π := by
  obtain ⟨l, e, _, _, _, hopt⟩ := segmentation_requested size (CostFn.fourD f d) (some g) 0 dir_min h
    (fun i e => f i e g) (fun _ _ => rfl)
  exact ⟨l, e, hopt π h0 hN hinc⟩

/-- maximising instance, three-parameter function, no global parameter -/
theorem segmentation_requested_max {γ : Type} (size : Nat) (f : Nat → Int → α) (h : 3 ≤ size)
    (π : List Nat) (h0 : π.head? = some 0) (hN : π.getLast? = some (size - 2)) (hinc : π.Pairwise (· < ·)) :
    ∃ l, optimalSegmentationPy 0 size (CostFn.three (γ := γ) f) none 1 = .ok l ∧
      pathCost 0 (fun a b => f a ((b : Int) - 1)) l ≥ pathCost 0 (fun a b => f a ((b : Int) - 1)) π := by
  obtain ⟨l, e, _, _, _, hopt⟩ := segmentation_requested size (CostFn.three (γ := γ) f) none 1 dir_max h
    f (fun _ _ => rfl)
  exact ⟨l, e, hopt π h0 hN hinc⟩

/-- what the front end does outside that domain: a call protocol the cost function does not accept raises `TypeError`
as soon as one call is made (`size ≥ 3`); a track of two observations gives `[0, 0]` without calling the function,
one observation `IndexError`, none `ValueError`. -/
theorem segmentation_errors {γ : Type} (c : CostFn γ α) (glob : Option γ) (mode : Nat) :
    (∀ size, 3 ≤ size → (∀ i e, segCall c glob i e = .error .type) →
      optimalSegmentationPy (0 : α) size c glob mode = .error .type) ∧
    optimalSegmentationPy (0 : α) 2 c glob mode = .ok [0, 0] ∧
    optimalSegmentationPy (0 : α) 1 c glob mode = .error .index ∧
    optimalSegmentationPy (0 : α) 0 c glob mode = .error .value := by
  refine ⟨?_, ?_, rfl, rfl⟩
  · intro size hs herr
    have hc : segCost c glob = none := by
      cases c <;> cases glob <;> first | rfl | (have := herr 0 0; simp [segCall, CostFn.call3, CostFn.call4] at this)
    unfold optimalSegmentationPy
    rw [if_neg (by omega), if_neg (by omega), hc]
    simp only
    rw [if_neg (by omega)]
  · unfold optimalSegmentationPy
    cases segCost c glob <;> rfl

/-- **T3 (simplification)**: `optimalSimplification(track, cost, eps, mode)` returns the observations at the indices
of `optimalSegmentation(track, cost, eps, mode)` — same parameter, same DIRECTION (forwarded since b8f1113) —, all
of them (every index is in range), in order; hence, with `segmentation_requested`, the kept observations are an
optimal selection for the requested parameter and direction. -/
theorem simplification_selects {γ ω : Type} {R : α → α → Prop} (obs : List ω) (c : CostFn γ α) (eps : Option γ) (mode : Nat)
    (hd : Dir (better (α := α) mode) R) (h : 3 ≤ obs.length)
    (req : Nat → Int → α) (hreq : ∀ i e, segCall c eps i e = .ok (req i e)) :
    ∃ l, optimalSegmentationPy 0 obs.length c eps mode = .ok l ∧
      optimalSimplificationPy 0 obs c eps mode = .ok (l.filterMap (fun i => obs[i]?)) ∧
      (l.filterMap (fun i => obs[i]?)).length = l.length ∧
      l.head? = some 0 ∧ l.getLast? = some (obs.length - 2) ∧ l.Pairwise (· < ·) ∧
      ∀ π : List Nat, π.head? = some 0 → π.getLast? = some (obs.length - 2) → π.Pairwise (· < ·) →
        R (pathCost 0 (fun a b => req a ((b : Int) - 1)) l) (pathCost 0 (fun a b => req a ((b : Int) - 1)) π) := by
  obtain ⟨l, e, l0, lN, linc, hopt⟩ := segmentation_requested obs.length c eps mode hd h req hreq
  refine ⟨l, e, ?_, ?_, l0, lN, linc, hopt⟩
  · unfold optimalSimplificationPy; rw [e]
  · -- every index of the chain is ≤ size − 2 < size
    have hlt : ∀ x ∈ l, x < obs.length := by
      intro x hx
      cases l with
      | nil => cases l0
      | cons a t =>
        rw [lastOf_getLast?] at lN
        have hl : lastOf a t = obs.length - 2 := by simpa using lN
        have := chain_le_last a t ((inc_pairwise _).mpr linc) x hx
        omega
    clear e l0 lN linc hopt
    induction l with
    | nil => rfl
    | cons a t ih =>
      have ha : a < obs.length := hlt a List.mem_cons_self
      simp only [List.filterMap_cons, List.getElem?_eq_getElem ha, List.length_cons]
      rw [ih (fun x hx => hlt x (List.mem_cons_of_mem _ hx))]

/-- `simplify(track, cost, MODE_SIMPLIFY_FREE)` is `optimalSimplification(track, cost, None, MINIMIZE)` and
`MODE_SIMPLIFY_FREE_MAXIMIZE` is `optimalSimplification(track, cost, None, MAXIMIZE)`; the built-in modes 4, 5, 6
call it with the module's four-parameter cost, `tolerance` as the global parameter and MINIMIZE. -/
theorem simplify_modes {γ ω : Type} (obs : List ω) (c : CostFn γ α) (builtin : Nat → Nat → Int → γ → α) (tol : Option γ) :
    simplifyFree 0 obs c 7 = some (optimalSimplificationPy 0 obs c none 0) ∧
    simplifyFree 0 obs c 8 = some (optimalSimplificationPy 0 obs c none 1) ∧
    (∀ m, m = 4 ∨ m = 5 ∨ m = 6 →
      simplifyBuiltin 0 obs builtin tol m = some (optimalSimplificationPy 0 obs (CostFn.four (builtin m)) tol 0)) := by
  refine ⟨rfl, rfl, ?_⟩
  intro m hm
  unfold simplifyBuiltin
  rw [if_pos hm]

/-! ## stop detection -/

/-- **matrix construction** of stop detection: the row loops with their `break`, then `C + C.T`, put in every pair
of candidates `a < b ≤ size − 2` the reward `stopsReward a b` — `(b − a)²` iff (1) the `break` test `far` holds for no
end point `p_{j'−1}`, `a < j' ≤ b` (`farBefore`), (2) the `continue` test `short` does not hold for `(a, b−1)`, (3) the size
of the segment could be computed and is admitted (`small = some true`); `0` otherwise — and the matrix is symmetric.
`stops_documented` instantiates the three tests with those of `findStopsGlobal`. -/
theorem stops_matrix (sq : Nat → α) (p : StopPred) (size : Nat) :
    (∀ a b, stopsMatrix 0 sq p size a b = stopsMatrix 0 sq p size b a) ∧
    (∀ a b, a < b → stopsMatrix 0 sq p size a b = stopsReward 0 sq p size a b) ∧
    (∀ a b, a < b → b ≤ size - 2 → 3 ≤ size →
      (((∃ j, a < j ∧ j ≤ b ∧ p.far a (j - 1) = true) ∨ p.short a (b - 1) = true ∨ p.small a (b - 1) ≠ some true) →
        stopsReward 0 sq p size a b = 0) ∧
      (¬ ((∃ j, a < j ∧ j ≤ b ∧ p.far a (j - 1) = true) ∨ p.short a (b - 1) = true ∨ p.small a (b - 1) ≠ some true) →
        stopsReward 0 sq p size a b = sq (b - a))) := by
  refine ⟨?_, ?_, ?_⟩
  · intro a b; simp only [stopsMatrix, addTranspose]; exact add_comm _ _
  · intro a b hab
    simp only [stopsMatrix, addTranspose, stopsFill_eq]
    have : stopsReward 0 sq p size b a = 0 := by
      unfold stopsReward; rw [if_neg (by omega)]
    rw [this, add_zero]
  · intro a b hab hb hs
    unfold stopsReward stopCell
    by_cases hfar : ∃ j, a < j ∧ j ≤ b ∧ p.far a (j - 1) = true
    · have hfb : farBefore p a (b - a) = true := by
        rw [farBefore_iff]
        obtain ⟨j, h1, h2, h3⟩ := hfar
        exact ⟨j, h1, by omega, h3⟩
      refine ⟨fun _ => ?_, fun hn => absurd (Or.inl hfar) hn⟩
      rw [if_neg (by simp [hfb])]
    · have hfb : farBefore p a (b - a) = false := by
        cases hv : farBefore p a (b - a) with
        | false => rfl
        | true =>
          exfalso; apply hfar
          obtain ⟨j, h1, h2, h3⟩ := (farBefore_iff p a (b - a)).mp hv
          exact ⟨j, h1, by omega, h3⟩
      rw [if_pos ⟨by omega, hab, by omega, hfb⟩]
      cases hsh : p.short a (b - 1) with
      | true => exact ⟨fun _ => by simp, fun hn => absurd (Or.inr (Or.inl rfl)) hn⟩
      | false =>
        cases hsm : p.small a (b - 1) with
        | none => exact ⟨fun _ => by simp, fun hn => absurd (Or.inr (Or.inr (by simp))) hn⟩
        | some v =>
          cases v with
          | false => exact ⟨fun _ => by simp, fun hn => absurd (Or.inr (Or.inr (by simp))) hn⟩
          | true =>
            refine ⟨fun hc => ?_, fun _ => by simp⟩
            rcases hc with hc | hc | hc
            · exact absurd hc hfar
            · cases hc
            · exact absurd rfl hc

/-- **criterion of `findStopsGlobal`** (tests as written since 026cb79): for candidates `a < b ≤ size − 2` the reward is
`(b − a)²` exactly when every end point `p_{j'−1}`, `a < j' ≤ b`, is within `diameter` of `p_a`, the segment lasts AT LEAST
`duration` (`duration ≤ t(p_{b−1}) − t(p_a)`), and `minCircle` returns a circle of diameter AT MOST `diameter`; `0`
otherwise. These are the documented, inclusive boundaries (source comment: `0` if the circle is `> diameter`, `0` if the
duration is `< duration`, `(j−i)²` otherwise; same boundaries as the function's final filter). The first condition is
implied by the third for exact geometry (a far end point forces the enclosing circle above `diameter`): it is the
`break` shortcut. A `None` circle gives `0` (source: "TODO : à valider"). -/
theorem stops_documented (sq : Nat → α) (dist dur : Nat → Nat → α) (circ : Nat → Nat → Option α) (diameter duration : α)
    (size a b : Nat) (hab : a < b) (hb : b ≤ size - 2) (hs : 3 ≤ size) :
    let admitted := (∀ j, a < j → j ≤ b → dist a (j - 1) ≤ diameter) ∧ duration ≤ dur a (b - 1) ∧
      ∃ d, circ a (b - 1) = some d ∧ d ≤ diameter
    (admitted → stopsReward 0 sq (stopPredGlobal dist dur circ diameter duration) size a b = sq (b - a)) ∧
    (¬ admitted → stopsReward 0 sq (stopPredGlobal dist dur circ diameter duration) size a b = 0) := by
  intro admitted
  obtain ⟨h0, h1⟩ := (stops_matrix sq (stopPredGlobal dist dur circ diameter duration) size).2.2 a b hab hb hs
  have key : ((∃ j, a < j ∧ j ≤ b ∧ (stopPredGlobal dist dur circ diameter duration).far a (j - 1) = true) ∨
      (stopPredGlobal dist dur circ diameter duration).short a (b - 1) = true ∨
      (stopPredGlobal dist dur circ diameter duration).small a (b - 1) ≠ some true) ↔ ¬ admitted := by
    simp only [stopPredGlobal, decide_eq_true_eq, admitted]
    constructor
    · rintro (⟨j, h1, h2, h3⟩ | h | h)
      · rintro ⟨hf, _, _⟩; exact absurd (hf j h1 h2) (not_le.mpr h3)
      · rintro ⟨_, hd, _⟩; exact absurd hd (not_le.mpr h)
      · rintro ⟨_, _, d, hc, hd⟩
        apply h; rw [hc]; simp [not_lt.mpr hd]
    · intro hn
      by_cases hf : ∃ j, a < j ∧ j ≤ b ∧ diameter < dist a (j - 1)
      · exact Or.inl hf
      · by_cases hd : dur a (b - 1) < duration
        · exact Or.inr (Or.inl hd)
        · right; right
          intro hsm
          apply hn
          refine ⟨fun j h1 h2 => not_lt.mp (fun h => hf ⟨j, h1, h2, h⟩), not_lt.mp hd, ?_⟩
          cases hc : circ a (b - 1) with
          | none => rw [hc] at hsm; simp at hsm
          | some d =>
            rw [hc] at hsm
            refine ⟨d, rfl, ?_⟩
            simp at hsm
            exact hsm
  exact ⟨fun h => h1 (fun hc => (key.mp hc) h), fun h => h0 (key.mpr h)⟩

/-- **T3 (stop detection)**: the segmentation computed inside `findStopsGlobal` (and `findStopsGlobalForRTK`) is a strictly
increasing list from `0` to `size − 2` that MAXIMISES the summed reward `Σ stopsReward(i_k, i_{k+1})` over all such lists;
with `stops_documented`, `findStopsGlobal` maximises the criterion it documents. The candidates are `0 … size−2` and
segment `(a, b)` covers `p_a … p_{b−1}`: the last two observations belong to no segment. -/
theorem stops_optimal (sq : Nat → α) (p : StopPred) (size : Nat) (h : 3 ≤ size)
    (π : List Nat) (h0 : π.head? = some 0) (hN : π.getLast? = some (size - 2)) (hinc : π.Pairwise (· < ·)) :
    (stopsSegmentation 0 sq p size).head? = some 0 ∧
    (stopsSegmentation 0 sq p size).getLast? = some (size - 2) ∧
    (stopsSegmentation 0 sq p size).Pairwise (· < ·) ∧
    pathCost 0 (stopsReward 0 sq p size) (stopsSegmentation 0 sq p size) ≥ pathCost 0 (stopsReward 0 sq p size) π := by
  obtain ⟨s1, s2, s3⟩ := result_shape size (stopsMatrix 0 sq p size) 1 h
  refine ⟨s1, s2, s3, ?_⟩
  have hopt := optimal_max size (stopsMatrix 0 sq p size) h π h0 hN hinc
  have hcongr : ∀ (l : List Nat), l.head? = some 0 → l.getLast? = some (size - 2) → l.Pairwise (· < ·) →
      pathCost 0 (stopsMatrix 0 sq p size) l = pathCost 0 (stopsReward 0 sq p size) l := by
    intro l l0 lN linc
    cases l with
    | nil => cases l0
    | cons a t =>
      exact pathCost_congr _ _ (lastOf a t) (fun x y hxy _ => (stops_matrix sq p size).2.1 x y hxy) t a
        ((inc_pairwise _).mpr linc) (Nat.le_refl _)
  rw [hcongr π h0 hN hinc] at hopt
  unfold stopsSegmentation
  rw [← hcongr _ s1 s2 s3]
  exact hopt

/-! ## stop detection from the track: the documented, planimetric criterion -/

/-- **the altitude is never read**: `findStopsGlobal(track, diameter, duration, downsampling)` — matrix, segmentation, final
filter, identifiers — is the same for two tracks (and two resampled copies) that agree on `x`, `y` and the times, whatever
their `z` (large variations, NaN …): the documented size of a stop is that of an enclosing CIRCLE. Holds for any scalar
type (no algebraic law is used). -/
theorem stops_planimetric {β : Type} [Add β] [LT β] [DecidableLT β] [Sub β] [Mul β] (zero one : β) (sq ofNat : Nat → β)
    (track track' resampled resampled' : List (Fix β)) (circ2 circA : Nat → Nat → Option β) (diameter duration downsampling : β)
    (h1 : track.map Fix.flat = track'.map Fix.flat) (h2 : resampled.map Fix.flat = resampled'.map Fix.flat) :
    findStopsGlobalPy zero one sq ofNat track resampled circ2 circA diameter duration downsampling =
      findStopsGlobalPy zero one sq ofNat track' resampled' circ2 circA diameter duration downsampling := by
  have key : ∀ l l' : List (Fix β), l.map Fix.flat = l'.map Fix.flat →
      l.length = l'.length ∧
      stopPredTrack zero (getFix zero l) circ2 diameter duration = stopPredTrack zero (getFix zero l') circ2 diameter duration ∧
      stopKeepTrack zero (getFix zero l) circA diameter duration = stopKeepTrack zero (getFix zero l') circA diameter duration := by
    intro l l' h
    refine ⟨by simpa using congrArg List.length h, stopPredTrack_flat zero _ _ (getFix_flat zero l l' h) _ _ _,
      stopKeepTrack_flat zero _ _ (getFix_flat zero l l' h) _ _ _⟩
  unfold findStopsGlobalPy stopsTrack
  by_cases hds : one < downsampling
  · obtain ⟨a, b, c⟩ := key _ _ h2
    simp only [if_pos hds, a, b, c]
  · obtain ⟨a, b, c⟩ := key _ _ h1
    simp only [if_neg hds, a, b, c]

/-- array form of stop detection (run by the driver) = `findStopsGlobalPy`: same errors, and on success the segmentation is
`stopsSegmentation`, the stops are `stopsReported` and the identifiers those of `findStopsGlobalPy` -/
theorem find_stops_array_form {β : Type} [Add β] [LT β] [DecidableLT β] [Sub β] [Mul β] (zero one : β) (sq ofNat : Nat → β)
    (track resampled : List (Fix β)) (circ2 circA : Nat → Nat → Option β) (diameter duration downsampling : β) :
    (findStopsGlobalPyA zero one sq ofNat track resampled circ2 circA diameter duration downsampling).map (fun r => r.2.2) =
      findStopsGlobalPy zero one sq ofNat track resampled circ2 circA diameter duration downsampling ∧
    ∀ seg st ids, findStopsGlobalPyA zero one sq ofNat track resampled circ2 circA diameter duration downsampling = .ok (seg, st, ids) →
      let tr := stopsTrack one downsampling track resampled
      let p := stopPredTrack zero (getFix zero tr) circ2 diameter duration
      seg = stopsSegmentation zero sq p tr.length ∧
      st = stopsReported zero sq p (stopKeepTrack zero (getFix zero tr) circA diameter duration) tr.length := by
  unfold findStopsGlobalPyA findStopsGlobalPy stopsReported stopsSegmentation
  simp only [optimalPartitionA_eq]
  constructor
  · split
    · rfl
    · split <;> rfl
  · intro seg st ids h
    split at h
    · cases h
    · split at h
      · cases h
      · simp only [Except.ok.injEq, Prod.mk.injEq] at h
        exact ⟨h.1.symm, h.2.1.symm⟩

section track
variable {K : Type} [CommRing K] [LinearOrder K] [IsStrictOrderedRing K]

/-- the documented test on the observations `a … e` of the track: the segment lasts at least `duration` and `minCircle`
gives a circle of diameter at most `diameter` (squared: `circ2 a e ≤ diameter²`); inclusive boundaries, as documented -/
def stopsAdmitted (tr : Nat → Fix K) (circ2 : Nat → Nat → Option K) (diameter duration : K) (a e : Nat) : Bool :=
  match circ2 a e with
  | some c => decide (duration ≤ (tr e).t - (tr a).t ∧ c ≤ diameter * diameter)
  | none => false

/-- the documented reward of the segment `[a, b)` (source comment of `findStopsGlobal`): `C_ab = 0` if the enclosing circle of
`p_a … p_{b−1}` is `> diameter`, `0` if the time elapsed between `p_a` and `p_{b−1}` is `< duration`, `(b−a)²` otherwise.
No other condition: the distance test with its `break` does not appear. -/
def stopsDocumented (sq : Nat → K) (tr : Nat → Fix K) (circ2 : Nat → Nat → Option K) (diameter duration : K) (a b : Nat) : K :=
  if stopsAdmitted tr circ2 diameter duration a (b - 1) then sq (b - a) else 0

/-- **T3 `stops_criterion`** — the reward matrix of `findStopsGlobal` IS the documented one. Hypothesis `hc`: every circle
`minCircle` returns encloses, in the plane, the observations of its segment (squared diameter `circ2 i e = 4 r²`, centre
`(cx, cy)`). Then for `0 ≤ diameter` and candidates `a < b ≤ size − 2` the cell `(a, b)` holds `stopsDocumented a b`: the
row loop's early exit (`distance2DTo(p_a, p_{j−1}) > diameter: break`) never removes a reward the documented criterion
grants, because two points of a disc are at most one diameter apart IN THE PLANE. (With a distance that is not the
planimetric one — `distanceTo`, which adds the altitude — this is false: seeded change C12-6.) Exact arithmetic
(ordered commutative ring); on doubles the comparisons with the thresholds are those of the code, sampled by the check. -/
theorem stops_criterion (sq : Nat → K) (tr : Nat → Fix K) (circ2 : Nat → Nat → Option K) (diameter duration : K)
    (hd : 0 ≤ diameter)
    (size : Nat)
    (hc : ∀ i e c, i ≤ e → e < size → circ2 i e = some c → ∃ cx cy r2, c = 4 * r2 ∧ Enclosed tr cx cy r2 i e)
    (a b : Nat) (hab : a < b) (hb : b ≤ size - 2) (hs : 3 ≤ size) :
    stopsReward 0 sq (stopPredTrack 0 tr circ2 diameter duration) size a b = stopsDocumented sq tr circ2 diameter duration a b := by
  unfold stopPredTrack
  rw [if_neg (not_lt.mpr hd)]
  obtain ⟨h1, h0⟩ := stops_documented sq (fun i e => dist2D2 (tr i) (tr e)) (fun i e => (tr e).t - (tr i).t) circ2
    (diameter * diameter) duration size a b hab hb hs
  unfold stopsDocumented stopsAdmitted
  cases hcirc : circ2 a (b - 1) with
  | none =>
    simp only [Bool.false_eq_true, if_false]
    apply h0
    rintro ⟨_, _, d, hc', _⟩
    rw [hcirc] at hc'; cases hc'
  | some c =>
    by_cases hcond : duration ≤ (tr (b - 1)).t - (tr a).t ∧ c ≤ diameter * diameter
    · simp only [hcond, and_self, decide_true, if_true]
      apply h1
      refine ⟨?_, hcond.1, c, hcirc, hcond.2⟩
      intro j hj1 hj2
      obtain ⟨cx, cy, r2, e, henc⟩ := hc _ _ _ (by omega) (by omega) hcirc
      have := dist2D2_le_of_disc (tr a) (tr (j - 1)) cx cy r2 (henc a (Nat.le_refl _) (by omega)) (henc (j - 1) (by omega) (by omega))
      calc dist2D2 (tr a) (tr (j - 1)) ≤ 4 * r2 := this
        _ = c := e.symm
        _ ≤ diameter * diameter := hcond.2
    · simp only [hcond, decide_false, Bool.false_eq_true, if_false]
      apply h0
      rintro ⟨_, hdu, c', hc', hle⟩
      rw [hcirc] at hc'
      cases hc'
      exact hcond ⟨hdu, hle⟩

/-- a negative `diameter` is exceeded by every distance: the reward matrix is zero -/
theorem stops_negative_diameter (sq : Nat → K) (tr : Nat → Fix K) (circ2 : Nat → Nat → Option K) (diameter duration : K)
    (hd : diameter < 0) (size a b : Nat) (hab : a < b) (hb : b ≤ size - 2) (hs : 3 ≤ size) :
    stopsReward 0 sq (stopPredTrack 0 tr circ2 diameter duration) size a b = 0 := by
  unfold stopPredTrack
  rw [if_pos hd]
  exact ((stops_matrix sq _ size).2.2 a b hab hb hs).1 (Or.inl ⟨b, hab, Nat.le_refl _, rfl⟩)

/-- **T3 `stops_fit_in_circle`** — the criterion without reference to `minCircle`'s answer: if moreover the circle returned is
a MINIMAL enclosing circle (`hmin`: no enclosing disc is smaller), the reward of `(a, b)` is `(b − a)²` exactly when the segment
lasts at least `duration` and the observations `p_a … p_{b−1}` FIT IN SOME DISC of diameter at most `diameter` (in the plane);
`0` otherwise. (`hsome`: `minCircle` did return a circle; `None` gives `0`: class `stops-mincircle-none`.) -/
theorem stops_fit_in_circle (sq : Nat → K) (tr : Nat → Fix K) (circ2 : Nat → Nat → Option K) (diameter duration : K)
    (hd : 0 ≤ diameter)
    (size : Nat)
    (hc : ∀ i e c, i ≤ e → e < size → circ2 i e = some c → ∃ cx cy r2, c = 4 * r2 ∧ Enclosed tr cx cy r2 i e)
    (hmin : ∀ i e c, circ2 i e = some c → ∀ cx cy r2, Enclosed tr cx cy r2 i e → c ≤ 4 * r2)
    (a b : Nat) (hab : a < b) (hb : b ≤ size - 2) (hs : 3 ≤ size) (hsome : circ2 a (b - 1) ≠ none) :
    let fits := duration ≤ (tr (b - 1)).t - (tr a).t ∧
      ∃ cx cy r2, Enclosed tr cx cy r2 a (b - 1) ∧ 4 * r2 ≤ diameter * diameter
    (fits → stopsReward 0 sq (stopPredTrack 0 tr circ2 diameter duration) size a b = sq (b - a)) ∧
    (¬ fits → stopsReward 0 sq (stopPredTrack 0 tr circ2 diameter duration) size a b = 0) := by
  intro fits
  rw [stops_criterion sq tr circ2 diameter duration hd size hc a b hab hb hs]
  unfold stopsDocumented stopsAdmitted
  cases hcirc : circ2 a (b - 1) with
  | none => exact absurd hcirc hsome
  | some c =>
    have key : (duration ≤ (tr (b - 1)).t - (tr a).t ∧ c ≤ diameter * diameter) ↔ fits := by
      constructor
      · rintro ⟨h1, h2⟩
        obtain ⟨cx, cy, r2, e, henc⟩ := hc _ _ _ (by omega) (by omega) hcirc
        exact ⟨h1, cx, cy, r2, henc, by rw [← e]; exact h2⟩
      · rintro ⟨h1, cx, cy, r2, henc, hle⟩
        exact ⟨h1, le_trans (hmin _ _ _ hcirc cx cy r2 henc) hle⟩
    by_cases hf : fits
    · refine ⟨fun _ => ?_, fun h => absurd hf h⟩
      rw [if_pos (decide_eq_true (key.mpr hf))]
    · refine ⟨fun h => absurd h hf, fun _ => ?_⟩
      rw [if_neg]
      intro h
      exact hf (key.mp (of_decide_eq_true h))

/-- **T3 `stops_track_optimal`** — `findStopsGlobal` optimises the criterion it documents: under `stops_criterion`'s hypotheses
the segmentation computed from the track is a strictly increasing list from `0` to `size − 2` that MAXIMISES the summed
DOCUMENTED reward `Σ stopsDocumented(i_k, i_{k+1})` over all such lists. -/
theorem stops_track_optimal (sq : Nat → K) (tr : Nat → Fix K) (circ2 : Nat → Nat → Option K) (diameter duration : K)
    (hd : 0 ≤ diameter)
    (size : Nat)
    (hc : ∀ i e c, i ≤ e → e < size → circ2 i e = some c → ∃ cx cy r2, c = 4 * r2 ∧ Enclosed tr cx cy r2 i e)
    (h : 3 ≤ size)
    (π : List Nat) (h0 : π.head? = some 0) (hN : π.getLast? = some (size - 2)) (hinc : π.Pairwise (· < ·)) :
    let seg := stopsSegmentation 0 sq (stopPredTrack 0 tr circ2 diameter duration) size
    seg.head? = some 0 ∧ seg.getLast? = some (size - 2) ∧ seg.Pairwise (· < ·) ∧
    pathCost 0 (stopsDocumented sq tr circ2 diameter duration) seg ≥ pathCost 0 (stopsDocumented sq tr circ2 diameter duration) π := by
  intro seg
  obtain ⟨s1, s2, s3, hopt⟩ := stops_optimal sq (stopPredTrack 0 tr circ2 diameter duration) size h π h0 hN hinc
  refine ⟨s1, s2, s3, ?_⟩
  have hcongr : ∀ (l : List Nat), l.head? = some 0 → l.getLast? = some (size - 2) → l.Pairwise (· < ·) →
      pathCost 0 (stopsReward 0 sq (stopPredTrack 0 tr circ2 diameter duration) size) l =
        pathCost 0 (stopsDocumented sq tr circ2 diameter duration) l := by
    intro l l0 lN linc
    cases l with
    | nil => cases l0
    | cons a t =>
      rw [lastOf_getLast?] at lN
      have hl : lastOf a t = size - 2 := by simpa using lN
      exact pathCost_congr _ _ (size - 2)
        (fun x y hxy hy => stops_criterion sq tr circ2 diameter duration hd size hc x y hxy hy h) t a
        ((inc_pairwise _).mpr linc) (by omega)
  rw [hcongr π h0 hN hinc, hcongr _ s1 s2 s3] at hopt
  exact hopt

/-- the final filter of `findStopsGlobal` (`C is None`, `C.radius > diameter/2`, `portion.duration() < duration`) is the
documented test with the same inclusive boundaries -/
theorem stops_final_filter (tr : Nat → Fix K) (circA : Nat → Nat → Option K) (diameter duration : K) (hd : 0 ≤ diameter) :
    stopKeepTrack 0 tr circA diameter duration = stopsAdmitted tr circA diameter duration := by
  funext a e
  unfold stopKeepTrack stopsAdmitted
  cases circA a e with
  | none => rfl
  | some c =>
    simp only [not_lt.mpr hd, decide_false, Bool.false_or]
    by_cases h1 : diameter * diameter < c <;> by_cases h2 : (tr e).t - (tr a).t < duration <;>
      simp [h1, h2, not_le.mpr, not_lt.mp]

/-- **T3 `find_stops_global`** — `findStopsGlobal(track, diameter, duration, downsampling)` from the caller's arguments: on the
track the function works on (`tr`: the resampled copy when `downsampling > 1`, the track itself otherwise; at least three
observations), with `0 ≤ diameter` and a `minCircle` that returns enclosing circles and the same answer in the row loops and
in the final filter, the call returns — as `(id_ini, id_end, nb_points) = (a·downsampling, (b−1)·downsampling, b − a)` —
exactly the segments `[a, b)` ADMITTED by the documented criterion of a strictly increasing list `seg` from `0` to `size − 2`
that maximises the summed documented reward over all such lists. -/
theorem find_stops_global (sq ofNat : Nat → K) (track resampled : List (Fix K)) (circ2 : Nat → Nat → Option K)
    (diameter duration downsampling : K) (hd : 0 ≤ diameter)
    (hs : 3 ≤ (stopsTrack 1 downsampling track resampled).length)
    (hc : ∀ i e c, i ≤ e → e < (stopsTrack 1 downsampling track resampled).length → circ2 i e = some c →
      ∃ cx cy r2, c = 4 * r2 ∧ Enclosed (getFix 0 (stopsTrack 1 downsampling track resampled)) cx cy r2 i e) :
    let tr := getFix 0 (stopsTrack 1 downsampling track resampled)
    let size := (stopsTrack 1 downsampling track resampled).length
    ∃ seg : List Nat,
      seg.head? = some 0 ∧ seg.getLast? = some (size - 2) ∧ seg.Pairwise (· < ·) ∧
      (∀ π : List Nat, π.head? = some 0 → π.getLast? = some (size - 2) → π.Pairwise (· < ·) →
        pathCost 0 (stopsDocumented sq tr circ2 diameter duration) seg ≥
          pathCost 0 (stopsDocumented sq tr circ2 diameter duration) π) ∧
      findStopsGlobalPy 0 1 sq ofNat track resampled circ2 circ2 diameter duration downsampling =
        .ok ((((pairs seg).filter (fun ab => stopsAdmitted tr circ2 diameter duration ab.1 (ab.2 - 1))).map
          (fun ab => (ab.1, ab.2 - 1))).map
          (fun ae => (ofNat ae.1 * downsampling, ofNat ae.2 * downsampling, ae.2 + 1 - ae.1))) := by
  intro tr size
  refine ⟨stopsSegmentation 0 sq (stopPredTrack 0 tr circ2 diameter duration) size, ?_⟩
  obtain ⟨s1, s2, s3, _⟩ := stops_track_optimal sq tr circ2 diameter duration hd size hc hs [0, size - 2] rfl rfl
    (by simp; omega)
  refine ⟨s1, s2, s3, fun π h0 hN hinc => (stops_track_optimal sq tr circ2 diameter duration hd size hc hs π h0 hN hinc).2.2.2, ?_⟩
  unfold findStopsGlobalPy
  have h0 : ¬ (stopsTrack 1 downsampling track resampled).length = 0 := by omega
  have h2 : ¬ (stopsTrack 1 downsampling track resampled).length ≤ 2 := by omega
  simp only [if_neg h0, if_neg h2]
  unfold stopsReported
  rw [stops_final_filter _ circ2 diameter duration hd]

end track

section field
variable {K : Type} [Field K] [LinearOrder K] [IsStrictOrderedRing K]

/-- the run-time certificate computed by the driver on every stop-detection case (`enclosedB`, replied as `<enc>`) IS the
hypothesis `hc` of `stops_criterion` / `stops_track_optimal` / `find_stops_global`: every circle handed to the model
encloses the observations of its segment in the plane (radius² = a quarter of the squared diameter) -/
theorem enclosedB_sound (tr : Nat → Fix K) (circ2 : Nat → Nat → Option K) (cx cy : Nat → Nat → K) (size : Nat)
    (h : enclosedB 4 tr circ2 cx cy size = true) :
    ∀ i e c, i ≤ e → e < size → circ2 i e = some c → ∃ cx' cy' r2, c = 4 * r2 ∧ Enclosed tr cx' cy' r2 i e := by
  intro i e c hie he hc
  refine ⟨cx i e, cy i e, c / 4, by ring, ?_⟩
  intro k hk1 hk2
  unfold enclosedB at h
  rw [List.all_eq_true] at h
  have h1 := h i (List.mem_range.mpr (by omega))
  rw [List.all_eq_true] at h1
  have h2 := h1 e (List.mem_range.mpr he)
  rw [if_pos hie, hc] at h2
  simp only at h2
  rw [List.all_eq_true] at h2
  have h3 := h2 (k - i) (List.mem_range.mpr (by omega))
  have ek : i + (k - i) = k := by omega
  rw [ek] at h3
  have h4 : ¬ c < 4 * (((tr k).x - cx i e) * ((tr k).x - cx i e) + ((tr k).y - cy i e) * ((tr k).y - cy i e)) := by
    simpa using h3
  have h5 := not_lt.mp h4
  rw [le_div_iff₀ (by norm_num : (0 : K) < 4)]
  linarith

/-- **T3 `find_stops_global_checked`** — `find_stops_global` with its hypothesis on the circles replaced by the certificate the
driver checks on every case: for the circles the check hands to the model (exact minimal enclosing circles with their
centres), what the model returns — and the real `findStopsGlobal` is compared with, cell by cell and stop by stop — is the
set of admitted segments of a chain maximising the documented reward. -/
theorem find_stops_global_checked (sq ofNat : Nat → K) (track resampled : List (Fix K)) (circ2 : Nat → Nat → Option K)
    (cx cy : Nat → Nat → K) (diameter duration downsampling : K) (hd : 0 ≤ diameter)
    (hs : 3 ≤ (stopsTrack 1 downsampling track resampled).length)
    (henc : enclosedB 4 (getFix 0 (stopsTrack 1 downsampling track resampled)) circ2 cx cy
      (stopsTrack 1 downsampling track resampled).length = true) :
    let tr := getFix 0 (stopsTrack 1 downsampling track resampled)
    let size := (stopsTrack 1 downsampling track resampled).length
    ∃ seg : List Nat,
      seg.head? = some 0 ∧ seg.getLast? = some (size - 2) ∧ seg.Pairwise (· < ·) ∧
      (∀ π : List Nat, π.head? = some 0 → π.getLast? = some (size - 2) → π.Pairwise (· < ·) →
        pathCost 0 (stopsDocumented sq tr circ2 diameter duration) seg ≥
          pathCost 0 (stopsDocumented sq tr circ2 diameter duration) π) ∧
      findStopsGlobalPy 0 1 sq ofNat track resampled circ2 circ2 diameter duration downsampling =
        .ok ((((pairs seg).filter (fun ab => stopsAdmitted tr circ2 diameter duration ab.1 (ab.2 - 1))).map
          (fun ab => (ab.1, ab.2 - 1))).map
          (fun ae => (ofNat ae.1 * downsampling, ofNat ae.2 * downsampling, ae.2 + 1 - ae.1))) :=
  find_stops_global sq ofNat track resampled circ2 diameter duration downsampling hd hs
    (enclosedB_sound _ circ2 cx cy _ henc)
end field

/-! ## the hypotheses are satisfiable by non-trivial inputs -/

/-- cost matrix of DESIGN.md §5 C12 (D11 witness), four candidates, as a `5 × 5` matrix -/
def exC : Nat → Nat → Int := fun i j =>
  (([[0, 1, 5, 9, 0], [1, 0, 1, 5, 0], [5, 1, 0, 1, 0], [9, 5, 1, 0, 0], [0, 0, 0, 0, 0]] : List (List Int)).getD i []).getD j 0

example : optimalPartition 0 5 exC 0 = [0, 1, 2, 3] := by decide +kernel
example : optimalPartition 0 5 exC 1 = [0, 3] := by decide +kernel
example : optimalPartitionA 0 5 exC 0 = [0, 1, 2, 3] := by decide +kernel
example : pathCost 0 exC [0, 1, 2, 3] = 3 ∧ pathCost 0 exC [0, 3] = 9 := by decide +kernel
example : ([0, 2, 3] : List Nat).head? = some 0 ∧ ([0, 2, 3] : List Nat).getLast? = some (5 - 2)
    ∧ ([0, 2, 3] : List Nat).Pairwise (· < ·) := by decide
-- the ordered-monoid hypotheses hold for ℤ
example : pathCost 0 exC (optimalPartition 0 5 exC 0) ≤ pathCost 0 exC [0, 2, 3] :=
  optimal_min 5 exC (by omega) [0, 2, 3] rfl rfl (by decide)
/-! front ends: a four-parameter cost with a default (`deviation + penalty`, default penalty 5) on a track of 6 observations
(candidates 0..4). With the REQUESTED penalty 0 every break is free and the optimum is a chain of free segments; with the default
penalty 5 (no parameter given) the optimum is the single segment: a falsy `0` must not fall back on the default. -/
def exDev : Nat → Int → Int := fun i e => if e ≤ (i : Int) + 1 then 0 else e - i - 1
def exF : Nat → Int → Int → Int := fun i e g => exDev i e + g

example : optimalSegmentationPy (0 : Int) 6 (CostFn.fourD exF 5) (some 0) 0 = .ok [0, 1, 2, 4] := by decide +kernel
example : optimalSegmentationPy (0 : Int) 6 (CostFn.fourD exF 5) none 0 = .ok [0, 4] := by decide +kernel
example : optimalSegmentationPy (0 : Int) 6 (CostFn.four exF) none 0 = .error .type := by decide +kernel
example : optimalSegmentationPy (0 : Int) 6 (CostFn.three (γ := Int) exDev) (some 0) 0 = .error .type := by decide +kernel
example : optimalSimplificationPy (0 : Int) ["a", "b", "c", "d", "e", "f"] (CostFn.fourD exF 5) (some 0) 0
    = .ok ["a", "b", "c", "e"] := by decide +kernel
example : simplifyFree (0 : Int) ["a", "b", "c", "d", "e", "f"] (CostFn.fourD exF 1) 8 = some (.ok ["a", "b", "c", "d", "e"]) := by
  decide +kernel
-- the hypothesis of `segmentation_requested` is satisfiable: the call protocol is accepted and names the requested values
example : ∀ i e, segCall (CostFn.fourD exF 5) (some 0) i e = .ok (exF i e 0) := fun _ _ => rfl
example : ∃ l, optimalSegmentationPy (0 : Int) 6 (CostFn.fourD exF 5) (some 0) 0 = .ok l ∧
    pathCost 0 (fun a b => exF a ((b : Int) - 1) 0) l ≤ pathCost 0 (fun a b => exF a ((b : Int) - 1) 0) [0, 4] :=
  segmentation_requested_min 6 exF 5 0 (by omega) [0, 4] rfl rfl (by decide)
-- loop form of the matrix on a concrete cost: row 0 of the 4 × 4 matrix for cost(track, i, e) = 10 i + e + 2
example : (List.range 4).map (segMatrixL (0 : Int) 4 (fun i e => 10 * i + e + 2) 0) = [2, 2, 3, 0] := by decide +kernel

/-! stop detection: 6 observations, the first three close together and lasting long enough, then a jump -/
def exStops : StopPred where
  far := fun i e => decide (i < 3 ∧ 3 ≤ e)
  short := fun i e => decide (e < i + 1)
  small := fun i e => some (decide ((i < 3 ∧ e < 3) ∨ (3 ≤ i)))

example : stopsSegmentation (0 : Int) (fun n => (n * n : Nat)) exStops 6 = [0, 3, 4] := by decide +kernel
example : (List.range 5).map (stopsMatrix (0 : Int) (fun n => (n * n : Nat)) exStops 6 0) = [0, 0, 4, 9, 0] := by decide +kernel
example : stopsReported (0 : Int) (fun n => (n * n : Nat)) exStops (fun _ _ => true) 6 = [(0, 2), (3, 3)] := by decide +kernel

/-! `findStopsGlobal`'s tests on the regression witness of 026cb79: three fixes within 2 m at t = 0, 30, 60 — a group lasting
EXACTLY the minimal duration 60 — then jumps of 40 m. With the inclusive boundary the group is rewarded (9) and found. -/
def exTime : Nat → Int := fun i => ([0, 30, 60, 61, 62, 63] : List Int).getD i 0
def exDist : Nat → Nat → Int := fun i e => if i = e then 0 else if i < 3 ∧ e < 3 then 2 else 40
def exStopsG : StopPred := stopPredGlobal exDist (fun i e => exTime e - exTime i) (fun i e => some (exDist i e)) 20 60

example : (List.range 5).map (stopsMatrix (0 : Int) (fun n => (n * n : Nat)) exStopsG 6 0) = [0, 0, 0, 9, 0] := by decide +kernel
example : stopsSegmentation (0 : Int) (fun n => (n * n : Nat)) exStopsG 6 = [0, 3, 4] := by decide +kernel
-- a circle of diameter exactly `diameter` is admitted, a longer minimal duration is not
example : (stopPredGlobal exDist (fun i e => exTime e - exTime i) (fun i e => some (exDist i e)) 2 60).small 0 2 = some true := by decide
example : stopsSegmentation (0 : Int) (fun n => (n * n : Nat))
    (stopPredGlobal exDist (fun i e => exTime e - exTime i) (fun i e => some (exDist i e)) 20 61) 6 = [0, 4] := by decide +kernel

/-! stop detection from a track: fixes 2 m apart on a line, one every 30 s, whose altitude channel jumps by 1000 m from one
fix to the next (far above the diameter 5); `minCircle` of `p_i … p_e` is the circle on the segment's end points. The stops
are those of the planimetric criterion (two or three consecutive fixes), the altitude changes nothing, and with
`downsampling = 2` the identifiers are doubled and the criterion is read on the resampled copy. -/
def exFix (k : Nat) : Fix Int := ⟨2 * (k : Int), 0, if k % 2 = 0 then 0 else 1000, 30 * (k : Int)⟩
def exFlat (k : Nat) : Fix Int := ⟨2 * (k : Int), 0, 0, 30 * (k : Int)⟩
def exCirc2 (i e : Nat) : Option Int := some (4 * ((e : Int) - i) * ((e : Int) - i))

example : findStopsGlobalPy (0 : Int) 1 (fun n => ((n * n : Nat) : Int)) (fun n => (n : Int)) ((List.range 7).map exFix) []
    exCirc2 exCirc2 5 30 1 = .ok [(0, 1, 2), (2, 4, 3)] := by decide +kernel
example : findStopsGlobalPy (0 : Int) 1 (fun n => ((n * n : Nat) : Int)) (fun n => (n : Int)) ((List.range 7).map exFlat) []
    exCirc2 exCirc2 5 30 1 = .ok [(0, 1, 2), (2, 4, 3)] := by decide +kernel
example : findStopsGlobalPy (0 : Int) 1 (fun n => ((n * n : Nat) : Int)) (fun n => (n : Int)) ((List.range 7).map exFix)
    ((List.range 5).map exFix) exCirc2 exCirc2 5 30 2 = .ok [(0, 4, 3)] := by decide +kernel
example : findStopsGlobalPy (0 : Int) 1 (fun n => ((n * n : Nat) : Int)) (fun n => (n : Int)) ((List.range 7).map exFix) []
    exCirc2 exCirc2 (-1) 30 1 = .ok [] := by decide +kernel
example : findStopsGlobalPy (0 : Int) 1 (fun n => ((n * n : Nat) : Int)) (fun n => (n : Int)) ((List.range 2).map exFix) []
    exCirc2 exCirc2 5 30 1 = .error .index := by decide +kernel
-- `stops_planimetric`'s hypothesis: the two tracks agree on x, y, t
example : ((List.range 7).map exFix).map Fix.flat = ((List.range 7).map exFlat).map Fix.flat := by decide +kernel
/-- the hypothesis `hc` of `stops_criterion` / `stops_track_optimal` / `find_stops_global` is satisfiable: the circles of
`exCirc2` enclose their segments (centre the mid-point of the end points) -/
theorem exCirc2_encloses : ∀ i e c, exCirc2 i e = some c → ∃ cx cy r2, c = 4 * r2 ∧ Enclosed exFix cx cy r2 i e := by
  intro i e c h
  refine ⟨(i : Int) + e, 0, ((e : Int) - i) * ((e : Int) - i), ?_, ?_⟩
  · simp only [exCirc2, Option.some.injEq] at h
    rw [← h]; ring
  · intro k h1 h2
    simp only [exFix]
    have a : (0 : Int) ≤ (k : Int) - i := by omega
    have b : (0 : Int) ≤ (e : Int) - k := by omega
    nlinarith [mul_nonneg a b]
example : pathCost 0 (stopsDocumented (fun n => ((n * n : Nat) : Int)) exFix exCirc2 5 30)
      (stopsSegmentation 0 (fun n => ((n * n : Nat) : Int)) (stopPredTrack 0 exFix exCirc2 5 30) 7) ≥
    pathCost 0 (stopsDocumented (fun n => ((n * n : Nat) : Int)) exFix exCirc2 5 30) [0, 3, 5] :=
  (stops_track_optimal _ exFix exCirc2 5 30 (by decide) 7 (fun i e c _ _ => exCirc2_encloses i e c) (by omega) [0, 3, 5] rfl rfl (by decide)).2.2.2
example : stopsSegmentation 0 (fun n => ((n * n : Nat) : Int)) (stopPredTrack 0 exFix exCirc2 5 30) 7 = [0, 2, 5] ∧
    pathCost 0 (stopsDocumented (fun n => ((n * n : Nat) : Int)) exFix exCirc2 5 30) [0, 2, 5] = 13 ∧
    pathCost 0 (stopsDocumented (fun n => ((n * n : Nat) : Int)) exFix exCirc2 5 30) [0, 3, 5] = 13 := by decide +kernel

/-! the certificate of `find_stops_global_checked` on the same track over ℚ (centres: the mid-points of the end points) -/
def exFixQ (k : Nat) : Fix Rat := ⟨2 * (k : Rat), 0, if k % 2 = 0 then 0 else 1000, 30 * (k : Rat)⟩
def exCirc2Q (i e : Nat) : Option Rat := some (4 * ((e : Rat) - i) * ((e : Rat) - i))
example : enclosedB (4 : Rat) (getFix 0 ((List.range 7).map exFixQ)) exCirc2Q (fun i e => (i : Rat) + e) (fun _ _ => 0) 7 = true := by
  decide +kernel
-- a circle that is too small is refused
example : enclosedB (4 : Rat) (getFix 0 ((List.range 7).map exFixQ)) (fun _ _ => some 1) (fun i e => (i : Rat) + e) (fun _ _ => 0) 7 = false := by
  decide +kernel

/-! `optimal_bracketed`: its monotonicity hypothesis holds for ℤ (and, outside Lean, for doubles without NaN) -/
example : ∃ t : Br, t.WF ∧ t.chain = optimalPartition 0 5 exC 0 ∧
    ∀ t' : Br, t'.WF → t'.lo = 0 → t'.hi = 3 → t.val exC ≤ t'.val exC := by
  obtain ⟨⟨t, wf, _, _, ch, _, hopt⟩, _⟩ := optimal_bracketed (fun a b c d h1 h2 => Int.add_le_add h1 h2) (0 : Int) 5 exC (by omega)
  exact ⟨t, wf, ch, hopt⟩
example : (Br.node (.seg 0 1) (.node (.seg 1 2) (.seg 2 3))).WF ∧ (Br.node (.seg 0 1) (.node (.seg 1 2) (.seg 2 3))).chain = [0, 1, 2, 3]
    ∧ (Br.node (.seg 0 1) (.node (.seg 1 2) (.seg 2 3))).val exC = 3 := ⟨by simp [Br.WF, Br.hi, Br.lo], rfl, by decide⟩
/-! `optimal_rounded`: its hypotheses are satisfiable (ℤ with its exact addition embedded in ℚ, any `u ≥ 0`; for doubles
they are the standard model with `u = 2⁻⁵³`) -/
example : pathCost 0 (fun a b => ((exC a b : Int) : Rat)) (optimalPartition 0 5 exC 0) ≤
    pathCost 0 (fun a b => ((exC a b : Int) : Rat)) [0, 2, 3] +
      ((1 + 1 / 2) ^ (5 - 3) - 1) * (pathCost 0 (fun a b => |((exC a b : Int) : Rat)|) (optimalPartition 0 5 exC 0) +
        pathCost 0 (fun a b => |((exC a b : Int) : Rat)|) [0, 2, 3]) :=
  (optimal_rounded (fun (a : Int) => (a : Rat)) (1 / 2) (by norm_num) (fun a b h => by exact_mod_cast h)
    (fun a b c d h1 h2 => Int.add_le_add h1 h2)
    (fun a b => by simp only [Int.cast_add, sub_self, abs_zero]; exact mul_nonneg (by norm_num) (abs_nonneg _))
    0 5 exC (by omega) [0, 2, 3] rfl rfl (by decide)).1
end TV.C12
