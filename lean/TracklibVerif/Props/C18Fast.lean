import TracklibVerif.Props.C18
import TracklibVerif.Lemmas.DTWFastSession
import TracklibVerif.Model.DTWHyp
/-! # C18 — sessions that include the fast variant (modes FDTW = 3 / 107)

`session_history_irrelevant` / `session_history_irrelevant_real` (Props/C18.lean) exclude the FDTW modes. Here they are included:
`_fillAF_dtw` overwrites `diff` / `ex` / `ey` only at the observations of the coupling it is given, so that what a call returns on
an already matched track is what it returns on a fresh copy **when the walk through the antecedent map is a coupling** — which is
what `fdtw_spec` proves under the hypotheses of `match_fdtw_correct` / `match_fdtw_real_correct` (`FastHyp`: accumulation monotone
and inflationary on the distances at hand, `big` above every candidate cost). `FastCallOK` asks them of the accumulation and the point
distance of the call at hand, whatever the form of `p` (number of any type, callable) and of `dim`; `fast_call_ok` discharges all
but the bound on `big` over an ordered field for a non-negative point distance and a power function non-negative on non-negative
numbers. The statements are about `runSeqX`, the sessions the driver runs (`runSeq` is the special case of `front_ends_agree`). -/
open TV.DTW
namespace TV.C18

section sessionFast
variable {α : Type} [Add α] [Sub α] [Mul α] [Div α] [Neg α] [LinearOrder α] [OfNat α 0] [OfNat α 1] [OfScientific α]

/-- **histories are irrelevant in every mode, the fast variant included**: in a session of `match` / `compare` calls on shared
objects (`runSeqX`: any constants, any exponent in any form, any `dim`), where every call in a FDTW mode (3 / 107) is one the fast
variant is good for (`FastCallOK`, asked for every pair of objects of the session: the positions of an object never change, so this
is a hypothesis on the tracks given at the start), every call returns what it returns on copies of the same positions that never
went through `match`. In particular `match(match(t1, t2, FDTW), t3, FDTW)` is `match(t1, t3, FDTW)`: no link and no `diff` / `ex` /
`ey` of the earlier matching survives. -/
theorem session_history_irrelevant_fdtw (pow : α → α → α) (G : Geom α) (root : Nat → α → α) (ofNat : Nat → α) (big : α) :
    ∀ (steps : List (StepX α)) (env : List (Option (TrackObj α))), WFEnv env →
      (∀ st ∈ steps, (st.mode = 3 ∨ st.mode = 107) → ∀ a b, some a ∈ env → some b ∈ env →
        FastCallOK pow G big st.p st.dim a.pts b.pts) →
      runSeqX pow G root ofNat big env steps
        = runFreshX pow G root ofNat big (env.map (Option.map TrackObj.pts)) steps
  | [], env, _, _ => by simp [runSeqX, runFreshX]
  | st :: rest, env, hwf, hm => by
    have hst := hm st List.mem_cons_self
    have hrest : ∀ env' : List (Option (TrackObj α)), (∀ o', some o' ∈ env' → ∃ o, some o ∈ env ∧ o'.pts = o.pts) →
        ∀ s ∈ rest, (s.mode = 3 ∨ s.mode = 107) → ∀ a b, some a ∈ env' → some b ∈ env' →
          FastCallOK pow G big s.p s.dim a.pts b.pts := by
      intro env' henv s hs hmode a b ha hb
      obtain ⟨a0, ha0, ea⟩ := henv a ha
      obtain ⟨b0, hb0, eb⟩ := henv b hb
      rw [ea, eb]
      exact hm s (List.mem_cons_of_mem _ hs) hmode a0 b0 ha0 hb0
    have hget : ∀ k : Nat, ((env.map (Option.map TrackObj.pts))[k]?).join = ((env[k]?).join).map TrackObj.pts := by
      intro k
      rw [List.getElem?_map]
      cases env[k]? with
      | none => rfl
      | some o => cases o <;> rfl
    have hmem : ∀ (k : Nat) (obj : TrackObj α), (env[k]?).join = some obj → some obj ∈ env := by
      intro k obj h
      cases hk : env[k]? with
      | none => rw [hk] at h; cases h
      | some o =>
        rw [hk] at h
        simp only [Option.join] at h
        subst h
        exact List.mem_of_getElem? hk
    have hnone : WFEnv (env ++ [none]) := by
      intro obj ho
      rcases List.mem_append.mp ho with h | h
      · exact hwf obj h
      · simp at h
    have hsubnone : ∀ o', some o' ∈ env ++ [none] → ∃ o, some o ∈ env ∧ o'.pts = o.pts := by
      intro o' ho
      rcases List.mem_append.mp ho with h | h
      · exact ⟨o', h, rfl⟩
      · simp at h
    have hmapnone : (env ++ [none]).map (Option.map TrackObj.pts) = env.map (Option.map TrackObj.pts) ++ [none] := by simp
    rw [runSeqX, runFreshX, hget, hget]
    cases ha : (env[st.a]?).join with
    | none =>
      simp only [Option.map_none]
      rw [session_history_irrelevant_fdtw pow G root ofNat big rest _ hnone (hrest _ hsubnone), hmapnone]
    | some a =>
      cases hb : (env[st.b]?).join with
      | none =>
        simp only [Option.map_none, Option.map_some]
        rw [session_history_irrelevant_fdtw pow G root ofNat big rest _ hnone (hrest _ hsubnone), hmapnone]
      | some b =>
        have hwa := hwf a (hmem _ _ ha)
        have hwb := hwf b (hmem _ _ hb)
        simp only [Option.map_some]
        by_cases hf : st.front = true
        · simp only [hf, if_true]
          have hok : st.mode = 3 → FastCallOK pow G big st.p st.dim a.pts b.pts :=
            fun h3 => hst (Or.inl h3) a b (hmem _ _ ha) (hmem _ _ hb)
          have hh : matchCallX pow G big st.mode st.p st.dim a b.pts
              = matchCallX pow G big st.mode st.p st.dim (TrackObj.fresh a.pts) b.pts :=
            matchCallX_history_all pow G big st.mode st.p st.dim a.pts b.pts a.rows hwa.1 hwa.2 hwb.2 hok
          rw [hh]
          cases hr : matchCallX pow G big st.mode st.p st.dim (TrackObj.fresh a.pts) b.pts with
          | error e =>
            simp only
            rw [session_history_irrelevant_fdtw pow G root ofNat big rest _ hnone (hrest _ hsubnone), hmapnone]
          | ok o =>
            simp only
            have hlen := matchCallX_rows_length_all pow G big st.mode st.p st.dim a.pts b.pts hwa.2 hwb.2 hok o hr
            have hwf' : WFEnv (env ++ [some { pts := a.pts, rows := o.rows }]) := by
              intro obj ho
              rcases List.mem_append.mp ho with h | h
              · exact hwf obj h
              · simp only [List.mem_singleton, Option.some.injEq] at h
                subst h
                exact ⟨hlen, hwa.2⟩
            have hsub' : ∀ o', some o' ∈ env ++ [some { pts := a.pts, rows := o.rows }] →
                ∃ o0, some o0 ∈ env ∧ o'.pts = o0.pts := by
              intro o' ho
              rcases List.mem_append.mp ho with h | h
              · exact ⟨o', h, rfl⟩
              · simp only [List.mem_singleton, Option.some.injEq] at h
                subst h
                exact ⟨a, hmem _ _ ha, rfl⟩
            rw [session_history_irrelevant_fdtw pow G root ofNat big rest _ hwf' (hrest _ hsub')]
            simp
        · simp only [hf, if_false, Bool.false_eq_true]
          have hok : st.mode = 107 → FastCallOK pow G big st.p st.dim a.pts b.pts :=
            fun h7 => hst (Or.inr h7) a b (hmem _ _ ha) (hmem _ _ hb)
          have hh : compareCallX pow G root ofNat big st.mode st.p st.dim a b.pts
              = compareCallX pow G root ofNat big st.mode st.p st.dim (TrackObj.fresh a.pts) b.pts :=
            compareCallX_history_all pow G root ofNat big st.mode st.p st.dim a.pts b.pts a.rows hwa.1 hwa.2 hwb.2 hok
          rw [hh, session_history_irrelevant_fdtw pow G root ofNat big rest _ hnone (hrest _ hsubnone), hmapnone]
          rfl

omit [Div α] [Neg α] [OfNat α 1] [OfScientific α] in
/-- T5b for **any accumulation**: whatever `w` (a callable `p` of any shape, `B**p` wrapped in int64, …) and whatever the point distance
(negative values of a callable `dim` included), when `big` is above the accumulated cost of every partial coupling (`FastBig`) the fast
variant succeeds and the matching it returns is a monotone unit-step coupling from the first to the last pair, **its accumulated cost is
the reported score**, `nb_links` and the `pair` feature describe it, and nobody is left out. (That the score is the optimum needs the
accumulation monotone and inflationary: `fdtw_equal`.) -/
theorem fdtw_path_any (dist : Pt α → Pt α → α) (big : α) (w : α → α → α) (t1 t2 : List (Pt α))
    (h1 : 0 < t1.length) (h2 : 0 < t2.length) (hbig : FastBig big w dist t1 t2) :
    ∃ out, fdtw dist big w t1 t2 = some out ∧
      IsCouplingOf t1.length t2.length out.S ∧
      costBack w 0 (Dmat dist t1 t2) out.S = out.score ∧
      out.nbLinks = out.S.length ∧ out.rows.length = t1.length ∧
      (∀ s ∈ out.S, s.1 < t2.length ∧ s.2 < t1.length) ∧
      (∀ j, j < t1.length → ∃ r : Row α, out.rows[j]? = some r ∧ (∀ i, i ∈ r.pair ↔ (i, j) ∈ out.S) ∧ r.pair ≠ []) ∧
      (∀ i, i < t2.length → ∃ (j : Nat) (r : Row α), out.rows[j]? = some r ∧ i ∈ r.pair) := by
  obtain ⟨S, rows, he, hbp, hhd, hl, hp⟩ := fdtw_struct dist big w t1 t2 h1 h2 hbig
  obtain ⟨r1, r2, r3⟩ := rows_pairs S t1.length t2.length rows hbp hhd h1 h2 hl hp
  exact ⟨_, he, ⟨hbp, hhd⟩, rfl, rfl, hl, r1, r2, r3⟩

/-- a call is one the fast variant is good for as soon as `big` is above every partial coupling cost, for whatever `_p2weight` and
`_distance` return: no monotonicity, no sign condition -/
theorem fast_call_ok_any (pow : α → α → α) (G : Geom α) (big : α) (p : PArgX α) (dim : DimArg α) (t1 t2 : List (Pt α))
    (hbig : ∀ w dist, p2weightX pow p.exponent = .ok w → distanceOf G dim = .ok dist → FastBig big w dist t1 t2) :
    FastCallOK pow G big p dim t1 t2 :=
  fun w dist hw hd => Or.inr (hbig w dist hw hd)

/-- the single call, any form of `p` (number of any type, callable; exponent any positive number): `match(m, track2, FDTW, p, dim)`
on a track `m` that carries the feature rows of an earlier matching is `match` on the same positions without features, for a call
the fast variant is good for (generalises `match_fdtw_history`, which is about a Python number `p ∈ {0, 1, 2, …, inf}`) -/
theorem match_fdtw_history_any (pow : α → α → α) (G : Geom α) (big : α) (p : PArgX α) (dim : DimArg α)
    (t1 t2 : List (Pt α)) (rows0 : List (Row α)) (hl : rows0.length = t1.length) (h1 : 0 < t1.length) (h2 : 0 < t2.length)
    (hok : FastCallOK pow G big p dim t1 t2) :
    matchCallX pow G big 3 p dim { pts := t1, rows := rows0 } t2 = matchCallX pow G big 3 p dim (TrackObj.fresh t1) t2 :=
  matchCallX_history_all pow G big 3 p dim t1 t2 rows0 hl h1 h2 (fun _ => hok)

end sessionFast

section fieldFast
variable {α : Type} [Field α] [LinearOrder α] [IsStrictOrderedRing α]

/-- **when a call is one the fast variant is good for**, over an ordered field: the point distance `_distance(·, ·, dim)` is
non-negative on this class of positions (`distanceOf_nonneg`: every numeric `dim` when `sqrt` is non-negative; a callable `dim` must
be so itself), `B**x` is non-negative on non-negative `B` (the real power function is; only asked when `p` is not a natural number
nor infinity), and `big` is above every candidate cost — whatever the form of `p`: monotonicity and inflation of the accumulation
follow (`weightX_mono`, `weight_infl`) -/
theorem fast_call_ok (pow : α → α → α) (G : Geom α) (big : α) (p : PArgX α) (dim : DimArg α) (t1 t2 : List (Pt α))
    (hnn : ∀ dist, distanceOf G dim = .ok dist → ∀ a b, 0 ≤ dist a b)
    (hpow : ∀ x b : α, 0 < x → 0 ≤ b → 0 ≤ pow b x)
    (hbig : ∀ w dist, p2weightX pow p.exponent = .ok w → distanceOf G dim = .ok dist →
      ∀ i j i' j', i < t2.length → j < t1.length → i' < t2.length → j' < t1.length →
        w (T w 0 (Dmat dist t1 t2) i j) (Dmat dist t1 t2 i' j') < big) :
    FastCallOK pow G big p dim t1 t2 := by
  intro w dist hw hd
  obtain ⟨e, rfl, hx⟩ := p2weightX_ok pow p.exponent w hw
  refine Or.inl ⟨fun a b d h => weightX_mono pow e a b d h, ?_, hbig _ dist hw hd⟩
  intro a i j _ _
  cases e with
  | norm v => exact weight_infl v a _ (hnn dist hd _ _)
  | real x => exact le_add_of_nonneg_right (hpow x _ (hx x rfl) (hnn dist hd _ _))

/-- **sessions in every mode over an ordered field**: `session_history_irrelevant_fdtw` with the hypotheses of
`match_fdtw_correct` / `match_fdtw_real_correct` spelt out for every call in a FDTW mode — non-negative point distance, `B**x ≥ 0`
on `B ≥ 0`, `big` above every candidate cost on every pair of tracks of the session -/
theorem session_history_irrelevant_all (pow : α → α → α) (G : Geom α) (root : Nat → α → α) (ofNat : Nat → α) (big : α)
    (steps : List (StepX α)) (env : List (Option (TrackObj α))) (hwf : WFEnv env)
    (hpow : ∀ x b : α, 0 < x → 0 ≤ b → 0 ≤ pow b x)
    (hnn : ∀ st ∈ steps, (st.mode = 3 ∨ st.mode = 107) → ∀ dist, distanceOf G st.dim = .ok dist → ∀ a b, 0 ≤ dist a b)
    (hbig : ∀ st ∈ steps, (st.mode = 3 ∨ st.mode = 107) → ∀ a b, some a ∈ env → some b ∈ env →
      ∀ w dist, p2weightX pow st.p.exponent = .ok w → distanceOf G st.dim = .ok dist →
      ∀ i j i' j', i < b.pts.length → j < a.pts.length → i' < b.pts.length → j' < a.pts.length →
        w (T w 0 (Dmat dist a.pts b.pts) i j) (Dmat dist a.pts b.pts i' j') < big) :
    runSeqX pow G root ofNat big env steps
      = runFreshX pow G root ofNat big (env.map (Option.map TrackObj.pts)) steps :=
  session_history_irrelevant_fdtw pow G root ofNat big steps env hwf
    (fun st hs hmode a b ha hb => fast_call_ok pow G big st.p st.dim a.pts b.pts (hnn st hs hmode) hpow (hbig st hs hmode a b ha hb))

/-- **the monitor the driver runs is sound** (`C18.hyp`, `Model/DTWHyp.lean`): when `fastHypCheck` accepts two tracks — every point
distance `B ≥ 0`, `weight(0, B) ≥ 0`, every candidate cost `weight(T[i,j], D[i',j'])` below `big` — the hypotheses of `fdtw_equal` /
`match_fdtw_correct` / `match_fdtw_real_correct` / `session_history_irrelevant_fdtw` hold of them, for every accumulation `_p2weight`
can return (`weightX pow e`: `A + B**k`, `A + (B != 0)`, `max`, `A + B**x` whatever `B**x` computes). On the generated inputs the
check is evaluated in `Float` with `B**x = Float.pow`: the hypotheses on `B**x` are discharged there by the run, not assumed. -/
theorem fast_hyp_check_sound (pow : α → α → α) (big : α) (e : PExp α) (dist : Pt α → Pt α → α) (t1 t2 : List (Pt α))
    (h : fastHypCheck big (weightX pow e) dist t1 t2 = true) : FastHyp big (weightX pow e) dist t1 t2 := by
  unfold fastHypCheck at h
  simp only [Bool.and_eq_true, List.all_eq_true] at h
  obtain ⟨hA, hB⟩ := h
  have hmem : ∀ i j, i < t2.length → j < t1.length → (i, j) ∈ latticeCells t1.length t2.length := by
    intro i j hi hj
    unfold latticeCells
    exact List.mem_flatMap.mpr ⟨i, List.mem_range.mpr hi, List.mem_map.mpr ⟨j, List.mem_range.mpr hj, rfl⟩⟩
  have hdc : ∀ i j, i < t2.length → j < t1.length →
      cellAt (distCols dist t1 t2) i j = some (Dmat dist t1 t2 i j) := by
    intro i j hi hj
    rw [distCols_eq]
    exact cellAt_dcols _ _ _ i j hi hj
  refine ⟨fun a b d hab => weightX_mono pow e a b d hab, ?_, ?_⟩
  · intro a i j hi hj
    have := hA (i, j) (hmem i j hi hj)
    simp only [hdc i j hi hj, Bool.and_eq_true, decide_eq_true_eq] at this
    obtain ⟨h0, h1⟩ := this
    cases e with
    | norm v => exact weight_infl v a _ h0
    | real x =>
      have h2 : 0 ≤ pow (Dmat dist t1 t2 i j) x := by simpa [weightX] using h1
      exact le_add_of_nonneg_right h2
  · intro i j i' j' hi hj hi' hj'
    have := hB (i, j) (hmem i j hi hj) (i', j') (hmem i' j' hi' hj')
    rw [distCols_eq] at this
    simp only [cellAt_table _ _ _ _ _ i j hi hj, cellAt_dcols _ _ _ i' j' hi' hj', decide_eq_true_eq] at this
    exact this

end fieldFast

/-! ### the hypotheses are satisfiable; a concrete session -/

/-- `FastCallOK` holds of a concrete call: heights `0, 2` against `1`, `dim = 1`, `p = numpy.int64(2)` (a Python `int` after
`_exponent`), `big = 1000`, whatever `pow` is (never called for a natural exponent) -/
example (pow : ℚ → ℚ → ℚ) :
    FastCallOK pow { cls := .enu, T := exTrig } 1000 { tyname := "<class'numpy.int64'>", val := some (.norm (.nat 2)) } (.num 1)
      [⟨0, 0, 0⟩, ⟨0, 0, 2⟩] [⟨0, 0, 1⟩] := by
  intro w dist hw hd
  have hw' : w = weight (.nat 2) := by
    have : p2weightX pow (PArgX.exponent { tyname := "<class'numpy.int64'>", val := some (.norm (.nat 2)) })
        = .ok (weight (α := ℚ) (.nat 2)) := by
      have h1 : (PArgX.exponent (α := ℚ) { tyname := "<class'numpy.int64'>", val := some (.norm (.nat 2)) }).isNum = true := by decide
      have h2 : (PArgX.exponent (α := ℚ) { tyname := "<class'numpy.int64'>", val := some (.norm (.nat 2)) }).isFn = false := by decide
      have h3 : (PArgX.exponent (α := ℚ) { tyname := "<class'numpy.int64'>", val := some (.norm (.nat 2)) }).val
          = some (.norm (.nat 2)) := rfl
      generalize PArgX.exponent (α := ℚ) { tyname := "<class'numpy.int64'>", val := some (.norm (.nat 2)) } = q at h1 h2 h3
      unfold p2weightX PArgX.isZero PArgX.isInf
      simp [h1, h3, accOf]
    rw [this] at hw
    exact (Except.ok.inj hw).symm
  have hd' : dist = distance (α := ℚ) id 1 := by
    have : distanceOf (α := ℚ) { cls := .enu, T := exTrig } (.num 1) = .ok (distance id 1) := by
      simp [distanceOf, exTrig]
    rw [this] at hd
    exact (Except.ok.inj hd).symm
  subst hw' hd'
  have hnn : ∀ p q : Pt ℚ, 0 ≤ distance id 1 p q := by
    intro p q
    simp only [distance, ↓reduceIte]
    split_ifs <;> linarith
  refine Or.inl ⟨fun a b d h => weight_mono _ a b d h, fun a i j _ _ => weight_infl _ a _ (hnn _ _), ?_⟩
  intro i j i' j' hi hj hi' hj'
  have hi0 : i = 0 := by simpa using hi
  have hi0' : i' = 0 := by simpa using hi'
  subst hi0 hi0'
  have hj2 : j = 0 ∨ j = 1 := by simp at hj; omega
  have hj2' : j' = 0 ∨ j' = 1 := by simp at hj'; omega
  rcases hj2 with rfl | rfl <;> rcases hj2' with rfl | rfl <;>
    (simp only [T, weight, npow, Dmat, distance]; norm_num)

/-- a session with the fast variant (heights, `dim = 1`, `big = 1000`): `m = match(t0, t1, FDTW, p = 2)` on a `t0` that already
carried features under the same names, then `match(m, t2, FDTW, p = numpy.int64(1))`: the second call returns the links of `t0` with
`t2` only (`nb_links = 3`) and the `diff` of the new matching, as `session_history_irrelevant_fdtw` says -/
example :
    (runSeqX (α := ℚ) (fun b _ => b) { cls := .enu, T := exTrig } (fun _ x => x) (fun n => (n : ℚ)) 1000
      [some { pts := [⟨0, 0, 0⟩, ⟨0, 0, 1⟩], rows := [{ diff := some 5, pair := [9, 0] }, { diff := some 5, pair := [9, 1] }] },
       some (TrackObj.fresh [⟨0, 0, 1⟩]), some (TrackObj.fresh [⟨0, 0, 2⟩, ⟨0, 0, 0⟩, ⟨0, 0, 3⟩])]
      [{ front := true, mode := 3, p := { tyname := "<class'int'>", val := some (.norm (.nat 2)) }, dim := .num 1, a := 0, b := 1 },
       { front := true, mode := 3, p := { tyname := "<class'numpy.int64'>", val := some (.norm (.nat 1)) }, dim := .num 1, a := 3, b := 2 }]).map
      (fun r => match r with
        | .matched o => some (o.score, o.rows.map (·.pair), o.nbLinks)
        | _ => none)
    = [some (1, [[0], [0]], 2), some (4, [[0, 1], [2]], 3)] := by decide +kernel
/-- … and the `diff` feature of the two returned tracks: the distances of the new links (`|0 - 1|`, `|1 - 1|`; `|0 - 0|`, `|1 - 3|`),
nothing of the `5` that `t0` carried -/
example :
    (runSeqX (α := ℚ) (fun b _ => b) { cls := .enu, T := exTrig } (fun _ x => x) (fun n => (n : ℚ)) 1000
      [some { pts := [⟨0, 0, 0⟩, ⟨0, 0, 1⟩], rows := [{ diff := some 5, pair := [9, 0] }, { diff := some 5, pair := [9, 1] }] },
       some (TrackObj.fresh [⟨0, 0, 1⟩]), some (TrackObj.fresh [⟨0, 0, 2⟩, ⟨0, 0, 0⟩, ⟨0, 0, 3⟩])]
      [{ front := true, mode := 3, p := { tyname := "<class'int'>", val := some (.norm (.nat 2)) }, dim := .num 1, a := 0, b := 1 },
       { front := true, mode := 3, p := { tyname := "<class'numpy.int64'>", val := some (.norm (.nat 1)) }, dim := .num 1, a := 3, b := 2 }]).map
      (fun r => match r with
        | .matched o => o.rows.map (fun r => r.diff.getD 5)
        | _ => [])
    = [[1, 0], [0, 2]] := by decide +kernel

/-- `FastBig` is satisfiable, by an accumulation that is neither monotone nor inflationary (`w A B = B - A`: the alternating sum along
the coupling) on heights `0, 2` against `1`: the partial coupling costs are `1` at `(0,0)` and `1 - 1 = 0` at `(0,1)`, below `big = 1000`;
and the run of the fast variant on it returns a coupling whose accumulated cost is the score, as `fdtw_path_any` says -/
example : FastBig (α := ℚ) 1000 (fun a d => d - a) (distance id 1) [⟨0, 0, 0⟩, ⟨0, 0, 2⟩] [⟨0, 0, 1⟩] := by
  intro i j c hi hj hc
  have hi0 : i = 0 := by simpa using hi
  subst hi0
  have hj2 : j = 0 ∨ j = 1 := by simp at hj; omega
  have hD0 : Dmat (α := ℚ) (distance id 1) [⟨0, 0, 0⟩, ⟨0, 0, 2⟩] [⟨0, 0, 1⟩] 0 0 = 1 := by decide +kernel
  have hD1 : Dmat (α := ℚ) (distance id 1) [⟨0, 0, 0⟩, ⟨0, 0, 2⟩] [⟨0, 0, 1⟩] 0 1 = 1 := by decide +kernel
  have h00 : ∀ c, Coupling (fun a d : ℚ => d - a) 0 (Dmat (distance id 1) [⟨0, 0, 0⟩, ⟨0, 0, 2⟩] [⟨0, 0, 1⟩]) 0 0 c → c = 1 := by
    intro c h
    cases h
    simp [hD0]
  rcases hj2 with rfl | rfl
  · rw [h00 c hc]; norm_num
  · cases hc with
    | right h =>
      rw [h00 _ h]
      simp [hD1]
example :
    (fdtw (α := ℚ) (distance id 1) 1000 (fun a d => d - a) [⟨0, 0, 0⟩, ⟨0, 0, 2⟩] [⟨0, 0, 1⟩]).map
      (fun o => (o.score, o.S, decide (costBack (fun a d : ℚ => d - a) 0 (Dmat (distance id 1) [⟨0, 0, 0⟩, ⟨0, 0, 2⟩] [⟨0, 0, 1⟩]) o.S = o.score)))
    = some (0, [(0, 1), (0, 0)], true) := by decide +kernel

/-- the monitor accepts a concrete pair of tracks (heights `0, 2, 1` against `1, 3`, `dim = 1`, `p = 2`, `big = 1000`) and rejects it
when `big = 5` is below a candidate cost — `fast_hyp_check_sound` is not vacuous and the check is not constantly true -/
example : fastHypCheck (α := ℚ) 1000 (weightX (fun b _ => b) (.norm (.nat 2))) (distance id 1)
    [⟨0, 0, 0⟩, ⟨0, 0, 2⟩, ⟨0, 0, 1⟩] [⟨0, 0, 1⟩, ⟨0, 0, 3⟩] = true ∧
  fastHypCheck (α := ℚ) 5 (weightX (fun b _ => b) (.norm (.nat 2))) (distance id 1)
    [⟨0, 0, 0⟩, ⟨0, 0, 2⟩, ⟨0, 0, 1⟩] [⟨0, 0, 1⟩, ⟨0, 0, 3⟩] = false := by decide +kernel

end TV.C18
