import TracklibVerif.Props.C12
import Mathlib.Order.Basic
set_option linter.unusedSectionVars false
/-! # C12 — `optimal_rounded` for an addition that is the ROUNDING of the exact sum

`optimal_rounded` (Props/C12.lean) assumes three facts about the machine numbers `F`: their embedding `ι` is monotone, their
addition is monotone, and it has relative error `u`. Here `F` is the ordered field itself carrying the addition
`a ⊕ b = fl (a + b)` for a rounding function `fl` (`Rd fl`): the first two facts are then PROVED from "`fl` is monotone", the
third is "`fl` has relative error `u`". What stays assumed about binary64 is therefore exactly: the sum of two doubles is
`fl` of their exact sum for a function `fl` on the reals that is (1) monotone and (2) within `u·|x|` of `x` — true of
round-to-nearest-even with `u = 2⁻⁵³` as long as no sum overflows and no operand is NaN (sums in the subnormal range are
exact); `Float` is opaque in Lean, so these two facts are not provable here and are what the transfer check on doubles samples. -/
namespace TV.C12
open TV.Partition

/-- an ordered field with the rounded addition `a ⊕ b = fl (a + b)` -/
structure Rd {β : Type} (fl : β → β) where
  v : β

namespace Rd
variable {β : Type} {fl : β → β}
theorem v_injective : Function.Injective (Rd.v : Rd fl → β) := fun a b h => by cases a; cases b; cases h; rfl
instance [Add β] : Add (Rd fl) := ⟨fun a b => ⟨fl (a.v + b.v)⟩⟩
instance [LinearOrder β] : LinearOrder (Rd fl) := LinearOrder.lift' Rd.v v_injective
theorem le_def [LinearOrder β] (a b : Rd fl) : a ≤ b ↔ a.v ≤ b.v := Iff.rfl
theorem add_v [Add β] (a b : Rd fl) : (a + b).v = fl (a.v + b.v) := rfl
end Rd

/-- **T2 `optimal_rounded_fl`** — `optimalPartition` run with the rounded addition `a ⊕ b = fl (a + b)` on ANY costs of an
ordered field, for ANY rounding `fl` that is monotone and has relative error `u`: the exact summed cost of the list returned
is optimal up to `((1+u)^(N−2) − 1) · (Σ|cost| along the result + Σ|cost| along the competitor)`, both directions. Monotonicity
of the rounded addition and of the embedding are no longer hypotheses. -/
theorem optimal_rounded_fl {β : Type} [Field β] [LinearOrder β] [IsStrictOrderedRing β]
    (fl : β → β) (u : β) (hu : 0 ≤ u)
    (hfl : ∀ x y : β, x ≤ y → fl x ≤ fl y)
    (herr : ∀ x : β, |fl x - x| ≤ u * |x|)
    (rows : Nat) (C : Nat → Nat → β) (h : 3 ≤ rows)
    (π : List Nat) (h0 : π.head? = some 0) (hN : π.getLast? = some (rows - 2)) (hinc : π.Pairwise (· < ·)) :
    let CF : Nat → Nat → Rd fl := fun a b => ⟨C a b⟩
    let ac : Nat → Nat → β := fun a b => |C a b|
    let ε : β := (1 + u) ^ (rows - 3) - 1
    pathCost 0 C (optimalPartition (⟨0⟩ : Rd fl) rows CF 0) ≤
      pathCost 0 C π + ε * (pathCost 0 ac (optimalPartition (⟨0⟩ : Rd fl) rows CF 0) + pathCost 0 ac π) ∧
    pathCost 0 C π ≤
      pathCost 0 C (optimalPartition (⟨0⟩ : Rd fl) rows CF 1)
        + ε * (pathCost 0 ac (optimalPartition (⟨0⟩ : Rd fl) rows CF 1) + pathCost 0 ac π) :=
  optimal_rounded (F := Rd fl) (fun a => a.v) u hu (fun _ _ hab => hab)
    (fun _ _ _ _ h1 h2 => hfl _ _ (add_le_add h1 h2)) (fun a b => herr (a.v + b.v)) ⟨0⟩ rows (fun a b => ⟨C a b⟩) h π h0 hN hinc

/-- **T2 `optimal_bracketed_fl`** — `optimal_bracketed` for the rounded addition `a ⊕ b = fl (a + b)` of ANY monotone rounding
`fl` (no error bound needed): `D[0, N−1]` is the value of the returned list summed with `⊕` in the order given by the split table,
and it is at least as good as EVERY bracketing, summed with `⊕`, of EVERY chain. The monotonicity of `⊕` is proved from that of
`fl`. -/
theorem optimal_bracketed_fl {β : Type} [Field β] [LinearOrder β] [IsStrictOrderedRing β]
    (fl : β → β) (hfl : ∀ x y : β, x ≤ y → fl x ≤ fl y) (rows : Nat) (C : Nat → Nat → Rd fl) (h : 3 ≤ rows) :
    (∃ t : Br, t.WF ∧ t.lo = 0 ∧ t.hi = rows - 2 ∧ t.chain = optimalPartition (⟨0⟩ : Rd fl) rows C 0 ∧
      t.val C = (tables (⟨0⟩ : Rd fl) rows C 0).D 0 (rows - 2) ∧
      ∀ t' : Br, t'.WF → t'.lo = 0 → t'.hi = rows - 2 → t.val C ≤ t'.val C) ∧
    (∃ t : Br, t.WF ∧ t.lo = 0 ∧ t.hi = rows - 2 ∧ t.chain = optimalPartition (⟨0⟩ : Rd fl) rows C 1 ∧
      t.val C = (tables (⟨0⟩ : Rd fl) rows C 1).D 0 (rows - 2) ∧
      ∀ t' : Br, t'.WF → t'.lo = 0 → t'.hi = rows - 2 → t.val C ≥ t'.val C) :=
  optimal_bracketed (β := Rd fl) (fun _ _ _ _ h1 h2 => hfl _ _ (add_le_add h1 h2)) ⟨0⟩ rows C h

/-- non-vacuity: a rounding that is monotone, has relative error `1/8`, and whose addition is NOT associative -/
example : let fl : Rat → Rat := fun x => x + x / 8
    (∀ x y : Rat, x ≤ y → fl x ≤ fl y) ∧ (∀ x : Rat, |fl x - x| ≤ (1 / 8) * |x|) ∧
    fl (fl (1 + 1) + 2) ≠ fl (1 + fl (1 + 2)) := by
  intro fl
  refine ⟨fun x y hxy => ?_, fun x => ?_, by simp only [fl]; norm_num⟩
  · show x + x / 8 ≤ y + y / 8
    linarith
  · show |x + x / 8 - x| ≤ 1 / 8 * |x|
    have : x + x / 8 - x = 1 / 8 * x := by ring
    rw [this, abs_mul]
    have : |(1 / 8 : Rat)| = 1 / 8 := abs_of_pos (by norm_num)
    rw [this]

end TV.C12
