import TracklibVerif.Lemmas.MinCircle
import TracklibVerif.Lemmas.MinCircleAcute
import TracklibVerif.Lemmas.MinCircleThree
import Mathlib.Algebra.Order.Field.Rat
set_option linter.unusedSectionVars false
/-! # C12 — `minCircle` (util/geometrics.py: `__welzl`, `__circle`), the routine behind `findStopsGlobal`'s size test

The model is `Model/MinCircle.lean` (random draws as an explicit parameter, radii compared through their squares: exact
arithmetic). Two findings of the check are theorems about the model here — `mincircle_not_enclosing`,
`mincircle_none` (witness inputs and draw sequences replayed against tracklib in the corpus) — together with what the routine
DOES guarantee: its leaf circles (`circle_two_minimal`, `circle_three`, `circle_three_minimal`), the shape of every answer
(`mincircle_answer`), `mincircle_none_only_collinear`, `mincircle_enclosing_is_minimal` (an enclosing answer is the minimal circle),
`mincircle_small` / `mincircle_three` (inputs of at most three fixes: always right). Ordered field = exact arithmetic; on doubles the code's roots and the complex-number
circumcentre are rounded (not modelled). -/
namespace TV.C12
open TV.MinCircle

/-- the random source that replays a recorded list of `random.randint` values -/
def drawOf (l : List Nat) : Nat → Nat := fun k => l.getD k 0

/-- readable form of an answer (for the witnesses) -/
def showOut : Out Rat × Nat → Option (Option (Rat × Rat × Rat)) × Nat
  | (.none, k) => (some none, k)
  | (.circ c, k) => (some (some (c.cx, c.cy, c.r2)), k)
  | (_, k) => (none, k)

/-- Finding `stops-mincircle-not-enclosing` as a theorem about the model: for the four fixes (4,0), (1,0), (3,2), (2,2) and the
14 draws listed, `minCircle` returns the circle of centre (3,1) and squared radius 2 (the two-point circle on (4,0)-(2,2),
chosen by `__circle`'s CANDIDATES step for the boundary set {(4,0),(3,2),(2,2)}… where Welzl's recursion needs the circle
THROUGH the three points), and the fix (1,0) is at squared distance 5 > 2 of its centre: the answer does not enclose the input. -/
theorem mincircle_not_enclosing :
    showOut (minCircleOfPoints (1 / 10000) (drawOf [3, 2, 0, 0, 0, 1, 0, 0, 0, 0, 0, 0, 1, 0])
      [⟨4, 0, 0⟩, ⟨1, 0, 0⟩, ⟨3, 2, 0⟩, ⟨2, 2, 0⟩]) = (some (some (3, 1, 2)), 14)
    ∧ encloses (⟨3, 1, 2⟩ : Circ Rat) [⟨4, 0, 0⟩, ⟨1, 0, 0⟩, ⟨3, 2, 0⟩, ⟨2, 2, 0⟩] = false
    ∧ d2 (1 : Rat) 0 3 1 = 5 := by decide +kernel

/-- Finding `stops-mincircle-none` as a theorem about the model: five DISTINCT fixes, three of them — (2,3), (3,1), (1,5) —
on a line; for the 23 draws listed the three end up together in Welzl's boundary set and `minCircle` returns `None`
(`findStopsGlobal` then writes reward 0 for a segment the documented criterion may reward). -/
theorem mincircle_none :
    (showOut (minCircleOfPoints (1 / 10000)
      (drawOf [0, 1, 1, 1, 0, 0, 0, 0, 0, 1, 0, 0, 0, 0, 0, 0, 1, 1, 0, 0, 2, 1, 0])
      [⟨2, 3, 0⟩, ⟨3, 1, 0⟩, ⟨4, 2, 0⟩, ⟨4, 4, 0⟩, ⟨1, 5, 0⟩])).1 = some none := by decide +kernel

/-- the same with a place met twice at two altitudes: `ENUCoords.__eq__` compares the altitude too, so both fixes join the
boundary set, and with any third fix the three are collinear in the plane: `None`, here for the draws 0,1,0,1,1,0,1 -/
theorem mincircle_none_same_place :
    (showOut (minCircleOfPoints (1 / 10000) (drawOf [0, 1, 0, 1, 1, 0, 1])
      [⟨0, 0, 0⟩, ⟨0, 0, 1⟩, ⟨1, 0, 0⟩])).1 = some none := by decide +kernel

variable {α : Type} [Field α] [LinearOrder α] [IsStrictOrderedRing α]

/-- `__circle(p, q)`: both points are ON the circle and no disc containing both is smaller — the true minimal circle of two points -/
theorem circle_two_minimal (p q : Pt α) :
    d2 p.x p.y (circle2 p q).cx (circle2 p q).cy = (circle2 p q).r2
    ∧ d2 q.x q.y (circle2 p q).cx (circle2 p q).cy = (circle2 p q).r2
    ∧ ∀ c : Circ α, Enc c p → Enc c q → (circle2 p q).r2 ≤ c.r2 :=
  ⟨circle2_left p q, circle2_right p q, fun c => circle2_minimal p q c⟩

/-- `__circle(p1, p2, p3)` in exact arithmetic: `None` exactly when the three points are collinear (two equal points
included); the `random.random()` perturbation branches are never reached; otherwise the circle returned encloses the three
points, and it is either a two-point CANDIDATE — then the smallest disc containing the three points, with the third point
strictly inside, NOT on the circle — or, when there is no candidate, the circle THROUGH the three points. -/
theorem circle_three (p1 p2 p3 : Pt α) :
    ((p2.x - p1.x) * (p3.y - p1.y) - (p3.x - p1.x) * (p2.y - p1.y) = 0 ∧ circle3 p1 p2 p3 = .none) ∨
    ((p2.x - p1.x) * (p3.y - p1.y) - (p3.x - p1.x) * (p2.y - p1.y) ≠ 0 ∧
      ∃ c, circle3 p1 p2 p3 = .circ c ∧ Enc c p1 ∧ Enc c p2 ∧ Enc c p3 ∧
        ((c ∈ cands3 p1 p2 p3 ∧ ∀ c' : Circ α, Enc c' p1 → Enc c' p2 → Enc c' p3 → c.r2 ≤ c'.r2) ∨
         (cands3 p1 p2 p3 = [] ∧ c = circum p1 p2 p3 ∧ d2 p1.x p1.y c.cx c.cy = c.r2 ∧ d2 p2.x p2.y c.cx c.cy = c.r2
            ∧ d2 p3.x p3.y c.cx c.cy = c.r2))) := by
  rcases circle3_spec p1 p2 p3 with h | ⟨hd, c, hc, hh⟩
  · exact Or.inl h
  · obtain ⟨e1, e2, e3⟩ := circle3_encloses hc
    refine Or.inr ⟨hd, c, hc, e1, e2, e3, ?_⟩
    rcases hh with hm | hh
    · exact Or.inl ⟨hm, fun c' => cands3_minimal hm c'⟩
    · exact Or.inr hh

/-- `__circle(p1, p2, p3)` in exact arithmetic is the TRUE minimal enclosing circle of its three points, in both cases
(candidate: two points on a diameter; no candidate — no obtuse angle — the circle through the three points, whose centre is a
convex combination of them). What Welzl's recursion asks of this leaf is something else — the smallest circle with the three
points ON it — and the two differ exactly when there is a candidate: that is the defect behind `mincircle_not_enclosing`. -/
theorem circle_three_minimal {p1 p2 p3 : Pt α} {c : Circ α} (h : circle3 p1 p2 p3 = .circ c) :
    Enc c p1 ∧ Enc c p2 ∧ Enc c p3 ∧ ∀ c' : Circ α, Enc c' p1 → Enc c' p2 → Enc c' p3 → c.r2 ≤ c'.r2 := by
  rcases circle_three p1 p2 p3 with ⟨_, hn⟩ | ⟨hd, c0, hc0, e1, e2, e3, hh⟩
  · rw [hn] at h; cases h
  · rw [hc0] at h; cases h
    refine ⟨e1, e2, e3, ?_⟩
    rcases hh with ⟨_, hmin⟩ | ⟨hnil, rfl, _⟩
    · exact hmin
    · exact fun c' => circum_minimal p1 p2 p3 hd hnil c'

/-- inputs of at most two fixes, EVERY draw sequence: no fix — the circle of centre (0,0), radius 0; one fix — the fix itself,
radius 0; two fixes that `ENUCoords.__eq__` tells apart — the circle on their diameter, which is the true minimal circle
(`circle_two_minimal`). (Two fixes within 0.0001 of each other in all three coordinates: the zero circle on one of them.) -/
theorem mincircle_small (eps : α) (draw : Nat → Nat) :
    (∃ c, (minCircleOfPoints eps draw ([] : List (Pt α))).1 = .circ c ∧ c.cx = 0 ∧ c.cy = 0 ∧ c.r2 = 0)
    ∧ (∀ p : Pt α, (minCircleOfPoints eps draw [p]).1 = .circ (circle1 p))
    ∧ (∀ p q : Pt α, ptEq eps p q = false → ptEq eps q p = false →
        ∃ c, (minCircleOfPoints eps draw [p, q]).1 = .circ c ∧ c.r2 = (circle2 p q).r2 ∧
          d2 p.x p.y c.cx c.cy = c.r2 ∧ d2 q.x q.y c.cx c.cy = c.r2 ∧
          ∀ c' : Circ α, Enc c' p → Enc c' q → c.r2 ≤ c'.r2) := by
  refine ⟨⟨⟨0, 0, 0⟩, by simp [minCircleOfPoints, welzl, base], rfl, rfl, rfl⟩, mincircle_single eps draw, ?_⟩
  intro p q h1 h2
  rcases mincircle_pair eps draw p q h1 h2 with h | h
  · exact ⟨_, h, rfl, circle2_left p q, circle2_right p q, fun c' => circle2_minimal p q c'⟩
  · refine ⟨_, h, ?_, circle2_right q p, circle2_left q p, fun c' a b => circle2_minimal q p c' b a⟩
    simp only [circle2, d2]; ring

/-- the leaf circle of a boundary list encloses the (up to three) points it is built on -/
theorem base_encloses {R : List (Pt α)} {c : Circ α} (h : base R = .circ c) : ∀ p ∈ R.take 3, Enc c p := by
  match R, h with
  | [], _ => intro p hp; cases hp
  | [a], h =>
    simp only [base] at h; cases h
    intro p hp; simp only [List.take, List.mem_singleton] at hp; subst hp
    simp only [Enc, circle1, d2]; apply le_of_eq; ring
  | [a, b], h =>
    simp only [base] at h; cases h
    intro p hp
    simp only [List.take, List.mem_cons, List.not_mem_nil, or_false] at hp
    rcases hp with rfl | rfl
    · exact le_of_eq (circle2_left _ _)
    · exact le_of_eq (circle2_right _ _)
  | a :: b :: d :: rest, h =>
    simp only [base] at h
    obtain ⟨e1, e2, e3⟩ := circle3_encloses h
    intro p hp
    simp only [List.take, List.mem_cons, List.not_mem_nil, or_false] at hp
    rcases hp with rfl | rfl | rfl
    · exact e1
    · exact e2
    · exact e3

/-- Every answer of `minCircleOfPoints`, for EVERY sequence of random draws: the model never runs out of fuel and never
reaches a perturbation branch; the answer is the leaf circle `base R'` of a list `R'` of input points, and when it is a
circle it encloses the first three points of `R'` — the points it is built on. Nothing more is guaranteed: the other points
of the input need not be enclosed (`mincircle_not_enclosing`). -/
theorem mincircle_answer (eps : α) (draw : Nat → Nat) (pts : List (Pt α)) :
    ∃ R', (minCircleOfPoints eps draw pts).1 = base R' ∧ (∀ p ∈ R', p ∈ pts) ∧
      ∀ c, (minCircleOfPoints eps draw pts).1 = .circ c → ∀ p ∈ R'.take 3, Enc c p := by
  unfold minCircleOfPoints
  rcases hw : welzl eps draw pts.length pts [] 0 with ⟨o, k'⟩
  rcases welzl_leaf eps draw _ _ _ _ _ _ hw with h0 | ⟨R', e, hR'⟩
  · exact absurd h0 (by have := welzl_not_stuck eps draw pts.length pts [] 0 (Nat.le_refl _); rw [hw] at this; exact this)
  · refine ⟨R', e, fun p hp => ?_, fun c hc => ?_⟩
    · rcases hR' p hp with h | h
      · cases h
      · exact h
    · exact base_encloses (by rw [← e]; exact hc)

/-- `minCircle` returns `None` ONLY IF three of the input fixes (three entries of the list; two of them may be the same place)
are collinear in the plane: on a track with no three collinear fixes it never returns `None`, whatever the random draws. -/
theorem mincircle_none_only_collinear (eps : α) (draw : Nat → Nat) (pts : List (Pt α))
    (h : (minCircleOfPoints eps draw pts).1 = .none) :
    ∃ p1 ∈ pts, ∃ p2 ∈ pts, ∃ p3 ∈ pts, (p2.x - p1.x) * (p3.y - p1.y) - (p3.x - p1.x) * (p2.y - p1.y) = 0 := by
  obtain ⟨R', e, hR', _⟩ := mincircle_answer eps draw pts
  rw [h] at e
  match R', e, hR' with
  | [], e, _ => simp [base] at e
  | [a], e, _ => simp [base] at e
  | [a, b], e, _ => simp [base] at e
  | a :: b :: d :: rest, e, hR' =>
    simp only [base] at e
    refine ⟨a, hR' a (by simp), b, hR' b (by simp), d, hR' d (by simp), ?_⟩
    rcases circle3_spec a b d with ⟨h0, _⟩ | ⟨_, c, hc, _⟩
    · exact h0
    · rw [hc] at e; cases e

/-- the leaf circle of a boundary list is the smallest disc containing the (up to three) points it is built on -/
theorem base_minimal {R : List (Pt α)} {c : Circ α} (h : base R = .circ c) (c' : Circ α) (h0 : 0 ≤ c'.r2)
    (hc' : ∀ p ∈ R.take 3, Enc c' p) : c.r2 ≤ c'.r2 := by
  match R, h, hc' with
  | [], h, _ => simp only [base] at h; cases h; exact h0
  | [a], h, _ => simp only [base] at h; cases h; exact h0
  | [a, b], h, hc' =>
    simp only [base] at h; cases h
    exact circle2_minimal a b c' (hc' a (by simp)) (hc' b (by simp))
  | a :: b :: d :: rest, h, hc' =>
    simp only [base] at h
    exact (circle_three_minimal h).2.2.2 c' (hc' a (by simp)) (hc' b (by simp)) (hc' d (by simp))

/-- **Enclosing answers are minimal.** Whatever the random draws: if the circle returned by `minCircleOfPoints` encloses every
input fix (the certificate `enc` of the driver), it is THE minimal enclosing circle — no disc containing the input has a
smaller radius. So the only way `minCircle` errs, apart from `None`, is by NOT enclosing (`mincircle_not_enclosing`); the
`findStopsGlobal` rewards computed from enclosing answers are those of the documented criterion (`stops_fit_in_circle`). -/
theorem mincircle_enclosing_is_minimal (eps : α) (draw : Nat → Nat) (pts : List (Pt α)) (c : Circ α)
    (h : (minCircleOfPoints eps draw pts).1 = .circ c) (henc : encloses c pts = true) :
    (∀ p ∈ pts, Enc c p) ∧ ∀ c' : Circ α, 0 ≤ c'.r2 → (∀ p ∈ pts, Enc c' p) → c.r2 ≤ c'.r2 := by
  refine ⟨fun p hp => ?_, fun c' h0 hc' => ?_⟩
  · simp only [encloses, List.all_eq_true, decide_eq_true_eq] at henc
    exact henc p hp
  · obtain ⟨R', e, hR', _⟩ := mincircle_answer eps draw pts
    rw [h] at e
    exact base_minimal e.symm c' h0 (fun p hp => hc' p (hR' p (List.mem_of_mem_take hp)))

/-- **At most three fixes: always right.** For an input of at most three fixes that `ENUCoords.__eq__` tells apart whenever
they differ (no two different fixes within 0.0001 in all coordinates), and EVERY draw sequence: a circle returned by `minCircle`
encloses every fix and is THE minimal enclosing circle (the early leaf `len(R) == 3` is then met only with `P` empty, where
`__circle`'s answer — the minimal circle of its three points, `circle_three_minimal` — is what is wanted). With
`mincircle_none_only_collinear`: on at most three fixes `minCircle` is either `None` (three collinear entries) or exact. The
defect needs four fixes (`mincircle_not_enclosing`). -/
theorem mincircle_three (eps : α) (draw : Nat → Nat) (pts : List (Pt α)) (hlen : pts.length ≤ 3)
    (hsep : ∀ p ∈ pts, ∀ q ∈ pts, ptEq eps p q = true → p = q) (c : Circ α)
    (h : (minCircleOfPoints eps draw pts).1 = .circ c) :
    (∀ p ∈ pts, Enc c p) ∧ ∀ c' : Circ α, 0 ≤ c'.r2 → (∀ p ∈ pts, Enc c' p) → c.r2 ≤ c'.r2 := by
  have henc : ∀ p ∈ pts, Enc c p := by
    unfold minCircleOfPoints at h
    rcases hw : welzl eps draw pts.length pts [] 0 with ⟨o, k'⟩
    rw [hw] at h
    simp only at h
    subst h
    exact (welzl_encloses_small eps draw pts hsep pts.length pts [] 0 c k' (by simpa using hlen) (fun p hp => hp)
      (fun p hp => by cases hp) hw).2
  refine mincircle_enclosing_is_minimal eps draw pts c h ?_
  simp only [encloses, List.all_eq_true, decide_eq_true_eq]
  exact henc

/-- the certificate the driver evaluates on every answer (`enc`) is sound -/
theorem encloses_sound (c : Circ α) (pts : List (Pt α)) (h : encloses c pts = true) : ∀ p ∈ pts, Enc c p := by
  intro p hp
  simp only [encloses, List.all_eq_true, decide_eq_true_eq] at h
  exact h p hp

/-- non-vacuity: a run that returns the true minimal circle (all four fixes enclosed, three on the circle) -/
example : (showOut (minCircleOfPoints (1 / 10000) (drawOf [0, 0, 0, 0, 0, 0, 0, 0])
    [⟨0, 0, 0⟩, ⟨4, 0, 0⟩, ⟨1, 1, 0⟩, ⟨2, 3, 0⟩])).1
    = some (some (2, 5 / 6, 169 / 36)) := by decide +kernel


/-- non-vacuity of `circle_three`: an obtuse triangle (candidate on the long side, the third point strictly inside, not on the
circle), an acute one (no candidate: circle through the three points), a right one (the third point is ON the two-point circle:
not a candidate, the circle through the three points is that same circle), three collinear points -/
example : (cands3 (⟨0, 0, 0⟩ : Pt Rat) ⟨4, 0, 0⟩ ⟨2, 1, 0⟩).map (fun c => (c.cx, c.cy, c.r2)) = [(2, 0, 4)] := by decide +kernel
example : showOut (circle3 (⟨0, 0, 0⟩ : Pt Rat) ⟨4, 0, 0⟩ ⟨2, 1, 0⟩, 0) = (some (some (2, 0, 4)), 0) := by decide +kernel
example : (cands3 (⟨0, 0, 0⟩ : Pt Rat) ⟨4, 0, 0⟩ ⟨2, 3, 0⟩).length = 0 := by decide +kernel
example : showOut (circle3 (⟨0, 0, 0⟩ : Pt Rat) ⟨4, 0, 0⟩ ⟨2, 3, 0⟩, 0) = (some (some (2, 5 / 6, 169 / 36)), 0) := by decide +kernel
example : (cands3 (⟨0, 0, 0⟩ : Pt Rat) ⟨4, 0, 0⟩ ⟨0, 2, 0⟩).length = 0 := by decide +kernel
example : showOut (circle3 (⟨0, 0, 0⟩ : Pt Rat) ⟨4, 0, 0⟩ ⟨0, 2, 0⟩, 0) = (some (some (2, 1, 5)), 0) := by decide +kernel
example : showOut (circle3 (⟨0, 0, 0⟩ : Pt Rat) ⟨4, 0, 0⟩ ⟨2, 0, 0⟩, 0) = (some none, 0) := by decide +kernel

end TV.C12
