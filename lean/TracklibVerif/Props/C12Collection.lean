import TracklibVerif.Props.C12
set_option linter.unusedSectionVars false
/-! # C12 — `TrackCollection.simplify(cost, MODE_SIMPLIFY_FREE / _MAXIMIZE)`: every track of the collection is simplified by
`simplify` — hence optimally for the requested direction (`simplify_modes`, `simplification_selects`). -/
namespace TV.C12
open TV.Partition
variable {α : Type} [Add α] [LT α] [DecidableLT α]

/-- **T3 `collection_simplify_each`** — when `TrackCollection.simplify(cost, mode)` returns, it returns one track per input
track, in order, each being `simplify(track, cost, mode)`; when it raises, some `simplify(track, cost, mode)` raised that
exception and every earlier track was simplified without error. -/
theorem collection_simplify_each {γ ω : Type} (zero : α) (c : CostFn γ α) (smode : Nat) (tracks : List (List ω)) :
    (∀ outs, collectionSimplifyFree zero c smode tracks = some (.ok outs) →
      List.Forall₂ (fun t r => simplifyFree zero t c smode = some (.ok r)) tracks outs) ∧
    (∀ e, collectionSimplifyFree zero c smode tracks = some (.error e) →
      ∃ pre t post, tracks = pre ++ t :: post ∧ simplifyFree zero t c smode = some (.error e) ∧
        ∀ t' ∈ pre, ∃ r, simplifyFree zero t' c smode = some (.ok r)) := by
  induction tracks with
  | nil =>
    refine ⟨fun outs h => ?_, fun e h => ?_⟩
    · simp only [collectionSimplifyFree, Option.some.injEq, Except.ok.injEq] at h
      subst h; exact List.Forall₂.nil
    · simp only [collectionSimplifyFree, Option.some.injEq] at h; cases h
  | cons t ts ih =>
    refine ⟨fun outs h => ?_, fun e h => ?_⟩
    · unfold collectionSimplifyFree at h
      split at h
      · cases h
      · cases h
      · rename_i r hr
        split at h
        · cases h
        · cases h
        · rename_i rs hrs
          simp only [Option.some.injEq, Except.ok.injEq] at h
          subst h
          exact List.Forall₂.cons hr (ih.1 rs hrs)
    · unfold collectionSimplifyFree at h
      split at h
      · cases h
      · rename_i e' he'
        simp only [Option.some.injEq, Except.error.injEq] at h
        subst h
        exact ⟨[], t, ts, rfl, he', fun _ h => absurd h List.not_mem_nil⟩
      · rename_i r hr
        split at h
        · cases h
        · rename_i e' he'
          simp only [Option.some.injEq, Except.error.injEq] at h
          subst h
          obtain ⟨pre, t0, post, e1, e2, e3⟩ := ih.2 e' he'
          refine ⟨t :: pre, t0, post, by rw [e1]; rfl, e2, fun t' ht' => ?_⟩
          rcases List.mem_cons.mp ht' with rfl | h'
          · exact ⟨r, hr⟩
          · exact e3 t' h'
        · cases h

/-- non-vacuity: two tracks, minimising and maximising -/
example : collectionSimplifyFree (0 : Int) (CostFn.three (γ := Int) (fun i e => ((e : Int) - i) * ((e : Int) - i))) 7
    [["a", "b", "c", "d", "e"], ["p", "q", "r", "s"]] = some (.ok [["a", "b", "c", "d"], ["p", "q", "r"]]) := by decide +kernel
example : collectionSimplifyFree (0 : Int) (CostFn.three (γ := Int) (fun i e => ((e : Int) - i) * ((e : Int) - i))) 8
    [["a", "b", "c", "d", "e"], ["p", "q", "r", "s"]] = some (.ok [["a", "d"], ["p", "r"]]) := by decide +kernel

end TV.C12
