import TracklibVerif.Lemmas.Filter
/-! # C15 — kernel smoothing is a renormalised local weighted mean

Property theorems only (helpers are in `Lemmas/Filter.lean`, the model in `Model/Filter.lean`).
Scalars: any linearly ordered field (`ℚ`, `ℝ`); NaN is `none`. Vocabulary (defined in
`Lemmas/Filter.lean`):

* `window v k D i` — the pairs `(k[j], v[i - j + D])` over the kernel positions `j` whose sample index
  `i - j + D` is inside the signal and whose sample is not NaN (characterised by `window_spec`);
* `wtot W = Σ weight`, `wsum W = Σ weight · value`, `wmean W = wsum W / wtot W`;
* `filterWindow v k boundary` — `Filter.execute` once the kernel has been turned into the window `k`
  (`boundary = kernel.filterBoundary()`, `false` for a weight list); `execute` — the whole method.

Domain (`InDomain`): odd window, non-negative weights, every collected norm positive, and a signal
at least as long as the half window when the boundary values are copied. -/
set_option linter.unusedSectionVars false
namespace TV.C15
open TV.Filter
variable {α : Type} [Field α] [LinearOrder α] [IsStrictOrderedRing α]

/-- the property's domain for a prepared window `k` -/
structure InDomain (v : List (Option α)) (k : List α) (boundary : Bool) : Prop where
  odd : k.length % 2 = 1
  nonneg : ∀ w ∈ k, 0 ≤ w
  norm_pos : ∀ i, i < v.length → 0 < wtot (window v k (k.length / 2) i)
  long : boundary = false → k.length / 2 ≤ v.length

/-- index `i` is really filtered: boundaries are filtered, or `i` is not in the first / last half window -/
def Filtered (v : List (Option α)) (k : List α) (boundary : Bool) (i : Nat) : Prop :=
  boundary = true ∨ (k.length / 2 ≤ i ∧ i + k.length / 2 < v.length)

/-- what a window contains: `(w, x)` is in the window of `i` iff for some kernel position `j`,
`w = k[j]`, the index `i - j + D` is inside the signal and `x = v[i - j + D]` is not NaN. -/
theorem window_spec (v : List (Option α)) (k : List α) (D i : Nat) (w x : α) :
    (w, x) ∈ window v k D i ↔
      ∃ j, k[j]? = some w ∧ j ≤ i + D ∧ i + D - j < v.length ∧ v[i + D - j]? = some (some x) := by
  rw [mem_window]
  constructor
  · rintro ⟨j, hk, hv⟩
    refine ⟨j, hk, ?_⟩
    unfold val? at hv
    split at hv
    · rename_i hc
      refine ⟨hc.1, hc.2, ?_⟩
      rcases hx : v[i + D - j]? with _ | _ | y <;> simp [hx, Option.join] at hv ⊢
      exact hv
    · simp at hv
  · rintro ⟨j, hk, h1, h2, hv⟩
    refine ⟨j, hk, ?_⟩
    unfold val?
    rw [if_pos ⟨h1, h2⟩, hv]; rfl

/-- **T1 (`filter_is_mean`)** In the domain, `Filter.execute` does not fail, returns one value per
observation, and at every filtered index the value is the weighted mean of the window's samples, the
weights being renormalised over the samples that are inside the track and not NaN:
`out[i] = (Σ_j k[j]·v[i−j+D]) / (Σ_j k[j])`, both sums over the valid `j` only. -/
theorem filter_is_mean (v : List (Option α)) (k : List α) (boundary : Bool) (h : InDomain v k boundary) :
    ∃ out, filterWindow v k boundary = .ok out ∧ out.length = v.length ∧
      ∀ i, i < v.length → Filtered v k boundary i →
        out[i]? = some (some (wmean (window v k (k.length / 2) i))) := by
  refine ⟨meanSignal v k boundary, ?_, by simp [meanSignal], ?_⟩
  · exact filterWindow_eq v k boundary h.odd (fun i hi => ne_of_gt (h.norm_pos i hi)) h.long
  · intro i hi hf
    rw [meanSignal_get v k boundary i hi]
    have hc : ¬ (boundary = false ∧ (i < k.length / 2 ∨ v.length - k.length / 2 ≤ i)) := by
      rintro ⟨hb, hcopy⟩
      rcases hf with hf | hf
      · rw [hb] at hf; exact Bool.false_ne_true hf
      · omega
    rw [if_neg hc]

/-- **T2 (`filter_bounds`)** Every filtered output lies between any lower and upper bound of the
non-NaN samples at distance at most `D` of its index — in particular between the smallest and the
largest sample of its window. -/
theorem filter_bounds (v : List (Option α)) (k : List α) (boundary : Bool) (h : InDomain v k boundary)
    (out : List (Option α)) (hout : filterWindow v k boundary = .ok out)
    (i : Nat) (hi : i < v.length) (hf : Filtered v k boundary i) (lo hi' : α)
    (hb : ∀ (m : Nat) (x : α), i ≤ m + k.length / 2 → m ≤ i + k.length / 2 → v[m]? = some (some x) → lo ≤ x ∧ x ≤ hi') :
    ∃ y, out[i]? = some (some y) ∧ lo ≤ y ∧ y ≤ hi' := by
  obtain ⟨out', h1, _, h3⟩ := filter_is_mean v k boundary h
  rw [h1] at hout
  cases hout
  refine ⟨_, h3 i hi hf, ?_⟩
  apply wmean_bounds _ lo hi' (fun p hp => h.nonneg _ (window_weight_mem hp)) (h.norm_pos i hi)
  · intro p hp
    obtain ⟨m, _, h1, h2, hv⟩ := window_value_mem hp
    exact (hb m p.2 h1 h2 hv).1
  · intro p hp
    obtain ⟨m, _, h1, h2, hv⟩ := window_value_mem hp
    exact (hb m p.2 h1 h2 hv).2

/-- **T2′** the same statement with the extreme values made explicit: a filtered output lies between
two samples of its own window. -/
theorem filter_between_samples (v : List (Option α)) (k : List α) (boundary : Bool) (h : InDomain v k boundary)
    (out : List (Option α)) (hout : filterWindow v k boundary = .ok out)
    (i : Nat) (hi : i < v.length) (hf : Filtered v k boundary i) :
    ∃ y, out[i]? = some (some y) ∧
      (∃ p ∈ window v k (k.length / 2) i, p.2 ≤ y) ∧ (∃ p ∈ window v k (k.length / 2) i, y ≤ p.2) := by
  obtain ⟨out', h1, _, h3⟩ := filter_is_mean v k boundary h
  rw [h1] at hout
  cases hout
  refine ⟨_, h3 i hi hf, ?_, ?_⟩
  · by_contra hc
    have hc : ∀ p ∈ window v k (k.length / 2) i, wmean (window v k (k.length / 2) i) < p.2 := by
      intro p hp
      by_contra hn
      exact hc ⟨p, hp, le_of_not_gt hn⟩
    exact absurd (wmean_lt_of_all_gt _ (fun p hp => h.nonneg _ (window_weight_mem hp)) (h.norm_pos i hi) hc) (lt_irrefl _)
  · by_contra hc
    have hc : ∀ p ∈ window v k (k.length / 2) i, p.2 < wmean (window v k (k.length / 2) i) := by
      intro p hp
      by_contra hn
      exact hc ⟨p, hp, le_of_not_gt hn⟩
    exact absurd (wmean_gt_of_all_lt _ (fun p hp => h.nonneg _ (window_weight_mem hp)) (h.norm_pos i hi) hc) (lt_irrefl _)

/-- **T3 (`filter_const`)** If every non-NaN sample of the signal equals `c`, every filtered output
is `c` (NaN samples do not disturb a constant signal). -/
theorem filter_const (v : List (Option α)) (k : List α) (boundary : Bool) (h : InDomain v k boundary)
    (out : List (Option α)) (hout : filterWindow v k boundary = .ok out) (c : α)
    (hc : ∀ (m : Nat) (x : α), v[m]? = some (some x) → x = c)
    (i : Nat) (hi : i < v.length) (hf : Filtered v k boundary i) : out[i]? = some (some c) := by
  obtain ⟨y, hy, h1, h2⟩ := filter_bounds v k boundary h out hout i hi hf c c
    (fun m x _ _ hv => by rw [hc m x hv]; exact ⟨le_refl _, le_refl _⟩)
  rw [hy, le_antisymm h2 h1]

/-- **T4 (`boundary_copy`)** When the kernel does not filter boundaries (always the case for a weight
list), the first and the last `D` output values are the input values, unchanged (NaN included). -/
theorem boundary_copy (v : List (Option α)) (k : List α) (h : InDomain v k false)
    (out : List (Option α)) (hout : filterWindow v k false = .ok out)
    (i : Nat) (hi : i < v.length) (hcopy : i < k.length / 2 ∨ v.length - k.length / 2 ≤ i) :
    out[i]? = v[i]? := by
  rw [filterWindow_eq v k false h.odd (fun i hi => ne_of_gt (h.norm_pos i hi)) h.long] at hout
  cases hout
  rw [meanSignal_get v k false i hi, if_pos ⟨rfl, hcopy⟩]
  rcases hx : v[i]? with _ | x
  · rw [List.getElem?_eq_none_iff] at hx; omega
  · rfl

/-- **T3′** A constant signal without NaN is returned unchanged as a whole (both boundary settings). -/
theorem filter_const_signal (n : Nat) (c : α) (k : List α) (boundary : Bool)
    (h : InDomain (List.replicate n (some c)) k boundary) :
    filterWindow (List.replicate n (some c)) k boundary = .ok (List.replicate n (some c)) := by
  obtain ⟨out, h1, h2, h3⟩ := filter_is_mean _ k boundary h
  rw [h1]
  congr 1
  apply List.ext_getElem?
  intro i
  by_cases hi : i < n
  · have hi' : i < (List.replicate n (some c)).length := by simpa using hi
    by_cases hf : Filtered (List.replicate n (some c)) k boundary i
    · rw [filter_const _ k boundary h out h1 c (fun m x hv => by
        rw [List.getElem?_replicate] at hv; split at hv <;> simp at hv; exact hv.symm) i hi' hf]
      simp [hi]
    · have hb : boundary = false := by
        cases boundary with
        | false => rfl
        | true => exact absurd (Or.inl rfl) hf
      subst hb
      have hcopy : i < k.length / 2 ∨ (List.replicate n (some c)).length - k.length / 2 ≤ i := by
        unfold Filtered at hf
        simp only [Bool.false_eq_true, false_or, not_and, not_lt] at hf
        by_cases hh : i < k.length / 2
        · exact Or.inl hh
        · right; have := hf (by omega); omega
      exact boundary_copy _ k h out h1 i hi' hcopy
  · rw [List.getElem?_eq_none (by rw [h2]; simpa using hi), List.getElem?_eq_none (by simpa using hi)]

end TV.C15
