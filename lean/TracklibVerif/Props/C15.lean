import TracklibVerif.Lemmas.Filter
import TracklibVerif.Lemmas.FilterNp
import TracklibVerif.Lemmas.FilterShort
import TracklibVerif.Lemmas.FilterKernels
import TracklibVerif.Lemmas.FilterAlgebraic
import TracklibVerif.Lemmas.FilterLocal
import Mathlib.Algebra.Order.Ring.Rat
import Mathlib.Algebra.Field.Rat
import Mathlib.Tactic.NormNum
/-! # C15 — kernel smoothing is a renormalised local weighted mean

Property theorems only (helpers are in `Lemmas/Filter.lean`, `FilterNp.lean`, `FilterShort.lean`, `FilterKernels.lean`,
`FilterAlgebraic.lean`, `FilterLocal.lean`, the model in
`Model/Filter.lean`). Scalars: any linearly ordered field (`ℚ`, `ℝ`); NaN is `none`. Vocabulary (defined
in `Lemmas/Filter.lean`):

* `window v k D i` — the pairs `(k[j], v[i - j + D])` over the kernel positions `j` whose sample index
  `i - j + D` is inside the signal and whose sample is not NaN (characterised by `window_spec`);
* `wtot W = Σ weight`, `wsum W = Σ weight · value`, `wmean W = wsum W / wtot W`;
* `filterWindow v k boundary` — `Filter.execute` once the kernel has been turned into the window `k`
  (`boundary = kernel.filterBoundary()`, `false` for a weight list); `execute` — the whole method on the
  values of the input feature; `operate` — `track.operate(Operator.FILTER, af_in, kernel, af_out)` on a
  track of named signals (kernel possibly a feature name); `operateArgs` — the argument forms of
  `Track.operate` (output name omitted, lists of names); `operateAlgebraic` — the algebraic form
  `track.operate("out = in ! w")` / `"out = in .* w"` / `"in ! w"`; `filterSeq` / `filterSeqCall` / `smooth` /
  `session` / `filterSeqRepeat` — `filter_seq` on a list of names / with its `dim` argument and the
  module-level state / `Track.smooth` / several calls in one process / several calls on the same track.

Domain (`InDomain`): odd window, non-negative weights, every collected norm positive, and a signal
at least as long as the *half* window when the boundary values are copied — no other condition on the
length: tracks shorter than the window are covered (`short_track_filtered`, `short_track_unchanged`,
`execute_short_track`, `smooth_short_track`). Outside it the theorems say what happens instead: a zero norm
(`zero_norm_fails`, `list_zero_weights`, `list_no_sample_fails`, `window_zero_sum_fails`), a track shorter
than the half window with copied boundaries (`short_track_index_error`, `smooth_too_short_fails`), a float
given as kernel (`number_kernel_refused`).

Floating point: the theorems above are over a linearly ordered field. `filter_local`, `filter_far_sample`,
`execute_local` use no law of arithmetic and hold for every scalar type, the IEEE doubles of the Python included
(`filter_local_float`): the value at an index is a function of the kernel and of the samples of its own window,
bit for bit — what is computed from them (the rounding of the weighted mean) stays outside the theorems.

Kernel functions: Uniform / Triangular / Epanechnikov (`builtin_kernels`, `builtin_kernel_windows`), Cubic /
Spheric (`pow_kernels`, `pow_kernel_windows`; `math.pow` with an integer exponent is a product), Gaussian /
Exponential (`exp_kernel_windows`, `smooth_gaussian`; `math.exp` is any positive-valued function — the one
assumption on libm), user-defined (`user_kernel_window`, `window_of_nonneg_kernel`). -/
set_option linter.unusedSectionVars false
namespace TV.C15
open TV.Filter
variable {α : Type} [Field α] [LinearOrder α] [IsStrictOrderedRing α]

/-- the property's domain for a prepared window `k` -/
structure InDomain (v : List (Option α)) (k : List α) (boundary : Bool) : Prop where
  odd : k.length % 2 = 1
  nonneg : ∀ w ∈ k, 0 ≤ w
  norm_pos : ∀ i, i < v.length → 0 < wtot (window v k (k.length / 2) i)
  long : boundary = false → k.length / 2 ≤ v.length

/-- index `i` is really filtered: boundaries are filtered, or `i` is not in the first / last half window -/
def Filtered (v : List (Option α)) (k : List α) (boundary : Bool) (i : Nat) : Prop :=
  boundary = true ∨ (k.length / 2 ≤ i ∧ i + k.length / 2 < v.length)

/-- what a window contains: `(w, x)` is in the window of `i` iff for some kernel position `j`,
`w = k[j]`, the index `i - j + D` is inside the signal and `x = v[i - j + D]` is not NaN. -/
theorem window_spec (v : List (Option α)) (k : List α) (D i : Nat) (w x : α) :
    (w, x) ∈ window v k D i ↔
      ∃ j, k[j]? = some w ∧ j ≤ i + D ∧ i + D - j < v.length ∧ v[i + D - j]? = some (some x) := by
  rw [mem_window]
  constructor
  · rintro ⟨j, hk, hv⟩
    refine ⟨j, hk, ?_⟩
    unfold val? at hv
    split at hv
    · rename_i hc
      refine ⟨hc.1, hc.2, ?_⟩
      rcases hx : v[i + D - j]? with _ | _ | y <;> simp [hx, Option.join] at hv ⊢
      exact hv
    · simp at hv
  · rintro ⟨j, hk, h1, h2, hv⟩
    refine ⟨j, hk, ?_⟩
    unfold val?
    rw [if_pos ⟨h1, h2⟩, hv]; rfl

/-- **T1 (`filter_is_mean`)** In the domain, `Filter.execute` does not fail, returns one value per
observation, and at every filtered index the value is the weighted mean of the window's samples, the
weights being renormalised over the samples that are inside the track and not NaN:
`out[i] = (Σ_j k[j]·v[i−j+D]) / (Σ_j k[j])`, both sums over the valid `j` only. -/
theorem filter_is_mean (v : List (Option α)) (k : List α) (boundary : Bool) (h : InDomain v k boundary) :
    ∃ out, filterWindow v k boundary = .ok out ∧ out.length = v.length ∧
      ∀ i, i < v.length → Filtered v k boundary i →
        out[i]? = some (some (wmean (window v k (k.length / 2) i))) := by
  refine ⟨meanSignal v k boundary, ?_, by simp [meanSignal], ?_⟩
  · exact filterWindow_eq v k boundary h.odd (fun i hi => ne_of_gt (h.norm_pos i hi)) h.long
  · intro i hi hf
    rw [meanSignal_get v k boundary i hi]
    have hc : ¬ (boundary = false ∧ (i < k.length / 2 ∨ v.length - k.length / 2 ≤ i)) := by
      rintro ⟨hb, hcopy⟩
      rcases hf with hf | hf
      · rw [hb] at hf; exact Bool.false_ne_true hf
      · omega
    rw [if_neg hc]

/-- **T2 (`filter_bounds`)** Every filtered output lies between any lower and upper bound of the
non-NaN samples at distance at most `D` of its index — in particular between the smallest and the
largest sample of its window. -/
theorem filter_bounds (v : List (Option α)) (k : List α) (boundary : Bool) (h : InDomain v k boundary)
    (out : List (Option α)) (hout : filterWindow v k boundary = .ok out)
    (i : Nat) (hi : i < v.length) (hf : Filtered v k boundary i) (lo hi' : α)
    (hb : ∀ (m : Nat) (x : α), i ≤ m + k.length / 2 → m ≤ i + k.length / 2 → v[m]? = some (some x) → lo ≤ x ∧ x ≤ hi') :
    ∃ y, out[i]? = some (some y) ∧ lo ≤ y ∧ y ≤ hi' := by
  obtain ⟨out', h1, _, h3⟩ := filter_is_mean v k boundary h
  rw [h1] at hout
  cases hout
  refine ⟨_, h3 i hi hf, ?_⟩
  apply wmean_bounds _ lo hi' (fun p hp => h.nonneg _ (window_weight_mem hp)) (h.norm_pos i hi)
  · intro p hp
    obtain ⟨m, _, h1, h2, hv⟩ := window_value_mem hp
    exact (hb m p.2 h1 h2 hv).1
  · intro p hp
    obtain ⟨m, _, h1, h2, hv⟩ := window_value_mem hp
    exact (hb m p.2 h1 h2 hv).2

/-- **T2′** the same statement with the extreme values made explicit: a filtered output lies between
two samples of its own window. -/
theorem filter_between_samples (v : List (Option α)) (k : List α) (boundary : Bool) (h : InDomain v k boundary)
    (out : List (Option α)) (hout : filterWindow v k boundary = .ok out)
    (i : Nat) (hi : i < v.length) (hf : Filtered v k boundary i) :
    ∃ y, out[i]? = some (some y) ∧
      (∃ p ∈ window v k (k.length / 2) i, p.2 ≤ y) ∧ (∃ p ∈ window v k (k.length / 2) i, y ≤ p.2) := by
  obtain ⟨out', h1, _, h3⟩ := filter_is_mean v k boundary h
  rw [h1] at hout
  cases hout
  refine ⟨_, h3 i hi hf, ?_, ?_⟩
  · by_contra hc
    have hc : ∀ p ∈ window v k (k.length / 2) i, wmean (window v k (k.length / 2) i) < p.2 := by
      intro p hp
      by_contra hn
      exact hc ⟨p, hp, le_of_not_gt hn⟩
    exact absurd (wmean_lt_of_all_gt _ (fun p hp => h.nonneg _ (window_weight_mem hp)) (h.norm_pos i hi) hc) (lt_irrefl _)
  · by_contra hc
    have hc : ∀ p ∈ window v k (k.length / 2) i, p.2 < wmean (window v k (k.length / 2) i) := by
      intro p hp
      by_contra hn
      exact hc ⟨p, hp, le_of_not_gt hn⟩
    exact absurd (wmean_gt_of_all_lt _ (fun p hp => h.nonneg _ (window_weight_mem hp)) (h.norm_pos i hi) hc) (lt_irrefl _)

/-- **T3 (`filter_const`)** If every non-NaN sample of the signal equals `c`, every filtered output
is `c` (NaN samples do not disturb a constant signal). -/
theorem filter_const (v : List (Option α)) (k : List α) (boundary : Bool) (h : InDomain v k boundary)
    (out : List (Option α)) (hout : filterWindow v k boundary = .ok out) (c : α)
    (hc : ∀ (m : Nat) (x : α), v[m]? = some (some x) → x = c)
    (i : Nat) (hi : i < v.length) (hf : Filtered v k boundary i) : out[i]? = some (some c) := by
  obtain ⟨y, hy, h1, h2⟩ := filter_bounds v k boundary h out hout i hi hf c c
    (fun m x _ _ hv => by rw [hc m x hv]; exact ⟨le_refl _, le_refl _⟩)
  rw [hy, le_antisymm h2 h1]

/-- **T4 (`boundary_copy`)** When the kernel does not filter boundaries (always the case for a weight
list), the first and the last `D` output values are the input values, unchanged (NaN included). -/
theorem boundary_copy (v : List (Option α)) (k : List α) (h : InDomain v k false)
    (out : List (Option α)) (hout : filterWindow v k false = .ok out)
    (i : Nat) (hi : i < v.length) (hcopy : i < k.length / 2 ∨ v.length - k.length / 2 ≤ i) :
    out[i]? = v[i]? := by
  rw [filterWindow_eq v k false h.odd (fun i hi => ne_of_gt (h.norm_pos i hi)) h.long] at hout
  cases hout
  rw [meanSignal_get v k false i hi, if_pos ⟨rfl, hcopy⟩]
  rcases hx : v[i]? with _ | x
  · rw [List.getElem?_eq_none_iff] at hx; omega
  · rfl

/-- **T3′** A constant signal without NaN is returned unchanged as a whole (both boundary settings). -/
theorem filter_const_signal (n : Nat) (c : α) (k : List α) (boundary : Bool)
    (h : InDomain (List.replicate n (some c)) k boundary) :
    filterWindow (List.replicate n (some c)) k boundary = .ok (List.replicate n (some c)) := by
  obtain ⟨out, h1, h2, h3⟩ := filter_is_mean _ k boundary h
  rw [h1]
  congr 1
  apply List.ext_getElem?
  intro i
  by_cases hi : i < n
  · have hi' : i < (List.replicate n (some c)).length := by simpa using hi
    by_cases hf : Filtered (List.replicate n (some c)) k boundary i
    · rw [filter_const _ k boundary h out h1 c (fun m x hv => by
        rw [List.getElem?_replicate] at hv; split at hv <;> simp at hv; exact hv.symm) i hi' hf]
      simp [hi]
    · have hb : boundary = false := by
        cases boundary with
        | false => rfl
        | true => exact absurd (Or.inl rfl) hf
      subst hb
      have hcopy : i < k.length / 2 ∨ (List.replicate n (some c)).length - k.length / 2 ≤ i := by
        unfold Filtered at hf
        simp only [Bool.false_eq_true, false_or, not_and, not_lt] at hf
        by_cases hh : i < k.length / 2
        · exact Or.inl hh
        · right; have := hf (by omega); omega
      exact boundary_copy _ k h out h1 i hi' hcopy
  · rw [List.getElem?_eq_none (by rw [h2]; simpa using hi), List.getElem?_eq_none (by simpa using hi)]

/-! ## The domain is not empty: positive weights and isolated NaN -/

/-- **Domain** An odd list of positive weights, a signal at least as long as the half window, and at
every index a non-NaN sample at distance at most `D` (true for isolated NaN as soon as `D ≥ 1` and
the signal has two samples): the input is in the domain — no window has a zero norm. -/
theorem inDomain_of_positive_weights (v : List (Option α)) (k : List α) (boundary : Bool)
    (hodd : k.length % 2 = 1) (hpos : ∀ w ∈ k, 0 < w) (hlen : k.length / 2 ≤ v.length)
    (hvalid : ∀ i, i < v.length → ∃ (m : Nat) (x : α), i ≤ m + k.length / 2 ∧ m ≤ i + k.length / 2 ∧ v[m]? = some (some x)) :
    InDomain v k boundary where
  odd := hodd
  nonneg := fun w hw => le_of_lt (hpos w hw)
  norm_pos := fun i hi => by
    obtain ⟨m, x, h1, h2, hv⟩ := hvalid i hi
    exact norm_pos_of_sample v k i m x hodd hpos h1 h2 hv
  long := fun _ => hlen

/-! ## The whole method: kernel preparation -/

/-- `w`, `b` are the window and the boundary flag that `Filter.execute` derives from its `kernel`
argument: the sliding window of a Kernel object, `[0,1,0]` for the Dirac kernel, and — up to the
scale, which the renormalised mean does not see — the caller's weights for a list. -/
def Prepared (kern : KArg α) (w : List α) (b : Bool) : Prop :=
  match kern with
  | .list k => w = k ∧ b = false ∧ k.sum ≠ 0
  | .obj true fb _ _ _ => w = [0, 1, 0] ∧ b = fb
  | .obj false fb f support S => slidingWindow f support S = .ok w ∧ b = fb

/-- **T1 for `Filter.execute` itself** For a weight list (normalised in place by the call: the
list is left divided by its sum), a Kernel object or the Dirac kernel, in the domain, the method
returns the signal of renormalised weighted means of the prepared window (`meanSignal`, i.e. exactly
the output `filterWindow` is shown to produce in T1–T4), with the caller's un-normalised weights in
the case of a list. -/
theorem execute_is_mean (v : List (Option α)) (kern : KArg α) (w : List α) (b : Bool)
    (hp : Prepared kern w b) (h : InDomain v w b) :
    filterWindow v w b = .ok (meanSignal v w b) ∧
    ∃ k', execute v kern = .ok (k', meanSignal v w b) ∧
      (∀ k, kern = .list k → k' = some (k.map (· / k.sum))) := by
  have hfw := filterWindow_eq v w b h.odd (fun i hi => ne_of_gt (h.norm_pos i hi)) h.long
  refine ⟨hfw, ?_⟩
  cases kern with
  | list k =>
    obtain ⟨rfl, rfl, hs⟩ := hp
    refine ⟨some (normalise w), execute_list_eq v w h.odd (fun i hi => ne_of_gt (h.norm_pos i hi)) (h.long rfl) hs, ?_⟩
    intro k hk
    cases hk
    rw [normalise_eq]
  | obj dirac fb f support S =>
    cases dirac with
    | true =>
      obtain ⟨rfl, rfl⟩ := hp
      exact ⟨none, execute_dirac_eq v b f support S _ hfw, fun k hk => by cases hk⟩
    | false =>
      obtain ⟨hw, rfl⟩ := hp
      exact ⟨none, execute_obj_eq v b f support S w _ hw hfw, fun k hk => by cases hk⟩

/-! ## T5: the sliding window of a kernel -/

/-- **T5 (`window_shape`)** `Kernel.toSlidingWindow()` for a support of at least 1, an even kernel
function and a non-zero sum of the sampled values: the window has `2·⌊support⌋+1` values (odd), it is
symmetric (`w[size−1−i] = w[i]`), and it sums to 1. The sample points are the integers `S, …, −S`. -/
theorem window_shape (f : α → α) (support : α) (S : Nat) (hs : ¬ support < 1)
    (heven : ∀ y, f (-y) = f y) (hsum : (rawWindow f support S).sum ≠ 0) :
    ∃ w, slidingWindow f support S = .ok w ∧ w.length = 2 * S + 1 ∧ w.length % 2 = 1 ∧
      (∀ i, i ≤ 2 * S → w[2 * S - i]? = w[i]?) ∧ w.sum = 1 := by
  refine ⟨_, slidingWindow_eq f support S hs hsum, ?_, ?_, ?_, ?_⟩
  · rw [List.length_map, rawWindow_length]
  · rw [List.length_map, rawWindow_length]; omega
  · intro i hi
    rw [List.getElem?_map, List.getElem?_map, rawWindow_symm f support S i hi heven]
  · rw [sum_map_div, div_self hsum]

/-- **T5′** if moreover the kernel function is non-negative at the sample points and positive at 0,
the sum of the sampled values is positive (so `window_shape` applies) and every weight of the window
is non-negative with a positive centre weight: the window is a legitimate input of T1–T4. -/
theorem window_nonneg (f : α → α) (support : α) (S : Nat) (hs : ¬ support < 1)
    (hf : ∀ i : Nat, i ≤ 2 * S → 0 ≤ f ((S : α) - (i : α))) (hc : 0 < f 0) :
    0 < (rawWindow f support S).sum ∧
    ∃ w, slidingWindow f support S = .ok w ∧ (∀ x ∈ w, 0 ≤ x) ∧ ∃ c, w[w.length / 2]? = some c ∧ 0 < c := by
  have hpos := rawWindow_sum_pos f support S hs hf hc
  refine ⟨hpos, _, slidingWindow_eq f support S hs (ne_of_gt hpos), ?_, ?_⟩
  · intro x hx
    rw [List.mem_map] at hx
    obtain ⟨y, hy, rfl⟩ := hx
    exact div_nonneg (rawWindow_nonneg f support S hf y hy) (le_of_lt hpos)
  · refine ⟨f 0 / (rawWindow f support S).sum, ?_, div_pos hc hpos⟩
    have e : (2 * S + 1) / 2 = S := by omega
    rw [List.length_map, rawWindow_length, e, List.getElem?_map, rawWindow_get f support S S (by omega),
      sub_self, evaluate_zero f support hs]
    rfl

/-- **T5 for the built-in kernels whose function is written out in `kernel.py`** (`UniformKernel`,
`TriangularKernel`, `EpanechnikovKernel`, any size with support ≥ 1): their kernel functions are
even, non-negative and positive at 0, hence their sliding windows are odd, symmetric, sum to 1 and
have non-negative weights. -/
theorem builtin_kernels (size : α) (hsize : 0 < size) :
    (∀ y, uniformF size (-y) = uniformF size y) ∧ (∀ x, 0 ≤ uniformF size x) ∧ 0 < uniformF size 0 ∧
    (∀ y, triangularF size (-y) = triangularF size y) ∧ (∀ x, 0 ≤ triangularF size x) ∧ 0 < triangularF size 0 ∧
    (∀ y, epanechnikovF size (-y) = epanechnikovF size y) ∧ (∀ x, 0 ≤ epanechnikovF size x) ∧ 0 < epanechnikovF size 0 :=
  ⟨uniformF_even size, fun x => uniformF_nonneg size x hsize, uniformF_zero_pos size hsize,
   triangularF_even size, fun x => triangularF_nonneg size x hsize, triangularF_zero_pos size hsize,
   epanechnikovF_even size, fun x => epanechnikovF_nonneg size x hsize, epanechnikovF_zero_pos size hsize⟩

/-! ## `filter_seq` and `Track.smooth` -/

/-- **The loop `for af in dim`** of `filter_seq` (also what the list form of `Track.operate` runs on feature
names, see `operate_list_is_mean`), for a weight list of any length, a Kernel object or the Dirac kernel: every
listed coordinate / feature is replaced by its mean signal, the kernel being the same Python object at every turn. -/
theorem seqLoop_is_mean (t : Sigs α) (kern : KArg α) (w : List α) (b : Bool) (dims : List String)
    (hp : Prepared kern w b)
    (hnd : dims.Nodup) (htemp : "temp" ∉ dims)
    (hres : ∀ d ∈ dims, d ≠ "t" ∧ d ≠ "timestamp" ∧ d ≠ "idx") (hsize : trackSize t ≠ 0)
    (hall : ∀ d ∈ dims, ∃ v, getSig t d = some v ∧ InDomain v w b) :
    ∃ t', seqLoop dims (.arg kern) t = .ok t' ∧
      (∀ d ∈ dims, ∃ v, getSig t d = some v ∧ getSig t' d = some (meanSignal v w b)) ∧
      (∀ nm, nm ∉ dims → nm ≠ "temp" → getSig t' nm = getSig t nm) := by
  have hden : ∀ v, InDomain v w b → ∀ i, i < v.length → wtot (window v w (w.length / 2) i) ≠ 0 :=
    fun v h i hi => ne_of_gt (h.norm_pos i hi)
  have hF : ∀ (w : List α) (b : Bool) (v : List (Option α)), (meanSignal v w b).length = v.length := by
    intro w b v; simp [meanSignal]
  cases kern with
  | list k =>
    obtain ⟨rfl, rfl, hs⟩ := hp
    have hstable : ∀ d ∈ dims, ∃ v, getSig t d = some v ∧ StableOn (.list (normalise w)) (fun v => meanSignal v w false) v := by
      intro d hd
      obtain ⟨v, hv, hin⟩ := hall d hd
      exact ⟨v, hv, stable_list_normalised v w hin.odd (hden v hin) (hin.long rfl) hs⟩
    cases dims with
    | nil => exact ⟨t, by rw [seqLoop], by simp, fun _ _ _ => rfl⟩
    | cons af rest =>
      obtain ⟨v, hv, hin⟩ := hall af List.mem_cons_self
      rw [seqLoop_list_first w af rest t v hv hin.odd (hden v hin) (hin.long rfl) hs hsize (hres af List.mem_cons_self)]
      exact seqLoop_stable _ _ (hF w false) _ t hnd htemp hres hsize hstable
  | obj dirac fb f support S =>
    cases dirac with
    | true =>
      obtain ⟨rfl, rfl⟩ := hp
      apply seqLoop_stable _ (fun v => meanSignal v [0, 1, 0] b) (hF _ b) _ t hnd htemp hres hsize
      intro d hd
      obtain ⟨v, hv, hin⟩ := hall d hd
      exact ⟨v, hv, stable_dirac v b f support S (filterWindow_eq v _ b hin.odd (hden v hin) hin.long)⟩
    | false =>
      obtain ⟨hw, rfl⟩ := hp
      apply seqLoop_stable _ (fun v => meanSignal v w b) (hF w b) _ t hnd htemp hres hsize
      intro d hd
      obtain ⟨v, hv, hin⟩ := hall d hd
      exact ⟨v, hv, stable_obj v b f support S w hw (filterWindow_eq v _ b hin.odd (hden v hin) hin.long)⟩

/-- **`filter_seq`** For a weight list (not of length one), a Kernel object or the Dirac kernel, on a
track with at least one observation, and distinct dimensions none of which is the scratch feature
`temp` or one of the virtual features `t`, `timestamp`, `idx`, every one of which is a signal of the
track in the domain: `filter_seq` succeeds; each listed coordinate / feature is replaced by the
signal of renormalised weighted means of its own former values (the same window for all of them —
the in-place normalisation of the list at the first dimension does not change the result for the
following ones); every other signal except `temp` is untouched. -/
theorem filterSeq_is_mean (t : Sigs α) (kern : KArg α) (w : List α) (b : Bool) (dims : List String)
    (hp : Prepared kern w b) (hone : ∀ a, kern ≠ .list [a])
    (hnd : dims.Nodup) (htemp : "temp" ∉ dims)
    (hres : ∀ d ∈ dims, d ≠ "t" ∧ d ≠ "timestamp" ∧ d ≠ "idx") (hsize : trackSize t ≠ 0)
    (hall : ∀ d ∈ dims, ∃ v, getSig t d = some v ∧ InDomain v w b) :
    ∃ t', filterSeq t (.k kern) dims = .ok t' ∧
      (∀ d ∈ dims, ∃ v, getSig t d = some v ∧ getSig t' d = some (meanSignal v w b)) ∧
      (∀ nm, nm ∉ dims → nm ≠ "temp" → getSig t' nm = getSig t nm) := by
  have hfs : filterSeq t (.k kern) dims = seqLoop dims (.arg kern) t := by
    unfold filterSeq
    cases kern with
    | obj _ _ _ _ _ => rfl
    | list k =>
      match k, hone with
      | [], _ => rfl
      | [a], hone => exact absurd rfl (hone a)
      | _ :: _ :: _, _ => rfl
  rw [hfs]
  exact seqLoop_is_mean t kern w b dims hp hnd htemp hres hsize hall

/-- **`filter_seq` with an integer kernel** `n` stands for the list `[1]*n`; `n = 1` (like any
one-element list) returns the track unchanged. -/
theorem filterSeq_int (t : Sigs α) (n : Int) (dims : List String) :
    filterSeq t (.int n) dims = filterSeq t (.k (.list (List.replicate n.toNat 1))) dims ∧
    filterSeq t (.int 1) dims = .ok t ∧ ∀ a : α, filterSeq t (.k (.list [a])) dims = .ok t :=
  ⟨rfl, rfl, fun _ => rfl⟩

/-- **Dirac kernel** (`[0,1,0]`): a signal without NaN is returned unchanged. -/
theorem dirac_identity (v : List (Option α)) (b : Bool) (hlen : b = false → 1 ≤ v.length)
    (hv : ∀ i, i < v.length → ∃ x, v[i]? = some (some x)) :
    filterWindow v [0, 1, 0] b = .ok v := by
  rw [filterWindow_eq v [0, 1, 0] b (by simp)
    (fun i hi => by
      obtain ⟨x, hx⟩ := hv i hi
      have := (dirac_window v i x hx).2
      simp only [List.length_cons, List.length_nil] at this ⊢
      rw [this]; exact one_ne_zero)
    (fun h => by simpa using hlen h)]
  congr 1
  apply List.ext_getElem?
  intro i
  by_cases hi : i < v.length
  · obtain ⟨x, hx⟩ := hv i hi
    rw [meanSignal_get v _ b i hi, hx]
    split
    · rfl
    · have h := dirac_window v i x hx
      simp only [List.length_cons, List.length_nil] at h ⊢
      unfold wmean
      rw [h.1, h.2, div_one]
  · rw [List.getElem?_eq_none (by simp [meanSignal]; omega), List.getElem?_eq_none (by omega)]

/-! ## Sliding windows of arbitrary (user-defined) kernels -/

/-- the third sentence of the property for a window `w` sampled with `S = int(support)`: odd length,
symmetric, sums to 1 — and non-negative weights, which makes it a legitimate kernel of T1–T4 -/
structure GoodWindow (w : List α) (S : Nat) : Prop where
  length : w.length = 2 * S + 1
  odd : w.length % 2 = 1
  symm : ∀ i, i ≤ 2 * S → w[2 * S - i]? = w[i]?
  sum_one : w.sum = 1
  nonneg : ∀ x ∈ w, 0 ≤ x

/-- **T5 for any kernel object** (built-in or `Kernel` + `setFunction`): support at least 1 with
`S = int(support) ≤ support`, an even kernel function, non-negative at the sample points
`S, …, −S` and positive at one of them (not necessarily the centre, and whatever its values at the
edge of the support — 0 included): `toSlidingWindow` succeeds and the window is odd, symmetric,
sums to 1 and has non-negative weights. -/
theorem window_of_nonneg_kernel (f : α → α) (support : α) (S : Nat) (hs : ¬ support < 1) (hS : (S : α) ≤ support)
    (heven : ∀ y, f (-y) = f y) (hf : ∀ i : Nat, i ≤ 2 * S → 0 ≤ f ((S : α) - (i : α)))
    (i0 : Nat) (hi0 : i0 ≤ 2 * S) (hpos : 0 < f ((S : α) - (i0 : α))) :
    ∃ w, slidingWindow f support S = .ok w ∧ GoodWindow w S := by
  have hsum := rawWindow_sum_pos_any f support S hS hf i0 hi0 hpos
  obtain ⟨w, hw, h1, h2, h3, h4⟩ := window_shape f support S hs heven (ne_of_gt hsum)
  refine ⟨w, hw, h1, h2, h3, h4, ?_⟩
  rw [slidingWindow_eq f support S hs (ne_of_gt hsum)] at hw
  cases hw
  intro x hx
  rw [List.mem_map] at hx
  obtain ⟨y, hy, rfl⟩ := hx
  exact div_nonneg (rawWindow_nonneg f support S hf y hy) (le_of_lt hsum)

/-- **T5 when the sampled values sum to 0** (e.g. a kernel function that is 0 at every sample point):
`values[i] /= norm` divides by zero — `toSlidingWindow` fails, it never returns a window of NaN. -/
theorem window_zero_sum_fails (f : α → α) (support : α) (S : Nat) (hs : ¬ support < 1)
    (hsum : (rawWindow f support S).sum = 0) : slidingWindow f support S = .error .zeroDiv :=
  slidingWindow_zero_sum f support S hs hsum

/-- **User-defined kernel** `Kernel(…)` + `setFunction(f)` with `f(x) = tbl[|x|]` at the integers
`|x| < len(tbl)` and 0 elsewhere (the values may be Python ints, floats or numpy scalars: `evaluate`
turns each sample into a float): non-negative values, one of them positive at an index `j ≤ S`:
the sliding window is odd, symmetric, sums to 1 and is non-negative. -/
theorem user_kernel_window (tbl : List α) (support : α) (S : Nat) (hs : ¬ support < 1) (hS : (S : α) ≤ support)
    (hnn : ∀ y ∈ tbl, 0 ≤ y) (j : Nat) (hj : j ≤ S) (y : α) (hy : tbl[j]? = some y) (hpos : 0 < y) :
    ∃ w, slidingWindow (tableF tbl) support S = .ok w ∧ GoodWindow w S := by
  apply window_of_nonneg_kernel (tableF tbl) support S hs hS (tableF_even tbl)
    (fun i _ => tableF_nonneg tbl _ hnn) (S - j) (by omega)
  have e : ((S : α) - ((S - j : Nat) : α)) = (j : α) := by rw [Nat.cast_sub hj]; ring
  rw [e, tableF_nat, hy]
  exact hpos

/-- … and a table whose values at the indices `0..S` are all 0 makes `toSlidingWindow` fail. -/
theorem user_kernel_zero_fails (tbl : List α) (support : α) (S : Nat) (hs : ¬ support < 1)
    (hz : ∀ j, j ≤ S → (tbl[j]?).getD 0 = 0) :
    slidingWindow (tableF tbl) support S = .error .zeroDiv := by
  apply window_zero_sum_fails _ _ _ hs
  apply List.sum_eq_zero
  intro x hx
  unfold rawWindow at hx
  rw [List.mem_map] at hx
  obtain ⟨i, hi, rfl⟩ := hx
  have hi := List.mem_range.mp hi
  have h0 : tableF tbl ((S : α) - (i : α)) = 0 := by
    rcases Nat.le_total i S with h | h
    · have e : ((S : α) - (i : α)) = ((S - i : Nat) : α) := by rw [Nat.cast_sub h]
      rw [e, tableF_nat]; exact hz _ (by omega)
    · have e : ((S : α) - (i : α)) = -((i - S : Nat) : α) := by rw [Nat.cast_sub h]; ring
      rw [e, tableF_even, tableF_nat]; exact hz _ (by omega)
  unfold evaluate
  rw [h0, zero_mul]

/-- **Every built-in kernel whose function is written out in `kernel.py`**, any positive size with a
support of at least 1 (the boundary sizes included: `UniformKernel(0.5)`, `TriangularKernel(2/3)`, …):
the sliding window is odd, symmetric, sums to 1 and is non-negative. -/
theorem builtin_kernel_windows (size : α) (hsize : 0 < size) (S : Nat) :
    (¬ uniformSupport size < 1 → ∃ w, slidingWindow (uniformF size) (uniformSupport size) S = .ok w ∧ GoodWindow w S) ∧
    (¬ triangularSupport size < 1 → ∃ w, slidingWindow (triangularF size) (triangularSupport size) S = .ok w ∧ GoodWindow w S) ∧
    (¬ epanechnikovSupport size < 1 → ∃ w, slidingWindow (epanechnikovF size) (epanechnikovSupport size) S = .ok w ∧ GoodWindow w S) := by
  obtain ⟨u1, u2, u3, t1, t2, t3, e1, e2, e3⟩ := builtin_kernels size hsize
  have key : ∀ (f : α → α) (support : α), (∀ y, f (-y) = f y) → (∀ x, 0 ≤ f x) → 0 < f 0 → ¬ support < 1 →
      ∃ w, slidingWindow f support S = .ok w ∧ GoodWindow w S := by
    intro f support heven hnn hc hs
    obtain ⟨hsum, w, hw, hn, _⟩ := window_nonneg f support S hs (fun i _ => hnn _) hc
    obtain ⟨w', hw', h1, h2, h3, h4⟩ := window_shape f support S hs heven (ne_of_gt hsum)
    rw [hw] at hw'
    cases hw'
    exact ⟨w, hw, h1, h2, h3, h4, hn⟩
  exact ⟨key _ _ u1 u2 u3, key _ _ t1 t2 t3, key _ _ e1 e2 e3⟩

/-! ## Weight lists containing zero weights -/

/-- **Zero-weight lists: what the property demands and what the method does.** An odd list of
non-negative weights whose sum is not 0, on a signal at least as long as the half window, every window
holding at least one valid sample. The call succeeds, the list is left normalised, the boundary values
are copied, and at a filtered index `i`:
* if the valid weights of the window have a positive sum, the output is the renormalised weighted mean;
* if they sum to 0 — then every weight of the window is 0, so no weighted mean exists (any `m` satisfies
  `m·Σw = Σw·x`) — the output is NaN (`np.float64(0.0)/np.float64(0.0)`), never a number. -/
theorem list_zero_weights (v : List (Option α)) (k : List α) (hodd : k.length % 2 = 1)
    (hnn : ∀ w ∈ k, 0 ≤ w) (hs : k.sum ≠ 0) (hlen : k.length / 2 ≤ v.length)
    (hsample : ∀ i, i < v.length → window v k (k.length / 2) i ≠ []) :
    ∃ out, execute v (.list k) = .ok (some (k.map (· / k.sum)), out) ∧ out.length = v.length ∧
      ∀ i, i < v.length →
        ((i < k.length / 2 ∨ v.length - k.length / 2 ≤ i) → out[i]? = v[i]?) ∧
        (Filtered v k false i → 0 < wtot (window v k (k.length / 2) i) →
          out[i]? = some (some (wmean (window v k (k.length / 2) i)))) ∧
        (Filtered v k false i → wtot (window v k (k.length / 2) i) = 0 →
          out[i]? = some none ∧ ∀ p ∈ window v k (k.length / 2) i, p.1 = 0) := by
  refine ⟨partialSignal v k, ?_, partialSignal_length v k, ?_⟩
  · rw [execute_list_partial v k hodd hsample hlen hs, normalise_eq]
  · intro i hi
    have hnc : Filtered v k false i → ¬ (i < k.length / 2 ∨ v.length - k.length / 2 ≤ i) := by
      intro hf
      rcases hf with hf | hf
      · exact absurd hf Bool.false_ne_true
      · omega
    refine ⟨?_, ?_, ?_⟩
    · intro hb
      rw [partialSignal_get v k i hi, if_pos hb]
      rcases hx : v[i]? with _ | x
      · rw [List.getElem?_eq_none_iff] at hx; omega
      · rfl
    · intro hf hpos
      rw [partialSignal_get v k i hi, if_neg (hnc hf), if_neg (ne_of_gt hpos)]
    · intro hf h0
      refine ⟨?_, weights_zero_of_wtot_zero _ (fun p hp => hnn _ (window_weight_mem hp)) h0⟩
      rw [partialSignal_get v k i hi, if_neg (hnc hf), if_pos h0]

/-- … and when some window holds no valid sample at all (`temp[i]` and `norm` are still the ints 0) the
call fails with a division by zero, as it does for a Kernel object on any zero norm (`zero_norm_fails`). -/
theorem list_no_sample_fails (v : List (Option α)) (k : List α) (hodd : k.length % 2 = 1)
    (i : Nat) (hi : i < v.length) (hempty : window v k (k.length / 2) i = []) :
    execute v (.list k) = .error .zeroDiv :=
  execute_list_fails v k hodd i hi hempty

/-! ## `Track.operate(Operator.FILTER, …)`: feature-name kernels, output feature, failures -/

/-- **T1 for `track.operate(Operator.FILTER, af_in, kernel, af_out)`** on a track with at least one
observation, an output name that is not reserved, an existing input feature in the domain: the call
succeeds, returns the signal of renormalised weighted means, stores it under `af_out` (created if
needed) and touches no other feature or coordinate. -/
theorem operate_is_mean (t : Sigs α) (afIn afOut : String) (kern : KArg α) (w : List α) (b : Bool)
    (hp : Prepared kern w b) (v : List (Option α)) (hres : reservedName afOut = false) (hsize : trackSize t ≠ 0)
    (hv : getSig t afIn = some v) (hin : InDomain v w b) :
    ∃ k' t', operate t afIn (.arg kern) afOut = .ok (.arg (nextKernel kern k'), meanSignal v w b, t') ∧
      getSig t' afOut = some (meanSignal v w b) ∧ ∀ nm, nm ≠ afOut → getSig t' nm = getSig t nm := by
  obtain ⟨_, k', hex, _⟩ := execute_is_mean v kern w b hp hin
  have hv' : getSig (createAF t afOut) afIn = some v := by
    by_cases h : afIn = afOut
    · subst h; rw [createAF_of_getSig t afIn v hv]; exact hv
    · rw [getSig_createAF_other _ _ _ h]; exact hv
  exact ⟨k', _, operate_arg_eq t afIn afOut kern v k' _ hres hsize hv' hex, getSig_setSig_same _ _ _,
    fun nm hne => getSig_setSig_other _ _ _ _ hne⟩

/-- **A kernel given as the name of a feature** (or coordinate) whose values contain no NaN is the list
of these values: same output, same track; the name itself is of course unchanged (the weights are
a fresh list, normalised without touching the feature). With as many weights as observations the call
is in the domain of T1 when that number is odd. -/
theorem feature_kernel_is_list (t : Sigs α) (afIn afOut name : String) (ws : List (Option α))
    (hk : getSig t name = some ws) (hnan : ws.any (·.isNone) = false) :
    operate t afIn (.feat name) afOut =
      match operate t afIn (.arg (.list (ws.filterMap id))) afOut with
      | .ok (_, out, t') => .ok (.feat name, out, t')
      | .error e => .error e := by
  unfold operate resolve
  simp only [hk, hnan, Bool.false_eq_true, if_false]
  rcases prepare (KArg.list (ws.filterMap id)) with e | ⟨k0, w, b, np⟩
  · rfl
  · simp only
    split_ifs
    · rfl
    · rfl
    · rfl
    · rcases getSig (createAF t afOut) afIn with _ | v
      · rfl
      · simp only
        rcases filterWindowG v w b np with e | out
        · rfl
        · rfl

/-- **Failures before the filtering loops**, in the order of the Python: a reserved output name
(`x`, `y`, `z`, `t`, `timestamp`, `idx`) and then a track without observation are refused by
`createAnalyticalFeature` — after the kernel has been prepared and found odd. -/
theorem operate_refusals (t : Sigs α) (afIn afOut : String) (k : List α) (hodd : k.length % 2 = 1) :
    (reservedName afOut = true → operate t afIn (.arg (.list k)) afOut = .error .feature) ∧
    (reservedName afOut = false → trackSize t = 0 → operate t afIn (.arg (.list k)) afOut = .error .emptyTrack) := by
  have h1 : (k.length % 2 == 0) = false := by simp [hodd]
  constructor
  · intro hr
    unfold operate resolve prepare
    simp [normalise_length, h1, hr]
  · intro hr h0
    unfold operate resolve prepare
    simp [normalise_length, h1, hr, h0]

/-! ## The argument forms of `Track.operate(Operator.FILTER, arg1, kernel[, arg3])` -/

/-- the in-place list form on feature names runs the loop of `filter_seq` -/
theorem operatePairs_inplace (dims : List String) (hxyz : ∀ d ∈ dims, ¬ (d = "x" ∨ d = "y" ∨ d = "z")) :
    ∀ (kern : KSrc α) (t : Sigs α), (operatePairs (dims.zip dims) kern t).map (·.2) = seqLoop dims kern t := by
  induction dims with
  | nil => intro kern t; rw [List.zip_nil_left, operatePairs, seqLoop]; rfl
  | cons af rest ih =>
    intro kern t
    have h := hxyz af List.mem_cons_self
    have hc : ¬ ((af == "x") = true ∨ (af == "y") = true ∨ (af == "z") = true) := by simpa using h
    rw [List.zip_cons_cons, operatePairs, seqLoop, if_neg hc]
    rcases operate t af kern af with e | ⟨k', out, t'⟩
    · rfl
    · exact ih (fun d hd => hxyz d (List.mem_cons_of_mem _ hd)) k' t'

/-- **Output name omitted** (`track.operate(Operator.FILTER, af, kernel)`): `arg3 = arg1`, the feature is
filtered in place — it becomes its own mean signal, which is also returned; nothing else changes. The same for a
list of names with `arg3` omitted or equal to `arg1`; lists of different lengths are refused. -/
theorem operate_output_omitted (t : Sigs α) (afIn : String) (kern : KArg α) (w : List α) (b : Bool)
    (hp : Prepared kern w b) (v : List (Option α)) (hres : reservedName afIn = false) (hsize : trackSize t ≠ 0)
    (hv : getSig t afIn = some v) (hin : InDomain v w b) :
    operateArgs t (.arg kern) (.one afIn none) = operateArgs t (.arg kern) (.one afIn (some afIn)) ∧
    ∃ k' t', operateArgs t (.arg kern) (.one afIn none) = .ok (.arg (nextKernel kern k'), some (meanSignal v w b), t') ∧
      getSig t' afIn = some (meanSignal v w b) ∧ ∀ nm, nm ≠ afIn → getSig t' nm = getSig t nm := by
  refine ⟨rfl, ?_⟩
  obtain ⟨k', t', h1, h2, h3⟩ := operate_is_mean t afIn afIn kern w b hp v hres hsize hv hin
  refine ⟨k', t', ?_, h2, h3⟩
  unfold operateArgs
  simp only [Option.getD_none, h1]

/-- **Lists of names** (`track.operate(Operator.FILTER, [a, c, …], kernel)`, `arg3` omitted or the same list):
distinct features (not coordinates, whose names cannot be written as features; not the virtual `t`, `timestamp`,
`idx`) of a non-empty track, each in the domain: the call succeeds, returns nothing, every listed feature becomes
its own mean signal — one window for all of them although the weight list is normalised in place again at every
turn — and no other signal changes. Lists of different lengths are refused before anything is computed. -/
theorem operate_list_is_mean (t : Sigs α) (kern : KArg α) (w : List α) (b : Bool) (dims : List String)
    (hp : Prepared kern w b) (hnd : dims.Nodup) (htemp : "temp" ∉ dims)
    (hres : ∀ d ∈ dims, d ≠ "t" ∧ d ≠ "timestamp" ∧ d ≠ "idx")
    (hxyz : ∀ d ∈ dims, ¬ (d = "x" ∨ d = "y" ∨ d = "z")) (hsize : trackSize t ≠ 0)
    (hall : ∀ d ∈ dims, ∃ v, getSig t d = some v ∧ InDomain v w b) :
    (∃ k' t', operateArgs t (.arg kern) (.many dims none) = .ok (k', none, t') ∧
      operateArgs t (.arg kern) (.many dims (some dims)) = .ok (k', none, t') ∧
      (∀ d ∈ dims, ∃ v, getSig t d = some v ∧ getSig t' d = some (meanSignal v w b)) ∧
      (∀ nm, nm ∉ dims → nm ≠ "temp" → getSig t' nm = getSig t nm)) ∧
    (∀ (ks : KSrc α) (outs : List String), dims.length ≠ outs.length →
      operateArgs t ks (.many dims (some outs)) = .error .operands) := by
  constructor
  · obtain ⟨t', h1, h2, h3⟩ := seqLoop_is_mean t kern w b dims hp hnd htemp hres hsize hall
    have hpairs := operatePairs_inplace dims hxyz (.arg kern) t
    rw [h1] at hpairs
    rcases hop : operatePairs (dims.zip dims) (.arg kern) t with e | ⟨k', t''⟩
    · rw [hop] at hpairs; cases hpairs
    · rw [hop] at hpairs
      have e : t'' = t' := by
        have : Except.ok (ε := Err) t'' = Except.ok t' := hpairs
        cases this; rfl
      subst e
      refine ⟨k', t'', ?_, ?_, h2, h3⟩
      · unfold operateArgs
        simp [hop]
      · unfold operateArgs
        simp [hop]
  · intro ks outs hne
    unfold operateArgs
    simp [hne]

/-- **A float given as kernel** (the comment above `filter_seq` documents "a float number giving the half width of
a rectangular window"): it is neither an `int`, a list nor a Kernel object; `Filter.execute` raises `TypeError` at
`len(kernel)` during the kernel preparation — before the track, the names or the output feature are looked at —
so `filter_seq` fails at the first dimension (and returns the track untouched when `dim` is empty). Never a value. -/
theorem number_kernel_refused (t : Sigs α) (af : String) (rest : List String) :
    filterSeq t .num (af :: rest) = .error .kernelType ∧ filterSeq t .num [] = .ok t ∧
    ∀ afIn afOut, operate t afIn .num afOut = .error .kernelType := by
  have hop : ∀ afIn afOut, operate t afIn (KSrc.num : KSrc α) afOut = .error .kernelType := by
    intro afIn afOut; unfold operate resolve; rfl
  refine ⟨?_, by unfold filterSeq; simp only; rw [seqLoop], hop⟩
  unfold filterSeq
  simp only
  rw [seqLoop]
  split <;> simp [hop]

/-! ## The `dim` argument, module-level state, sessions, `Track.smooth` -/

/-- **Dispatch on `dim`**: omitted, it is `FILTER_XYZ` = x, y, z; a module constant `FILTER_…` stands for
the coordinates its name says; a list is taken as it is; a single `str` is walked character by
character (`"xy"` filters x and y; a feature name of several characters is *not* one dimension).
No call changes the module-level state. -/
theorem dim_dispatch (g : Globals) (t : Sigs α) (kernel : SeqArg α) :
    filterSeqCall Globals.initial t kernel .default = some (filterSeq t kernel ["x", "y", "z"], Globals.initial) ∧
    (∀ n l, (n, l) ∈ Globals.initial.filterConsts →
      filterSeqCall Globals.initial t kernel (.const n) = some (filterSeq t kernel l, Globals.initial)) ∧
    (∀ l, filterSeqCall g t kernel (.list l) = some (filterSeq t kernel l, g)) ∧
    (∀ s, filterSeqCall g t kernel (.str s) = some (filterSeq t kernel (s.toList.map String.singleton), g)) ∧
    ((Globals.initial.filterConsts.map (·.2)) =
      [["x"], ["y"], ["z"], ["x", "y"], ["x", "z"], ["y", "z"], ["x", "y", "z"]]) := by
  refine ⟨rfl, ?_, fun _ => rfl, fun _ => rfl, rfl⟩
  intro n l h
  simp only [Globals.initial, List.mem_cons, Prod.mk.injEq, List.not_mem_nil, or_false] at h
  rcases h with ⟨rfl, rfl⟩ | ⟨rfl, rfl⟩ | ⟨rfl, rfl⟩ | ⟨rfl, rfl⟩ | ⟨rfl, rfl⟩ | ⟨rfl, rfl⟩ | ⟨rfl, rfl⟩ <;> rfl

/-- **Sessions**: calls made one after the other in one process (each on its own track, default or
explicit `dim`, any kernel, in or out of the domain, failing or not) give what each call gives alone
in a fresh process, and leave the module-level state (`FILTER_X … FILTER_XYZ`, the class attribute
`Kernel.__filter_boundary`) as it was. -/
theorem session_independent (g : Globals) (cs : List (Call α)) (h : ∀ c ∈ cs, (dimNames g c.dim).isSome) :
    session g cs = cs.map (fun c => filterSeqCall g c.t c.kernel c.dim) ∧
    ∀ r ∈ session g cs, ∃ x, r = some (x, g) := by
  induction cs with
  | nil => exact ⟨rfl, by simp [session]⟩
  | cons c cs ih =>
    obtain ⟨ih1, ih2⟩ := ih (fun c' hc' => h c' (List.mem_cons_of_mem _ hc'))
    have hc := h c List.mem_cons_self
    obtain ⟨names, hn⟩ := Option.isSome_iff_exists.mp hc
    have e : filterSeqCall g c.t c.kernel c.dim = some (filterSeq c.t c.kernel names, g) := by
      unfold filterSeqCall; rw [hn]
    constructor
    · rw [session, e, List.map_cons, e]
      simp only
      rw [ih1]
    · intro r hr
      rw [session, e] at hr
      simp only at hr
      rcases List.mem_cons.mp hr with rfl | hr
      · exact ⟨_, rfl⟩
      · exact ih2 r hr

/-- **`Track.smooth(width)`** is `filter_seq(self, GaussianKernel(width))` with the default `dim`: on a
track with at least one observation whose x, y, z are in the domain of the Gaussian window `w`
(boundaries not filtered: `setFilterBoundary` is never called on that kernel), each coordinate becomes
the signal of renormalised weighted means of its former values, the features are untouched and the
module-level state is unchanged. -/
theorem smooth_is_mean (t : Sigs α) (f : α → α) (support : α) (S : Nat) (w : List α)
    (hw : slidingWindow f support S = .ok w) (hsize : trackSize t ≠ 0)
    (hall : ∀ d ∈ ["x", "y", "z"], ∃ v, getSig t d = some v ∧ InDomain v w false) :
    ∃ t', smooth Globals.initial t f support S = some (.ok t', Globals.initial) ∧
      (∀ d ∈ ["x", "y", "z"], ∃ v, getSig t d = some v ∧ getSig t' d = some (meanSignal v w false)) ∧
      (∀ nm, nm ∉ ["x", "y", "z"] → nm ≠ "temp" → getSig t' nm = getSig t nm) := by
  obtain ⟨t', h1, h2, h3⟩ := filterSeq_is_mean t (.obj false false f support S) w false ["x", "y", "z"]
    ⟨hw, rfl⟩ (fun a h => by cases h) (by decide) (by decide)
    (by intro d hd; simp only [List.mem_cons, List.not_mem_nil, or_false] at hd; rcases hd with rfl | rfl | rfl <;> decide)
    hsize hall
  refine ⟨t', ?_, h2, h3⟩
  show filterSeqCall Globals.initial t _ .default = _
  rw [(dim_dispatch Globals.initial t _).1]
  exact congrArg (fun r => some (r, Globals.initial)) h1

/-! ## The same track filtered again with the same kernel object -/

/-- the domain does not depend on the scale of a weight list: after `kernel[i] /= sum` it is still in it -/
theorem inDomain_normalise (v : List (Option α)) (k : List α) (h : InDomain v k false) (hs : k.sum ≠ 0) :
    InDomain v (normalise k) false := by
  have hsum : 0 < k.sum := lt_of_le_of_ne (sum_nonneg' k h.nonneg) (Ne.symm hs)
  refine ⟨by rw [normalise_length]; exact h.odd, ?_, ?_, by intro hb; rw [normalise_length]; exact h.long hb⟩
  · intro w hw
    rw [normalise_eq, List.mem_map] at hw
    obtain ⟨x, hx, rfl⟩ := hw
    exact div_nonneg (h.nonneg x hx) (le_of_lt hsum)
  · intro i hi
    rw [normalise_length, wtot_window_normalise]
    exact div_pos (h.norm_pos i hi) hsum

/-- **`filter_seq` called twice on the same track with the same kernel object and the same names** (the second
call finds the scratch feature `temp` in the track and a weight list that the first call has normalised in place,
once per dimension): when every listed signal and its mean signal are in the domain, both calls succeed, the first
gives the mean signals and the second the mean signals of the mean signals under the *same* window; every other
signal except `temp` is untouched. -/
theorem filterSeq_twice (g : Globals) (t : Sigs α) (kern : KArg α) (w : List α) (b : Bool) (dims : List String)
    (hp : Prepared kern w b) (hone : ∀ a, kern ≠ .list [a]) (hne : dims ≠ [])
    (hnd : dims.Nodup) (htemp : "temp" ∉ dims)
    (hres : ∀ d ∈ dims, d ≠ "t" ∧ d ≠ "timestamp" ∧ d ≠ "idx") (hsize : trackSize t ≠ 0)
    (hall : ∀ d ∈ dims, ∃ v, getSig t d = some v ∧ InDomain v w b ∧ InDomain (meanSignal v w b) w b) :
    ∃ t1 t2, filterSeqRepeat g t (.k kern) (.list dims) 2 = [some (.ok t1, g), some (.ok t2, g)] ∧
      (∀ d ∈ dims, ∃ v, getSig t d = some v ∧ getSig t1 d = some (meanSignal v w b) ∧
        getSig t2 d = some (meanSignal (meanSignal v w b) w b)) ∧
      (∀ nm, nm ∉ dims → nm ≠ "temp" → getSig t2 nm = getSig t nm) := by
  obtain ⟨t1, h1, h2, h3⟩ := filterSeq_is_mean t kern w b dims hp hone hnd htemp hres hsize
    (fun d hd => by obtain ⟨v, hv, hin, _⟩ := hall d hd; exact ⟨v, hv, hin⟩)
  have hsize1 : trackSize t1 ≠ 0 := by
    have e : trackSize t1 = trackSize t := by
      unfold trackSize
      by_cases hx : "x" ∈ dims
      · obtain ⟨v, hv, hv'⟩ := h2 "x" hx
        rw [hv, hv']; simp [meanSignal]
      · rw [h3 "x" hx (by decide)]
    rw [e]; exact hsize
  have hall1 : ∀ (w' : List α), (∀ v, InDomain v w b → InDomain v w' b) →
      ∀ d ∈ dims, ∃ v', getSig t1 d = some v' ∧ InDomain v' w' b := by
    intro w' hw' d hd
    obtain ⟨v, hv, _, hin2⟩ := hall d hd
    obtain ⟨v0, hv0, hv0'⟩ := h2 d hd
    rw [hv] at hv0; cases hv0
    exact ⟨_, hv0', hw' _ hin2⟩
  -- the kernel object after the first call, its window, and the second call
  have key : ∃ (kern2 : KArg α) (w2 : List α), seqKernelAfter (.k kern) dims = .k kern2 ∧ Prepared kern2 w2 b ∧
      (∀ a, kern2 ≠ .list [a]) ∧ (∀ v, InDomain v w b → InDomain v w2 b) ∧ (∀ v, meanSignal v w2 b = meanSignal v w b) := by
    cases kern with
    | obj dirac fb f support S => exact ⟨_, w, rfl, hp, fun a h => (by cases h), fun _ h => h, fun _ => rfl⟩
    | list k =>
      obtain ⟨rfl, rfl, hs⟩ := hp
      have hlen : w.length ≠ 1 := by
        intro hl
        match w, hl with
        | [a], _ => exact hone a rfl
      have hdl : 0 < dims.length := List.length_pos_of_ne_nil hne
      refine ⟨.list (normalise w), normalise w, ?_, ⟨rfl, rfl, by rw [normalise_sum w hs]; exact one_ne_zero⟩, ?_,
        fun v h => inDomain_normalise v w h hs, fun v => meanSignal_normalise v w false hs⟩
      · unfold seqKernelAfter
        simp only [beq_iff_eq, hlen, if_false]
        rw [normaliseN_of_pos w hs _ hdl]
      · intro a h
        have : (normalise w).length = 1 := by rw [KArg.list.inj h]; rfl
        rw [normalise_length] at this
        exact hlen this
  obtain ⟨kern2, w2, hk2, hp2, hone2, hdom2, hmean2⟩ := key
  obtain ⟨t2, g1, g2, g3⟩ := filterSeq_is_mean t1 kern2 w2 b dims hp2 hone2 hnd htemp hres hsize1 (hall1 w2 hdom2)
  refine ⟨t1, t2, ?_, ?_, ?_⟩
  · simp only [filterSeqRepeat, dimNames, h1, hk2, g1]
  · intro d hd
    obtain ⟨v, hv, hv'⟩ := h2 d hd
    obtain ⟨v1, hv1, hv1'⟩ := g2 d hd
    rw [hv'] at hv1; cases hv1
    exact ⟨v, hv, hv', by rw [hv1', hmean2]⟩
  · intro nm hnm hnt
    rw [g3 nm hnm hnt, h3 nm hnm hnt]

/-! ## Tracks shorter than the window (`track.size() < N = 2D+1`)

The statement defines every output whatever the length of the track: a window that overhangs both ends at
once is renormalised over the samples that are inside the track; and when boundaries are not filtered every
index of such a track lies in the first or in the last half window. What `Filter.execute` does:
* boundaries filtered: the renormalised mean at every index (`short_track_filtered`) — T1 has no length
  hypothesis for `boundary = true`;
* boundaries copied, `D ≤ size < N`: the input is returned unchanged (`short_track_unchanged`);
* boundaries copied, `size < D`: the boundary loops read `input[i]` for `i in range(D)` and raise `IndexError`
  (`short_track_index_error`) — after the filtering loop, so a zero norm still comes first (`zero_norm_fails`). -/

/-- **Domain, any length** non-negative weights with a positive centre weight (every window of a Kernel
object satisfying `window_nonneg`, `[0,1,0]`, any positive list) and a signal without NaN: every window holds
its own centre sample, so no norm is zero — whatever the length of the signal when boundaries are filtered,
and from the half window on when they are copied. -/
theorem inDomain_of_centre_weight (v : List (Option α)) (k : List α) (boundary : Bool)
    (hodd : k.length % 2 = 1) (hnn : ∀ w ∈ k, 0 ≤ w) (c : α) (hc : k[k.length / 2]? = some c) (hpos : 0 < c)
    (hv : ∀ i, i < v.length → ∃ x, v[i]? = some (some x))
    (hlen : boundary = false → k.length / 2 ≤ v.length) : InDomain v k boundary where
  odd := hodd
  nonneg := hnn
  norm_pos := fun i hi => by
    obtain ⟨x, hx⟩ := hv i hi
    exact wtot_pos_of_mem _ (fun p hp => hnn _ (window_weight_mem hp)) (c, x)
      (centre_mem_window v k i x c hx hc) hpos
  long := hlen

/-- **Short tracks, boundaries filtered** (`setFilterBoundary(True)`), any length — in particular a track
shorter than the window: the call succeeds and *every* output is the renormalised weighted mean of its window,
lying between two samples of that window; and on a track of at most `D+1` observations every window holds every
valid sample of the track (`v[m]` with the weight `k[i+D-m]`): each output is a weighted mean of the whole track. -/
theorem short_track_filtered (v : List (Option α)) (k : List α) (h : InDomain v k true) :
    ∃ out, filterWindow v k true = .ok out ∧ out.length = v.length ∧
      ∀ i, i < v.length →
        out[i]? = some (some (wmean (window v k (k.length / 2) i))) ∧
        (∃ p ∈ window v k (k.length / 2) i, p.2 ≤ wmean (window v k (k.length / 2) i)) ∧
        (∃ p ∈ window v k (k.length / 2) i, wmean (window v k (k.length / 2) i) ≤ p.2) ∧
        (v.length ≤ k.length / 2 + 1 → ∀ (m : Nat) (x : α), v[m]? = some (some x) →
          ∃ w, k[i + k.length / 2 - m]? = some w ∧ (w, x) ∈ window v k (k.length / 2) i) := by
  obtain ⟨out, h1, h2, h3⟩ := filter_is_mean v k true h
  refine ⟨out, h1, h2, fun i hi => ?_⟩
  have hm := h3 i hi (Or.inl rfl)
  obtain ⟨y, hy, hlo, hhi⟩ := filter_between_samples v k true h out h1 i hi (Or.inl rfl)
  rw [hm] at hy
  cases hy
  refine ⟨hm, hlo, hhi, ?_⟩
  intro hshort m x hx
  have hmlt : m < v.length := by
    rcases Nat.lt_or_ge m v.length with h | h
    · exact h
    · rw [List.getElem?_eq_none h] at hx; simp at hx
  exact mem_window_of_sample v k i m x h.odd (by omega) (by omega) hx

/-- **Short tracks, boundaries copied, at least the half window** (`D ≤ size < N`; every weight list, every
kernel on which `setFilterBoundary(True)` was not called): every index lies in the first or last half window
and the input is returned unchanged, NaN included. -/
theorem short_track_unchanged (v : List (Option α)) (k : List α) (h : InDomain v k false)
    (hshort : v.length < k.length) : filterWindow v k false = .ok v := by
  rw [filterWindow_eq v k false h.odd (fun i hi => ne_of_gt (h.norm_pos i hi)) h.long,
    meanSignal_short v k (by have := h.odd; omega)]

/-- **Short tracks, boundaries copied, shorter than the half window** (`size < D`): odd window, no zero norm —
the filtering loop runs, then the boundary copy raises `IndexError`: no value is returned, in particular never
a wrong one. (Outside the property's quantifier, which starts at signals as long as the window; the statement's
"first and last half-window values are returned unchanged" would ask for the input.) -/
theorem short_track_index_error (v : List (Option α)) (k : List α) (hodd : k.length % 2 = 1)
    (hden : ∀ i, i < v.length → wtot (window v k (k.length / 2) i) ≠ 0)
    (hlen : v.length < k.length / 2) : filterWindow v k false = .error .index :=
  filterWindowG_short_index v k false hodd hden hlen

/-- **`Filter.execute` as a whole on a short track with copied boundaries** (weight list, Kernel object or
Dirac kernel prepared into the window `w`): `D ≤ size < N` returns the input unchanged (a list is still left
normalised); `size < D` raises `IndexError`. -/
theorem execute_short_track (v : List (Option α)) (kern : KArg α) (w : List α)
    (hp : Prepared kern w false) (hodd : w.length % 2 = 1) (hnn : ∀ x ∈ w, 0 ≤ x)
    (hpos : ∀ i, i < v.length → 0 < wtot (window v w (w.length / 2) i)) (hshort : v.length < w.length) :
    (w.length / 2 ≤ v.length → ∃ k', execute v kern = .ok (k', v)) ∧
    (v.length < w.length / 2 → execute v kern = .error .index) := by
  constructor
  · intro hlen
    have hin : InDomain v w false := ⟨hodd, hnn, hpos, fun _ => hlen⟩
    obtain ⟨_, k', hex, _⟩ := execute_is_mean v kern w false hp hin
    rw [meanSignal_short v w (by omega)] at hex
    exact ⟨k', hex⟩
  · intro hlen
    have hden : ∀ i, i < v.length → wtot (window v w (w.length / 2) i) ≠ 0 := fun i hi => ne_of_gt (hpos i hi)
    cases kern with
    | list k =>
      obtain ⟨rfl, _, hs⟩ := hp
      exact execute_list_short_index v w hodd hden hlen hs
    | obj dirac fb f support S =>
      cases dirac with
      | true =>
        obtain ⟨rfl, rfl⟩ := hp
        exact execute_dirac_err v false f support S _ (short_track_index_error v _ hodd hden hlen)
      | false =>
        obtain ⟨hw, rfl⟩ := hp
        exact execute_obj_err v false f support S w _ hw (short_track_index_error v w hodd hden hlen)

/-- **`Track.smooth(width)` on a track shorter than the Gaussian window** (boundaries are never filtered by
`smooth`) but with at least `D = int(3·width)` observations: the coordinates — and everything else except the
scratch feature `temp` — are returned unchanged. -/
theorem smooth_short_track (t : Sigs α) (f : α → α) (support : α) (S : Nat) (w : List α)
    (hw : slidingWindow f support S = .ok w) (hsize : trackSize t ≠ 0)
    (hall : ∀ d ∈ ["x", "y", "z"], ∃ v, getSig t d = some v ∧ InDomain v w false ∧ v.length < w.length) :
    ∃ t', smooth Globals.initial t f support S = some (.ok t', Globals.initial) ∧
      ∀ nm, nm ≠ "temp" → getSig t' nm = getSig t nm := by
  obtain ⟨t', h1, h2, h3⟩ := smooth_is_mean t f support S w hw hsize
    (fun d hd => by obtain ⟨v, hv, hin, _⟩ := hall d hd; exact ⟨v, hv, hin⟩)
  refine ⟨t', h1, fun nm hnm => ?_⟩
  by_cases hmem : nm ∈ ["x", "y", "z"]
  · obtain ⟨v, hv, hv'⟩ := h2 nm hmem
    obtain ⟨v0, hv0, hin, hshort⟩ := hall nm hmem
    rw [hv] at hv0
    cases hv0
    rw [hv', hv, meanSignal_short v w (by have := hin.odd; omega)]
  · exact h3 nm hmem hnm

/-- … and with fewer than `D` observations (`Track.smooth()` on a 2-point track: `D = 3`) the call raises
`IndexError` at the first coordinate, the module-level state being untouched. -/
theorem smooth_too_short_fails (t : Sigs α) (f : α → α) (support : α) (S : Nat) (w : List α)
    (hw : slidingWindow f support S = .ok w) (hodd : w.length % 2 = 1)
    (v : List (Option α)) (hv : getSig t "x" = some v) (hne : v.length ≠ 0)
    (hden : ∀ i, i < v.length → wtot (window v w (w.length / 2) i) ≠ 0) (hlen : v.length < w.length / 2) :
    smooth Globals.initial t f support S = some (.error .index, Globals.initial) := by
  show filterSeqCall Globals.initial t _ .default = _
  rw [(dim_dispatch Globals.initial t _).1]
  have hsize : trackSize t ≠ 0 := by unfold trackSize; rw [hv]; exact hne
  have hop : operate t "x" (.arg (.obj false false f support S)) "temp" = .error .index :=
    operate_arg_fw_err t "x" "temp" _ v none w false false .index (by simp [prepare, hw]) hodd
      reservedName_temp hsize (by rw [getSig_createAF_other _ _ _ (by decide)]; exact hv)
      (filterWindowG_short_index v w false hodd hden hlen)
  have : filterSeq t (.k (.obj false Globals.initial.kernelFilterBoundary f support S)) ["x", "y", "z"] = .error .index := by
    show seqLoop ["x", "y", "z"] (.arg (.obj false false f support S)) t = _
    rw [seqLoop]
    simp [hop]
  rw [this]

/-! ## The kernels written with `math.pow` and `math.exp` -/

/-- **T5 for a kernel function that is even, non-negative everywhere and positive at 0**, support at least 1:
the sliding window is odd, symmetric, sums to 1 and is non-negative, with a positive centre weight. -/
theorem window_of_even_nonneg_kernel (f : α → α) (support : α) (S : Nat) (hs : ¬ support < 1)
    (heven : ∀ y, f (-y) = f y) (hnn : ∀ x, 0 ≤ f x) (hc : 0 < f 0) :
    ∃ w, slidingWindow f support S = .ok w ∧ GoodWindow w S ∧ ∃ c, w[w.length / 2]? = some c ∧ 0 < c := by
  obtain ⟨hsum, w, hw, hn, hcentre⟩ := window_nonneg f support S hs (fun i _ => hnn _) hc
  obtain ⟨w', hw', h1, h2, h3, h4⟩ := window_shape f support S hs heven (ne_of_gt hsum)
  rw [hw] at hw'
  cases hw'
  exact ⟨w, hw, ⟨h1, h2, h3, h4, hn⟩, hcentre⟩

/-- **`CubicKernel` and `SphericKernel`** (`math.pow` with the exponents 2, 3, 5, 7 is a product): their kernel
functions are even, equal to 1 at 0, and non-negative — they are `(1-u)⁴(3u³+12u²+16u+4)/4` and `(1-u)²(2+u)/2`
with `u = |x|/sigma ≥ 0`. -/
theorem pow_kernels (sigma : α) (h : 0 < sigma) :
    (∀ y, cubicF sigma (-y) = cubicF sigma y) ∧ (∀ x, 0 ≤ cubicF sigma x) ∧ cubicF sigma 0 = 1 ∧
    (∀ y, sphericF sigma (-y) = sphericF sigma y) ∧ (∀ x, 0 ≤ sphericF sigma x) ∧ sphericF sigma 0 = 1 :=
  ⟨cubicF_even sigma, fun x => cubicF_nonneg sigma x h, cubicF_zero sigma,
   sphericF_even sigma, fun x => sphericF_nonneg sigma x h, sphericF_zero sigma⟩

/-- … hence, for any `sigma ≥ 1` (their support), their sliding windows are odd, symmetric, non-negative and sum to 1. -/
theorem pow_kernel_windows (sigma : α) (S : Nat) (hs : ¬ sigma < 1) :
    (∃ w, slidingWindow (cubicF sigma) (cubicSupport sigma) S = .ok w ∧ GoodWindow w S) ∧
    (∃ w, slidingWindow (sphericF sigma) (sphericSupport sigma) S = .ok w ∧ GoodWindow w S) := by
  have hpos : 0 < sigma := lt_of_lt_of_le one_pos (le_of_not_gt hs)
  obtain ⟨c1, c2, c3, s1, s2, s3⟩ := pow_kernels sigma hpos
  obtain ⟨w, hw, hg, _⟩ := window_of_even_nonneg_kernel (cubicF sigma) (cubicSupport sigma) S hs c1 c2 (by rw [c3]; exact one_pos)
  obtain ⟨w', hw', hg', _⟩ := window_of_even_nonneg_kernel (sphericF sigma) (sphericSupport sigma) S hs s1 s2 (by rw [s3]; exact one_pos)
  exact ⟨⟨w, hw, hg⟩, ⟨w', hw', hg'⟩⟩

/-- **`GaussianKernel` and `ExponentialKernel`**, `math.exp` being any function with positive values and
`math.sqrt(2·math.pi)` any positive constant, for any `sigma` with support `3·sigma ≥ 1`: the kernel functions are
even and positive, the sliding windows odd, symmetric, non-negative, summing to 1. -/
theorem exp_kernel_windows (expF : α → α) (hexp : ∀ y, 0 < expF y) (c : α) (hc : 0 < c) (sigma : α) (S : Nat)
    (hs : ¬ gaussianSupport sigma < 1) :
    (∃ w, slidingWindow (gaussianF expF c sigma) (gaussianSupport sigma) S = .ok w ∧ GoodWindow w S) ∧
    (∃ w, slidingWindow (exponentialF expF sigma) (exponentialSupport sigma) S = .ok w ∧ GoodWindow w S) := by
  have hpos : 0 < sigma := by
    unfold gaussianSupport at hs
    push_cast at hs
    by_contra hn
    exact hs (by linarith [not_lt.mp hn])
  obtain ⟨w, hw, hg, _⟩ := window_of_even_nonneg_kernel (gaussianF expF c sigma) (gaussianSupport sigma) S hs
    (gaussianF_even expF c sigma) (fun x => le_of_lt (gaussianF_pos expF hexp c sigma x hc hpos)) (gaussianF_pos expF hexp c sigma 0 hc hpos)
  obtain ⟨w', hw', hg', _⟩ := window_of_even_nonneg_kernel (exponentialF expF sigma) (exponentialSupport sigma) S hs
    (exponentialF_even expF sigma) (fun x => le_of_lt (exponentialF_pos expF hexp sigma x hpos)) (exponentialF_pos expF hexp sigma 0 hpos)
  exact ⟨⟨w, hw, hg⟩, ⟨w', hw', hg'⟩⟩

/-- **`Track.smooth(width)` with the Gaussian kernel function written out** (`math.exp` positive): on a track
whose coordinates hold no NaN and at least `D = int(3·width)` observations, the Gaussian window exists (odd,
symmetric, non-negative, sum 1), the call succeeds, every coordinate becomes the signal of renormalised
weighted means of its former values (boundaries copied), features are untouched. -/
theorem smooth_gaussian (expF : α → α) (hexp : ∀ y, 0 < expF y) (c : α) (hc : 0 < c) (width : α) (S : Nat)
    (hs : ¬ gaussianSupport width < 1) (t : Sigs α) (hsize : trackSize t ≠ 0)
    (hall : ∀ d ∈ ["x", "y", "z"], ∃ v, getSig t d = some v ∧ S ≤ v.length ∧ ∀ i, i < v.length → ∃ x, v[i]? = some (some x)) :
    ∃ w t', slidingWindow (gaussianF expF c width) (gaussianSupport width) S = .ok w ∧ GoodWindow w S ∧
      smooth Globals.initial t (gaussianF expF c width) (gaussianSupport width) S = some (.ok t', Globals.initial) ∧
      (∀ d ∈ ["x", "y", "z"], ∃ v, getSig t d = some v ∧ getSig t' d = some (meanSignal v w false)) ∧
      (∀ nm, nm ∉ ["x", "y", "z"] → nm ≠ "temp" → getSig t' nm = getSig t nm) := by
  have hpos : 0 < width := by
    unfold gaussianSupport at hs
    push_cast at hs
    by_contra hn
    exact hs (by linarith [not_lt.mp hn])
  obtain ⟨w, hw, hg, c0, hc0, hc0pos⟩ := window_of_even_nonneg_kernel (gaussianF expF c width) (gaussianSupport width) S hs
    (gaussianF_even expF c width) (fun x => le_of_lt (gaussianF_pos expF hexp c width x hc hpos)) (gaussianF_pos expF hexp c width 0 hc hpos)
  obtain ⟨t', h1, h2, h3⟩ := smooth_is_mean t _ _ S w hw hsize (fun d hd => by
    obtain ⟨v, hv, hlen, hnan⟩ := hall d hd
    refine ⟨v, hv, inDomain_of_centre_weight v w false hg.odd hg.nonneg c0 hc0 hc0pos hnan (fun _ => ?_)⟩
    have := hg.length
    omega)
  exact ⟨w, t', hw, hg, h1, h2, h3⟩

/-! ## The domain is sharp, and it is inhabited -/

/-- outside the domain: an odd window one of whose norms is zero makes the method fail with a
division by zero (what `Filter.execute` does for a Kernel object; never a wrong value). -/
theorem zero_norm_fails (v : List (Option α)) (k : List α) (boundary : Bool) (hodd : k.length % 2 = 1)
    (i : Nat) (hi : i < v.length) (h0 : wtot (window v k (k.length / 2) i) = 0) :
    filterWindow v k boundary = .error .zeroDiv := by
  unfold filterWindow filterWindowG
  have h1 : ¬ (k.length % 2 == 0) = true := by simp [hodd]
  simp only [h1]
  rw [cells_eq]
  have h2 : ((List.range v.length).map (fun i => (wsum (window v k (k.length / 2) i), wtot (window v k (k.length / 2) i)))).zipIdx.any
      (fun c => c.1.2 == 0 && (!false || !anySample v (k.length / 2) c.2 k 0)) = true := by
    rw [List.any_eq_true]
    refine ⟨((wsum (window v k (k.length / 2) i), wtot (window v k (k.length / 2) i)), i), ?_, ?_⟩
    · rw [List.mem_zipIdx_iff_getElem?]
      simp [hi]
    · simp [h0]
  simp only [h2, if_true, Bool.false_eq_true, if_false]

/-- non-vacuity: an asymmetric positive weight list on a signal with an isolated NaN is in the domain … -/
example : InDomain (α := ℚ) [some 0, none, some 1, some 4] [1, 2, 5] false := by
  apply inDomain_of_positive_weights
  · decide
  · intro w hw; simp at hw; rcases hw with rfl | rfl | rfl <;> norm_num
  · decide
  · intro i hi
    have : i = 0 ∨ i = 1 ∨ i = 2 ∨ i = 3 := by simp at hi; omega
    rcases this with rfl | rfl | rfl | rfl
    · exact ⟨0, 0, by decide, by decide, rfl⟩
    · exact ⟨0, 0, by decide, by decide, rfl⟩
    · exact ⟨2, 1, by decide, by decide, rfl⟩
    · exact ⟨3, 4, by decide, by decide, rfl⟩

/-- … and the model computes on it what the Python computes (`track.operate(Operator.FILTER, …)` with
weights `[1,2,5]` on `[0, NaN, 1, 4]` gives `[0, 1/6, 2, 4]`: index 1 averages `v[2]` with weight
`k[0] = 1` and `v[0]` with weight `k[2] = 5`, the NaN is left out of the norm). -/
example : filterWindow (α := ℚ) [some 0, none, some 1, some 4] [1, 2, 5] false
    = .ok [some 0, some (1/6), some 2, some 4] := by
  simp [filterWindow, filterWindowG, cells, inner, sample, copyBoundary, List.range, List.range.loop]
  norm_num

/-- the sliding window of `TriangularKernel(2)` -/
example : slidingWindow (triangularF (2 : ℚ)) (triangularSupport 2) 3 = .ok [0, 0, 1/4, 1/2, 1/4, 0, 0] := by
  simp [slidingWindow, triangularSupport, onePointFive, triangularF, evaluate, samplePoint, absv, ind, List.range, List.range.loop]
  norm_num

/-- `UniformKernel(1)` with filtered boundaries is `Prepared` with the window `[0,1/3,1/3,1/3,0]` -/
example : Prepared (α := ℚ) (.obj false true (uniformF 1) (uniformSupport 1) 2) [0, 1/3, 1/3, 1/3, 0] true := by
  unfold Prepared
  refine ⟨?_, rfl⟩
  simp [slidingWindow, uniformSupport, uniformF, evaluate, samplePoint, absv, ind, List.range, List.range.loop]
  norm_num

/-- a user-defined kernel whose function returns 0 at the edge of its support (`[1/2, 1/4, 0]` at
`|x| = 0, 1, 2`, support 2.5): the window `[0, 1/4, 1/2, 1/4, 0]` -/
example : slidingWindow (tableF [(1 : ℚ) / 2, 1 / 4, 0]) (5 / 2) 2 = .ok [0, 1/4, 1/2, 1/4, 0] := by
  simp [slidingWindow, tableF, tableFrom, evaluate, samplePoint, absv, ind, List.range, List.range.loop]
  norm_num

/-- the weight list `[0,1,0]` on `[1, NaN, 3]`: the window of index 1 holds two valid samples of weight 0 —
no weighted mean, the output is NaN; the call does not fail (numpy weights) -/
example : execute (α := ℚ) [some 1, none, some 3] (.list [0, 1, 0]) = .ok (some [0, 1, 0], [some 1, none, some 3]) := by
  simp [execute, prepare, normalise, filterWindowG, cells, inner, sample, anySample, copyBoundary, List.range, List.range.loop,
    List.zipIdx]

/-- a 3-point track under the 5-tap window of `UniformKernel(1)` with filtered boundaries: every window
overhangs both ends, each output is the mean renormalised over the samples inside the track -/
example : filterWindow (α := ℚ) [some 0, some 10, some 0] [0, 1/3, 1/3, 1/3, 0] true
    = .ok [some 5, some (10/3), some 5] := by
  simp [filterWindow, filterWindowG, cells, inner, sample, List.range, List.range.loop]
  norm_num

/-- … in the domain of `short_track_filtered` (positive centre weight, no NaN) -/
example : InDomain (α := ℚ) [some 0, some 10, some 0] [0, 1/3, 1/3, 1/3, 0] true := by
  apply inDomain_of_centre_weight _ _ _ (by decide) _ (1/3) rfl (by norm_num)
  · intro i hi
    have : i = 0 ∨ i = 1 ∨ i = 2 := by simp at hi; omega
    rcases this with rfl | rfl | rfl <;> exact ⟨_, rfl⟩
  · intro h; cases h
  · intro w hw; simp at hw; rcases hw with rfl | rfl | rfl <;> norm_num

/-- the same track with copied boundaries (`D = 2 ≤ 3 < 5`) is returned unchanged … -/
example : filterWindow (α := ℚ) [some 0, some 10, some 0] [0, 1/3, 1/3, 1/3, 0] false
    = .ok [some 0, some 10, some 0] := by
  simp [filterWindow, filterWindowG, cells, inner, sample, copyBoundary, List.range, List.range.loop]
  norm_num

/-- … and a 1-point track (`1 < D = 2`) makes the boundary copy fail -/
example : filterWindow (α := ℚ) [some 7] [0, 1/3, 1/3, 1/3, 0] false = .error .index := by
  simp [filterWindow, filterWindowG, cells, inner, sample, List.range, List.range.loop]

/-- the sliding window of `SphericKernel(2)`: `f(±1) = 1 - (3/4 - 1/16) = 5/16`, `f(±2) = 0` -/
example : slidingWindow (sphericF (2 : ℚ)) (sphericSupport 2) 2 = .ok [0, 5/26, 8/13, 5/26, 0] := by
  simp [slidingWindow, sphericSupport, sphericF, powN, evaluate, samplePoint, absv, ind, List.range, List.range.loop]
  norm_num

/-- the sliding window of `CubicKernel(2)`: `f(±1) = 1 - (7/4 - 35/32 + 7/64 - 3/512) = 123/512` -/
example : slidingWindow (cubicF (2 : ℚ)) (cubicSupport 2) 2 = .ok [0, 123/758, 256/379, 123/758, 0] := by
  simp [slidingWindow, cubicSupport, cubicF, powN, evaluate, samplePoint, absv, ind, List.range, List.range.loop]
  norm_num

/-- `dim="xy"` is walked character by character -/
example : dimNames Globals.initial (.str "xy") = some ["x", "y"] := by decide

/-! ## The algebraic form `track.operate("out = in ! w")` -/

/-- **T1 for the algebraic form of the filter** `track.operate("out = in ! w")` (also written `"out = in .* w"`), and
`track.operate("in ! w")` without left-hand side (`out = none`), for two names `in`, `w` that are features or
coordinates of a non-empty track holding no temporary (`#…`) feature, `w` without NaN and with a non-zero sum, `in`
in the domain for the weights `w`: the call succeeds; with a left-hand side it returns nothing and `out` (a feature,
new or not, or a coordinate `x`, `y`, `z`) holds the signal of renormalised weighted means; without one that signal is
returned; every other signal of the track — the temporary `#0` / `#output` are gone — reads as before. -/
theorem algebraic_is_mean (t : Sigs α) (out : Option String) (afIn name : String) (ws v : List (Option α))
    (hk : getSig t name = some ws) (hnan : ws.any (·.isNone) = false) (hsum : (ws.filterMap id).sum ≠ 0)
    (hv : getSig t afIn = some v) (hsize : trackSize t ≠ 0) (hin : InDomain v (ws.filterMap id) false)
    (htmp : ∀ p ∈ t, isTemp p.1 = false) (hout : ∀ o, out = some o → isTemp o = false) :
    ∃ t', operateAlgebraic t out afIn name =
        .ok ((match out with | some _ => none | none => some (meanSignal v (ws.filterMap id) false)), t') ∧
      (∀ o, out = some o → getSig t' o = some (meanSignal v (ws.filterMap id) false)) ∧
      (∀ nm, (∀ o, out = some o → nm ≠ o) → getSig t' nm = getSig t nm) := by
  obtain ⟨k', t1, hop, hget, hoth⟩ := operate_is_mean t afIn "#0" (.list (ws.filterMap id)) (ws.filterMap id) false
    ⟨rfl, rfl, hsum⟩ v (by decide) hsize hv hin
  have hfeat := feature_kernel_is_list t afIn "#0" name ws hk hnan
  rw [hop] at hfeat
  simp only at hfeat
  have htempTrue : isTemp "#0" = true := by decide
  -- reading the final track
  have hread : ∀ (lhs nm : String), nm ≠ lhs →
      getSig ((assignAF t1 lhs "#0" (meanSignal v (ws.filterMap id) false)).filter (fun p => !(isTemp p.1))) nm = getSig t nm := by
    intro lhs nm hne
    rw [getSig_dropTemp]
    cases hT : isTemp nm with
    | true =>
      simp only [if_true]
      exact (getSig_eq_none_of_forall t nm isTemp htmp hT).symm
    | false =>
      simp only [Bool.false_eq_true, if_false]
      have h0 : nm ≠ "#0" := by
        intro e; rw [e, htempTrue] at hT; cases hT
      rw [getSig_assignAF_other _ _ _ _ _ hne h0, hoth nm h0]
  cases out with
  | some o =>
    have ho : isTemp o = false := hout o rfl
    have ho0 : o ≠ "#0" := by
      intro e; rw [e, htempTrue] at ho; cases ho
    refine ⟨(assignAF t1 o "#0" (meanSignal v (ws.filterMap id) false)).filter (fun p => !(isTemp p.1)), ?_, ?_, ?_⟩
    · unfold operateAlgebraic
      rw [hfeat]
      rfl
    · intro o' ho'
      cases ho'
      rw [getSig_dropTemp, ho]
      simp only [Bool.false_eq_true, if_false]
      exact getSig_assignAF_same _ _ _ _ ho0
    · intro nm hnm
      exact hread _ nm (hnm o rfl)
  | none =>
    refine ⟨(assignAF t1 "#output" "#0" (meanSignal v (ws.filterMap id) false)).filter (fun p => !(isTemp p.1)), ?_, ?_, ?_⟩
    · unfold operateAlgebraic
      rw [hfeat]
      simp only [Option.getD_none]
      rw [getSig_assignAF_same _ _ _ _ (by decide)]
    · intro o ho; cases ho
    · intro nm _
      rw [getSig_dropTemp]
      cases hT : isTemp nm with
      | true =>
        simp only [if_true]
        exact (getSig_eq_none_of_forall t nm isTemp htmp hT).symm
      | false =>
        simp only [Bool.false_eq_true, if_false]
        have h0 : nm ≠ "#0" := by
          intro e; rw [e, htempTrue] at hT; cases hT
        have h1 : nm ≠ "#output" := by
          intro e; rw [e] at hT; revert hT; decide
        rw [getSig_assignAF_other _ _ _ _ _ h1 h0, hoth nm h0]

/-- non-vacuity: `track.operate("b = a ! w")` on a three-point track with `a = [0, 10, 0]`, `w = [1, 2, 1]` … -/
example : operateAlgebraic (α := ℚ) [("x", [some 0, some 1, some 2]), ("a", [some 0, some 8, some 4]), ("w", [some 1, some 2, some 1])]
    (some "b") "a" "w"
    = .ok (none, [("x", [some 0, some 1, some 2]), ("a", [some 0, some 8, some 4]), ("w", [some 1, some 2, some 1]), ("b", [some 0, some 5, some 4])]) := by
  simp [operateAlgebraic, operate, resolve, prepare, normalise, reservedName, trackSize, getSig, createAF, setSig, assignAF, isTemp,
    filterWindowG, cells, inner, sample, copyBoundary, anySample, List.range, List.range.loop, List.zipIdx]
  norm_num

/-! ## Locality: an output depends on the samples of its own window only (any scalar type, IEEE doubles included) -/
section locality
variable {β : Type} [Add β] [Mul β] [Div β] [OfNat β 0] [BEq β]

/-- **Locality (`filter_local`)** For ANY scalar type with `+`, `*`, `/`, `0` and `==` — no law of arithmetic is
assumed, so this is also a statement about the IEEE doubles the Python computes with (`filter_local_float`), where
the theorems over an ordered field say nothing: two signals of the same length that agree at every index at distance
at most `D = N / 2` of `i` are given the same value at `i` by `Filter.execute` (when both calls succeed), bit for bit.
The samples outside the window of `i` — however large — play no part in `out[i]`. -/
theorem filter_local (v v' : List (Option β)) (k : List β) (boundary np : Bool) (i : Nat)
    (hlen : v.length = v'.length)
    (hnear : ∀ m, i ≤ m + k.length / 2 → m ≤ i + k.length / 2 → v[m]? = v'[m]?)
    (out out' : List (Option β))
    (ho : filterWindowG v k boundary np = .ok out) (ho' : filterWindowG v' k boundary np = .ok out') :
    out[i]? = out'[i]? :=
  filterWindowG_local v v' k boundary np i ⟨hlen, hnear⟩ out out' ho ho'

/-- **A sample outside the window is not seen** Replacing the sample at an index `m` further than `D` from `i`
by any value (`v.set m x`; a first record of another order of magnitude, a sentinel) leaves `out[i]` as it is. -/
theorem filter_far_sample (v : List (Option β)) (k : List β) (boundary np : Bool) (i m : Nat) (x : Option β)
    (hfar : m + k.length / 2 < i ∨ i + k.length / 2 < m) (out out' : List (Option β))
    (ho : filterWindowG v k boundary np = .ok out) (ho' : filterWindowG (v.set m x) k boundary np = .ok out') :
    out[i]? = out'[i]? := by
  refine filter_local v (v.set m x) k boundary np i (by simp) ?_ out out' ho ho'
  intro j h1 h2
  rw [List.getElem?_set_ne (by omega)]

/-- **Locality for `Filter.execute` as a whole** (weight list normalised in place / Kernel object / Dirac): the
kernel preparation does not look at the signal, so the same holds for the method itself, `D` being the half length of
the prepared window. -/
theorem execute_local [Sub β] [Neg β] [LT β] [LE β] [DecidableLT β] [DecidableLE β] [OfNat β 1] [NatCast β]
    (v v' : List (Option β)) (kern : KArg β) (i : Nat) (kp : Option (List β)) (w : List β) (b np : Bool)
    (hprep : prepare kern = .ok (kp, w, b, np)) (hlen : v.length = v'.length)
    (hnear : ∀ m, i ≤ m + w.length / 2 → m ≤ i + w.length / 2 → v[m]? = v'[m]?)
    (k1 k2 : Option (List β)) (out out' : List (Option β))
    (ho : execute v kern = .ok (k1, out)) (ho' : execute v' kern = .ok (k2, out')) :
    out[i]? = out'[i]? := by
  unfold execute at ho ho'
  rw [hprep] at ho ho'
  simp only at ho ho'
  cases h1 : filterWindowG v w b np with
  | error e => rw [h1] at ho; cases ho
  | ok o1 =>
    cases h2 : filterWindowG v' w b np with
    | error e => rw [h2] at ho'; cases ho'
    | ok o2 =>
      rw [h1] at ho; rw [h2] at ho'
      cases ho; cases ho'
      exact filter_local v v' w b np i hlen hnear _ _ h1 h2
end locality

/-- `filter_local` at the IEEE doubles of the Lean runtime (the scalar type of the driver's float streams) -/
theorem filter_local_float (v v' : List (Option Float)) (k : List Float) (boundary np : Bool) (i : Nat)
    (hlen : v.length = v'.length)
    (hnear : ∀ m, i ≤ m + k.length / 2 → m ≤ i + k.length / 2 → v[m]? = v'[m]?)
    (out out' : List (Option Float))
    (ho : filterWindowG v k boundary np = .ok out) (ho' : filterWindowG v' k boundary np = .ok out') :
    out[i]? = out'[i]? :=
  filter_local v v' k boundary np i hlen hnear out out' ho ho'

/-- non-vacuity of the locality theorems: a first record of another order of magnitude followed by a constant stretch
(`[1.7e9, 0.1, 0.1, 0.1, 0.1]`, weights `[1,2,1]/4`): the call succeeds, the windows that do not hold the first record
return `1/10`, and so they do when the first record is `1/10` as well. -/
example : filterWindow (α := ℚ) [some 1700000000, some (1/10), some (1/10), some (1/10), some (1/10)] [1/4, 1/2, 1/4] false
    = .ok [some 1700000000, some (17000000003/40), some (1/10), some (1/10), some (1/10)] := by
  simp [filterWindow, filterWindowG, cells, inner, sample, copyBoundary, List.range, List.range.loop]
  norm_num

example : filterWindow (α := ℚ) ([some 1700000000, some (1/10), some (1/10), some (1/10), some (1/10)].set 0 (some (1/10))) [1/4, 1/2, 1/4] false
    = .ok [some (1/10), some (1/10), some (1/10), some (1/10), some (1/10)] := by
  simp [filterWindow, filterWindowG, cells, inner, sample, copyBoundary, List.range, List.range.loop]
  norm_num

end TV.C15
