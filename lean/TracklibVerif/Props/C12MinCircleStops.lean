import TracklibVerif.Props.C12
import TracklibVerif.Props.C12MinCircle
import TracklibVerif.Lemmas.MinCircleStops
set_option linter.unusedSectionVars false
/-! # C12 — `findStopsGlobal`'s reward matrix with the circles computed by the MODEL of `minCircle`

`stops_fit_in_circle` (Props/C12.lean) takes `minCircle`'s answers as a table with two hypotheses: every circle encloses its
segment (`hc`) and is minimal (`hmin`). Here the table is `circOfMinCircle` — `minCircleOfPoints` run on the fixes of each
segment with its own draw sequence — and minimality is PROVED (`mincircle_enclosing_is_minimal`): the only hypothesis left is
the certificate that the answers enclose their segments, which is what can fail (`mincircle_not_enclosing`) and what the
driver evaluates on every case (`enc`, `enclosedB`). -/
namespace TV.C12
open TV.Partition TV.MinCircle
variable {K : Type} [Field K] [LinearOrder K] [IsStrictOrderedRing K]

/-- **T3 `stops_fit_in_circle_mincircle`** — `findStopsGlobal`'s reward matrix with `minCircle` as modelled, for EVERY draw
sequence of every call: if the circles returned enclose their segments (`henc`) and the call for `p_a … p_{b−1}` did not
return `None`, the reward of `(a, b)` is `(b − a)²` exactly when the segment lasts at least `duration` and its observations fit in
SOME disc of diameter at most `diameter` — the documented criterion; `0` otherwise. No minimality hypothesis. -/
theorem stops_fit_in_circle_mincircle (sq : Nat → K) (tr : Nat → Fix K) (eps : K) (draw : Nat → Nat → Nat → Nat)
    (diameter duration : K) (hd : 0 ≤ diameter) (size : Nat)
    (henc : ∀ i e c, i ≤ e → e < size → (minCircleOfPoints eps (draw i e) (segPts tr i e)).1 = .circ c →
      encloses c (segPts tr i e) = true)
    (a b : Nat) (hab : a < b) (hb : b ≤ size - 2) (hs : 3 ≤ size)
    (hsome : (minCircleOfPoints eps (draw a (b - 1)) (segPts tr a (b - 1))).1 ≠ .none) :
    let circ2 := circOfMinCircle eps draw tr size
    let fits := duration ≤ (tr (b - 1)).t - (tr a).t ∧
      ∃ cx cy r2, Enclosed tr cx cy r2 a (b - 1) ∧ 4 * r2 ≤ diameter * diameter
    (fits → stopsReward 0 sq (stopPredTrack 0 tr circ2 diameter duration) size a b = sq (b - a)) ∧
    (¬ fits → stopsReward 0 sq (stopPredTrack 0 tr circ2 diameter duration) size a b = 0) := by
  intro circ2 fits
  -- what an entry `some c` of the table is
  have entry : ∀ i e c, circ2 i e = some c → i ≤ e ∧ e < size ∧
      ∃ c0, (minCircleOfPoints eps (draw i e) (segPts tr i e)).1 = .circ c0 ∧ c = 4 * c0.r2 := by
    intro i e c h
    simp only [circ2, circOfMinCircle] at h
    by_cases hie : i ≤ e ∧ e < size
    · rw [if_pos hie] at h
      cases hm : (minCircleOfPoints eps (draw i e) (segPts tr i e)).1 with
      | circ c0 => rw [hm] at h; simp only [Option.some.injEq] at h; exact ⟨hie.1, hie.2, c0, rfl, h.symm⟩
      | none => rw [hm] at h; cases h
      | random => rw [hm] at h; cases h
      | stuck => rw [hm] at h; cases h
    · rw [if_neg hie] at h; cases h
  refine stops_fit_in_circle sq tr circ2 diameter duration hd size ?_ ?_ a b hab hb hs ?_
  · intro i e c _ _ h
    obtain ⟨h1, h2, c0, hm, rfl⟩ := entry i e c h
    exact ⟨c0.cx, c0.cy, c0.r2, rfl, enclosed_of_enc tr c0 i e (encloses_sound c0 _ (henc i e c0 h1 h2 hm))⟩
  · intro i e c h cx cy r2 hE
    obtain ⟨h1, h2, c0, hm, rfl⟩ := entry i e c h
    have h0 : 0 ≤ r2 := le_trans (add_nonneg (mul_self_nonneg _) (mul_self_nonneg _)) (hE i (Nat.le_refl _) h1)
    have := (mincircle_enclosing_is_minimal eps (draw i e) (segPts tr i e) c0 hm (henc i e c0 h1 h2 hm)).2
      ⟨cx, cy, r2⟩ h0 (enc_of_enclosed tr cx cy r2 i e hE)
    linarith
  · obtain ⟨R', e, _, _⟩ := mincircle_answer eps (draw a (b - 1)) (segPts tr a (b - 1))
    intro hnone
    simp only [circ2, circOfMinCircle] at hnone
    rw [if_pos ⟨by omega, by omega⟩] at hnone
    cases hm : (minCircleOfPoints eps (draw a (b - 1)) (segPts tr a (b - 1))).1 with
    | circ c0 => rw [hm] at hnone; cases hnone
    | none => exact hsome hm
    | random => rw [hm] at e; exact (base_ne_random R').1 e.symm
    | stuck => rw [hm] at e; exact (base_ne_random R').2 e.symm

end TV.C12
