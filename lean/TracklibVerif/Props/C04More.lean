import TracklibVerif.Props.C04Slice
import TracklibVerif.Model.SeqMore
/-! # C04, part 3 — the remaining operations on the observation list (`Model/SeqMore.lean`)

`reverse`, `makeOdd` / `makeEven`, `setObs` / `track[i] = obs`, `getFirstObs` / `getLastObs`, the even split
`track / n`, `removeObsList` with timestamps: which observations each selects, and where each raises. -/
namespace TV.C04
open TV.Seq
variable {α : Type}

/-- `reverse()` never raises and returns all the observations, the last one first, with the feature table of the
source (names and columns); it is `track[::-1]`; every observation reads what it read in the source -/
theorem reverse_spec (tr : Track) :
    reverseTrack tr = some ⟨tr.pts.reverse, tr.table⟩ ∧ reverseTrack tr = getitemSlice tr none none (some (-1)) ∧
      Carries ⟨tr.pts.reverse, tr.table⟩ tr := by
  have h : reverseTrack tr = getitemSlice tr none none (some (-1)) := rfl
  exact ⟨h.trans (getitemSlice_reversed tr), h, carries_intro rfl (fun o ho => List.mem_reverse.mp ho)⟩

/-- reversing twice gives the track back -/
theorem reverse_reverse (tr : Track) : (reverseTrack tr).bind reverseTrack = some tr := by
  rw [(reverse_spec tr).1, Option.bind_some, (reverse_spec _).1]
  simp

/-- `makeOdd()`: an even non-empty track loses its last observation, an odd one is unchanged — the size is odd
afterwards and the observations are a prefix of the old ones; on the EMPTY track (size 0 is even) the `pop` raises
`IndexError`. `makeEven()` never raises: an odd track loses its last observation, an even one (the empty one too) is
unchanged. -/
theorem makeOdd_makeEven_spec (l : List α) :
    (makeOdd l = none ↔ l = []) ∧
    (∀ r, makeOdd l = some r → r = l.take r.length ∧ r.length % 2 = 1 ∧
      r.length = if l.length % 2 = 0 then l.length - 1 else l.length) ∧
    (∃ r, makeEven l = some r ∧ r = l.take r.length ∧ r.length % 2 = 0 ∧
      r.length = if l.length % 2 = 1 then l.length - 1 else l.length) := by
  refine ⟨?_, ?_, ?_⟩
  · unfold makeOdd pyPop
    cases l with
    | nil => simp
    | cons x xs => by_cases h : (xs.length + 1) % 2 = 0 <;> simp [h]
  · intro r hr
    unfold makeOdd pyPop at hr
    by_cases h : l.length % 2 = 0
    · rw [if_pos h] at hr
      cases l with
      | nil => simp at hr
      | cons x xs =>
        simp only [List.isEmpty_cons, Bool.false_eq_true, if_false, Option.some.injEq] at hr
        subst hr
        have hl : ((x :: xs).dropLast).length = (x :: xs).length - 1 := List.length_dropLast
        have hlen : (x :: xs).length = xs.length + 1 := rfl
        refine ⟨?_, by omega, by rw [if_pos h]; exact hl⟩
        rw [hl, List.dropLast_eq_take]
    · rw [if_neg h] at hr
      cases hr
      exact ⟨by simp, by omega, by rw [if_neg h]⟩
  · unfold makeEven pyPop
    by_cases h : l.length % 2 = 1
    · rw [if_pos h]
      cases l with
      | nil => simp at h
      | cons x xs =>
        have hl : ((x :: xs).dropLast).length = (x :: xs).length - 1 := List.length_dropLast
        have hlen : (x :: xs).length = xs.length + 1 := rfl
        refine ⟨(x :: xs).dropLast, by simp, ?_, by omega, by rw [if_pos h]; exact hl⟩
        rw [hl, List.dropLast_eq_take]
    · rw [if_neg h]
      exact ⟨l, rfl, by simp, by omega, by rw [if_neg h]⟩

/-- `setObs(i, obs)` / `track[i] = obs`: with `0 ≤ i < size` exactly the position `i` is replaced (it holds the new
observation, every other position its old one, the size is unchanged); `-size ≤ i < 0` designates the position
`size + i`; any other index raises `IndexError` -/
theorem setObs_spec (l : List α) (x : α) (i : Int) :
    (∀ k : Nat, k < l.length → (i = (k : Int) ∨ i = (k : Int) - (l.length : Int)) →
      pySet l i x = some (l.set k x) ∧ (l.set k x)[k]? = some x ∧ (l.set k x).length = l.length ∧
      ∀ j : Nat, j ≠ k → (l.set k x)[j]? = l[j]?) ∧
    (pySet l i x = none ↔ (l.length : Int) ≤ i ∨ i < -(l.length : Int)) := by
  constructor
  · intro k hk hi
    refine ⟨?_, by simp [hk], by simp, fun j hj => by rw [List.getElem?_set_ne (Ne.symm hj)]⟩
    unfold pySet
    rcases hi with hi | hi
    · have h0 : (0 : Int) ≤ i := by omega
      have e : i.toNat = k := by omega
      simp only [h0, if_true, e, hk]
    · have h0 : ¬ ((0 : Int) ≤ i) := by omega
      have h1 : (0 : Int) ≤ (l.length : Int) + i := by omega
      have e : ((l.length : Int) + i).toNat = k := by omega
      simp only [h0, h1, if_true, if_false, e]
  · unfold pySet
    by_cases h0 : 0 ≤ i
    · by_cases h1 : i.toNat < l.length
      · simp only [h0, h1, if_true, reduceCtorEq, false_iff]; omega
      · simp only [h0, h1, if_true, if_false, true_iff]; omega
    · by_cases h1 : 0 ≤ (l.length : Int) + i
      · simp only [h0, h1, if_true, if_false, reduceCtorEq, false_iff]; omega
      · simp only [h0, h1, if_false, true_iff]; omega

/-- `getFirstObs()` / `getLastObs()`: the first / the last observation of a non-empty track; `IndexError` on the empty one -/
theorem firstLast_spec (l : List α) :
    getFirst l = l.head? ∧ getLast l = l.getLast? ∧ (l = [] → getFirst l = none ∧ getLast l = none) := by
  have h1 : getFirst l = l.head? := by simp [getFirst, pyGet, List.head?_eq_getElem?]
  have h2 : getLast l = l.getLast? := by
    unfold getLast pyGet
    cases l with
    | nil => simp
    | cons x xs =>
      have h0 : (0 : Int) ≤ ((x :: xs).length : Int) - 1 := by simp only [List.length_cons]; omega
      have e : (((x :: xs).length : Int) - 1).toNat = (x :: xs).length - 1 := by simp only [List.length_cons]; omega
      rw [if_pos h0, e, List.getLast?_eq_getElem?]
  exact ⟨h1, h2, fun h => by subst h; simp [h1, h2]⟩

theorem flatMap_segments (l : List α) (N : Nat) : ∀ k : Nat, k * N ≤ l.length →
    (List.range k).flatMap (fun i => (l.take (min ((i + 1) * N) l.length)).drop (i * N)) = l.take (k * N)
  | 0, _ => by simp
  | k + 1, h => by
    have hk : k * N ≤ l.length := by
      have : k * N ≤ (k + 1) * N := Nat.mul_le_mul_right N (by omega)
      omega
    rw [List.range_succ, List.flatMap_append, flatMap_segments l N k hk]
    simp only [List.flatMap_cons, List.flatMap_nil, List.append_nil]
    rw [Nat.min_eq_left h]
    have e : (k + 1) * N = k * N + N := by rw [Nat.add_mul, Nat.one_mul]
    have e2 : (k + 1) * N - k * N = N := by omega
    rw [List.drop_take, e2, e, List.take_add]

/-- `track / number` with `number ≥ 1` (`N = size / number`, integer quotient): never raises; returns `number`
segments, the `i`-th being exactly the observations `i·N, …, i·N + N - 1` in order, each with the source's feature
table; one after the other they are the first `number·N` observations of the track. The LAST `size mod number`
observations are in no segment. (`number = 0`: `ZeroDivisionError`; `number < 0`: no segment at all.) -/
theorem splitEven_spec (tr : Track) (number : Nat) (hn : 1 ≤ number) :
    ∃ segs : List Track, splitEven tr (number : Int) = some segs ∧ segs.length = number ∧
      (∀ i : Nat, i < number → ∃ sg, segs[i]? = some sg ∧ sg.table = tr.table ∧ Carries sg tr ∧
        sg.pts = (tr.pts.drop (i * (tr.pts.length / number))).take (tr.pts.length / number) ∧
        sg.pts.length = tr.pts.length / number) ∧
      segs.flatMap (·.pts) = tr.pts.take (number * (tr.pts.length / number)) ∧
      tr.pts.length - number * (tr.pts.length / number) = tr.pts.length % number := by
  have h0 : ¬ ((number : Int) = 0) := by omega
  have hmul : number * (tr.pts.length / number) ≤ tr.pts.length := Nat.mul_div_le _ _
  refine ⟨(List.range number).map (fun i => transmitAF ((tr.pts.take (min ((i + 1) * (tr.pts.length / number))
    tr.pts.length)).drop (i * (tr.pts.length / number))) tr), ?_, by simp, ?_, ?_, ?_⟩
  · simp only [splitEven, if_neg h0, Int.toNat_natCast]
  · intro i hi
    have hle : (i + 1) * (tr.pts.length / number) ≤ tr.pts.length := by
      have : (i + 1) * (tr.pts.length / number) ≤ number * (tr.pts.length / number) :=
        Nat.mul_le_mul_right _ (by omega)
      omega
    have e : (i + 1) * (tr.pts.length / number) = i * (tr.pts.length / number) + tr.pts.length / number := by
      rw [Nat.add_mul, Nat.one_mul]
    refine ⟨transmitAF ((tr.pts.take (min ((i + 1) * (tr.pts.length / number)) tr.pts.length)).drop
      (i * (tr.pts.length / number))) tr, by simp [hi], rfl, ?_, ?_, ?_⟩
    · exact carries_intro rfl (fun o ho => List.mem_of_mem_take (List.mem_of_mem_drop ho))
    · show (tr.pts.take _).drop _ = _
      rw [Nat.min_eq_left hle, e, List.drop_take, Nat.add_sub_cancel_left]
    · show ((tr.pts.take _).drop _).length = _
      rw [Nat.min_eq_left hle, List.length_drop, List.length_take, Nat.min_eq_left hle, e, Nat.add_sub_cancel_left]
  · rw [List.flatMap_map]
    exact flatMap_segments tr.pts (tr.pts.length / number) number hmul
  · have := Nat.div_add_mod tr.pts.length number
    omega

/-- `track / 0` raises `ZeroDivisionError`; a negative number gives an empty collection -/
theorem splitEven_boundary (tr : Track) (number : Int) :
    (splitEven tr number = none ↔ number = 0) ∧ (number < 0 → splitEven tr number = some []) := by
  constructor
  · unfold splitEven
    by_cases h : number = 0 <;> simp [h]
  · intro h
    have h0 : ¬ (number = 0) := by omega
    have e : number.toNat = 0 := by omega
    simp only [splitEven, if_neg h0, e, List.range_zero, List.map_nil]

/-! ### `removeObsList` with timestamps -/

theorem removeFirstTime_spec : ∀ (l : List Obs) (t : Int),
    ((removeFirstTime l t).1).Sublist l ∧ (removeFirstTime l t).1.length + (removeFirstTime l t).2 = l.length ∧
    (t ∉ l.map (·.time) → removeFirstTime l t = (l, 0)) ∧
    ((l.map (·.time)).Nodup → (removeFirstTime l t).1 = l.filter (fun o => !(o.time == t)))
  | [], t => by simp [removeFirstTime]
  | o :: os, t => by
    obtain ⟨ih1, ih2, ih3, ih4⟩ := removeFirstTime_spec os t
    by_cases h : o.time = t
    · simp only [removeFirstTime, if_pos h]
      refine ⟨List.sublist_cons_self o os, by simp, ?_, ?_⟩
      · intro hn; exact absurd (by simp [h]) hn
      · intro hnd
        have hnd' := List.nodup_cons.mp (show (o.time :: os.map (·.time)).Nodup from hnd)
        have : (o.time == t) = true := by simp [h]
        rw [List.filter_cons_of_neg (by simp [this])]
        symm
        apply List.filter_eq_self.mpr
        intro a ha
        have : a.time ≠ t := by
          intro hat
          apply hnd'.1
          rw [h, ← hat]
          exact List.mem_map_of_mem ha
        simp [this]
    · simp only [removeFirstTime, if_neg h]
      refine ⟨ih1.cons_cons o, by simp only [List.length_cons]; omega, ?_, ?_⟩
      · intro hn
        have : t ∉ os.map (·.time) := by
          intro hm; apply hn; simp only [List.map_cons, List.mem_cons]; exact Or.inr hm
        rw [ih3 this]
      · intro hnd
        have hnd' := List.nodup_cons.mp (show (o.time :: os.map (·.time)).Nodup from hnd)
        have : (o.time == t) = false := by simp [h]
        rw [List.filter_cons_of_pos (by simp [this]), ih4 hnd'.2]

theorem removeTimesLoop_spec : ∀ (s : List Int) (l : List Obs) (c : Nat),
    ((removeTimesLoop s l c).1).Sublist l ∧ (removeTimesLoop s l c).1.length + (removeTimesLoop s l c).2 = l.length + c ∧
    ((l.map (·.time)).Nodup → (removeTimesLoop s l c).1 = l.filter (fun o => !s.contains o.time))
  | [], l, c => by
    refine ⟨by simp [removeTimesLoop], by simp [removeTimesLoop], fun _ => ?_⟩
    show l = _
    exact (List.filter_eq_self.mpr (by simp)).symm
  | t :: rest, l, c => by
    obtain ⟨h1, h2, _, h4⟩ := removeFirstTime_spec l t
    obtain ⟨i1, i2, i3⟩ := removeTimesLoop_spec rest (removeFirstTime l t).1 (c + (removeFirstTime l t).2)
    simp only [removeTimesLoop]
    refine ⟨i1.trans h1, by omega, ?_⟩
    intro hnd
    have hnd' : (((removeFirstTime l t).1).map (·.time)).Nodup := (h1.map _).nodup hnd
    rw [i3 hnd', h4 hnd, List.filter_filter]
    apply List.filter_congr
    intro o _
    simp only [List.contains_cons, Bool.not_or, Bool.and_comm]

/-- `removeObsList(tab)` with timestamps. In every case the observations left are a sub-sequence of the old ones (order
kept, nothing altered) and the number returned is the number removed. When the timestamps of `tab` are distinct and
those of the track are distinct too, exactly the observations whose timestamp is not in `tab` are left. (On a track
with repeated timestamps only the FIRST observation of each listed timestamp is removed: `removeFirstTime`.) -/
theorem removeByTimes_spec (l : List Obs) (tab : List Int) :
    ((removeByTimes l tab).1).Sublist l ∧ (removeByTimes l tab).1.length + (removeByTimes l tab).2 = l.length ∧
    (tab.Nodup → (l.map (·.time)).Nodup → (removeByTimes l tab).1 = l.filter (fun o => !tab.contains o.time)) := by
  unfold removeByTimes
  cases tab with
  | nil =>
    simp only [List.isEmpty_nil, if_true]
    exact ⟨List.Sublist.refl l, by simp, fun _ _ => (List.filter_eq_self.mpr (by simp)).symm⟩
  | cons t ts =>
    have hperm := List.mergeSort_perm (t :: ts) (fun a b => decide (a ≤ b))
    simp only [List.isEmpty_cons, Bool.false_eq_true, if_false]
    by_cases hadj : hasAdjDup ((t :: ts).mergeSort (fun a b => decide (a ≤ b))) = true
    · rw [if_pos hadj]
      refine ⟨List.Sublist.refl l, by simp, ?_⟩
      intro hn _
      exact absurd (hperm.nodup_iff.mpr hn) (fun hnd => hasAdjDup_true_not_nodup _ hadj hnd)
    · rw [if_neg hadj]
      obtain ⟨h1, h2, h3⟩ := removeTimesLoop_spec ((t :: ts).mergeSort (fun a b => decide (a ≤ b))) l 0
      refine ⟨h1, by omega, ?_⟩
      intro _ hnd
      rw [h3 hnd]
      apply List.filter_congr
      intro o _
      rw [hperm.contains_eq]

/-- a repeated timestamp in the list is refused: nothing removed, 0 returned -/
theorem removeByTimes_refuses_duplicates (l : List Obs) (tab : List Int) (hn : ¬ tab.Nodup) :
    removeByTimes l tab = (l, 0) := by
  unfold removeByTimes
  cases tab with
  | nil => simp
  | cons t ts =>
    have hperm := List.mergeSort_perm (t :: ts) (fun a b => decide (a ≤ b))
    have hsorted : ((t :: ts).mergeSort (fun a b => decide (a ≤ b))).Pairwise (· ≤ ·) := by
      have := List.pairwise_mergeSort (le := fun (a b : Int) => decide (a ≤ b))
        (by intro a b c; simp only [decide_eq_true_eq]; omega)
        (by intro a b; simp only [Bool.or_eq_true, decide_eq_true_eq]; omega) (t :: ts)
      exact this.imp (by intro a b h; simpa using h)
    have hadj : hasAdjDup ((t :: ts).mergeSort (fun a b => decide (a ≤ b))) = true := by
      cases h : hasAdjDup ((t :: ts).mergeSort (fun a b => decide (a ≤ b))) with
      | true => rfl
      | false =>
        exfalso
        apply hn
        apply hperm.nodup_iff.mp
        exact (hasAdjDup_false_lt _ hsorted h).imp (by intro a b h; omega)
    simp [hadj]

/-! ## non-vacuity and witnesses -/

example : (splitEven ⟨[⟨0, 1, []⟩, ⟨1, 2, []⟩, ⟨2, 3, []⟩, ⟨3, 4, []⟩, ⟨4, 5, []⟩], []⟩ 2).map
    (fun sg => sg.map (fun t => t.pts.map (·.tag))) = some [[0, 1], [2, 3]] := by decide +kernel
example : (reverseTrack ⟨[⟨0, 1, [7]⟩, ⟨1, 2, [8]⟩], [("f", 0)]⟩) = some ⟨[⟨1, 2, [8]⟩, ⟨0, 1, [7]⟩], [("f", 0)]⟩ := by
  decide +kernel
example : makeOdd ([] : List Nat) = none ∧ makeOdd [1, 2] = some [1] ∧ makeEven [1, 2, 3] = some [1, 2] := by decide
example : pySet [10, 11, 12] (-1) 99 = some [10, 11, 99] ∧ pySet [10, 11, 12] 3 99 = none := by decide
/-- distinct timestamps on both sides (hypotheses of `removeByTimes_spec`); with a repeated timestamp in the track only
the first observation goes -/
example : ([3, 1] : List Int).Nodup ∧ (([⟨0, 1, []⟩, ⟨1, 3, []⟩, ⟨2, 5, []⟩] : List Obs).map (·.time)).Nodup := by decide
example : removeTimesLoop [3] [⟨0, 3, []⟩, ⟨1, 3, []⟩] 0 = ([⟨1, 3, []⟩], 1) := by decide +kernel

end TV.C04
