import TracklibVerif.Props.C12
set_option linter.unusedSectionVars false
/-! # C12 — the dispatcher `findStops(track, spatial, temporal, MODE_STOPS_GLOBAL, verbose)`

`findStops` calls `findStopsGlobal(track, spatial, temporal, verbose=verbose)`: the flag goes by keyword and `downsampling`
keeps its default 1 (model: `findStopsPy`, `dispatchDs`). Whatever `verbose` is, the dispatcher returns what
`findStopsGlobal(track, spatial, temporal)` returns. Before the repair (`fixed` entry `stops-dispatch-verbose-as-downsampling`)
the flag was passed positionally and landed in `downsampling`: `findStopsPyOld`, `find_stops_dispatch_silent_old`. -/
namespace TV.C12
open TV.Partition
variable {K : Type} [CommRing K] [LinearOrder K] [IsStrictOrderedRing K]

/-- `findStops(…, MODE_STOPS_GLOBAL)` / `(…, MODE_STOPS_GLOBAL, True)` is `findStopsGlobal(track, spatial, temporal)` with
`downsampling = 1`: everything proved about `findStopsGlobalPy` (`find_stops_global`: the stops returned are the admitted
segments of a partition maximising the documented reward) holds for the dispatcher. -/
theorem find_stops_dispatch_verbose (sq ofNat : Nat → K) (track resampled : List (Fix K)) (circ2 circA : Nat → Nat → Option K)
    (spatial temporal : K) :
    findStopsPy 0 1 sq ofNat track resampled circ2 circA spatial temporal true
      = findStopsGlobalPy 0 1 sq ofNat track resampled circ2 circA spatial temporal 1 := rfl

/-- `findStops(…, MODE_STOPS_GLOBAL, False)` returns exactly what `findStopsGlobal(track, spatial, temporal)` returns
(`downsampling = 1`): the same stops with the same identifiers (the statement that was false of the code before the repair:
`find_stops_dispatch_silent_old`). -/
theorem find_stops_dispatch_silent (sq ofNat : Nat → K) (track resampled : List (Fix K)) (circ2 circA : Nat → Nat → Option K)
    (spatial temporal : K) :
    findStopsPy 0 1 sq ofNat track resampled circ2 circA spatial temporal false
      = findStopsGlobalPy 0 1 sq ofNat track resampled circ2 circA spatial temporal 1 := rfl

/-- About the PRE-FIX variant `findStopsPyOld` only (no longer a model of any code; kept as the record of the repaired defect
`stops-dispatch-verbose-as-downsampling`): `findStops(…, MODE_STOPS_GLOBAL, False)` computed the same segmentation on the same
track as the call with `downsampling = 1` and reported the same stops in the same order with the same `nb_points`, but with
`id_ini = id_end = 0` for every one of them (`index * False`). -/
theorem find_stops_dispatch_silent_old (sq ofNat : Nat → K) (track resampled : List (Fix K)) (circ2 circA : Nat → Nat → Option K)
    (spatial temporal : K) :
    findStopsPyOld 0 1 sq ofNat track resampled circ2 circA spatial temporal false
      = (findStopsGlobalPy 0 1 sq ofNat track resampled circ2 circA spatial temporal 1).map
          (fun l => l.map (fun s => ((0 : K), (0 : K), s.2.2))) := by
  have h0 : ¬ ((1 : K) < 0) := not_lt.mpr zero_le_one
  have h1 : ¬ ((1 : K) < 1) := lt_irrefl _
  simp only [findStopsPyOld, boolNum, findStopsGlobalPy, stopsTrack, h0, h1, if_false, Bool.false_eq_true]
  split
  · rfl
  · split
    · rfl
    · simp only [Except.map, List.map_map, mul_zero]
      rfl

/-- non-vacuity: four fixes at one place then a move (the last two fixes are never part of a stop), one stop on the fixes `0 … 2`: reported as `(0, 2, 3)` by `verbose = True` and by `verbose = False`;
the pre-fix variant reported `(0, 0, 3)` for `verbose = False` (the witness of the repaired defect) -/
example :
    let tr : List (Fix Int) := [⟨0, 0, 0, 0⟩, ⟨0, 0, 0, 10⟩, ⟨0, 0, 0, 20⟩, ⟨0, 0, 0, 30⟩, ⟨50, 0, 0, 40⟩]
    findStopsPy (0 : Int) 1 (fun n => n * n) (fun n => n) tr [] (fun _ _ => some 0) (fun _ _ => some 0) 3 5 true = .ok [(0, 2, 3)]
    ∧ findStopsPy (0 : Int) 1 (fun n => n * n) (fun n => n) tr [] (fun _ _ => some 0) (fun _ _ => some 0) 3 5 false = .ok [(0, 2, 3)]
    ∧ findStopsPyOld (0 : Int) 1 (fun n => n * n) (fun n => n) tr [] (fun _ _ => some 0) (fun _ _ => some 0) 3 5 false
        = .ok [(0, 0, 3)] := by decide +kernel

end TV.C12
