import TracklibVerif.Props.C15Ext
namespace TV.C15
open TV.Filter
set_option linter.unusedSectionVars false

section generic
variable {α : Type} [Add α] [Mul α] [Div α] [OfNat α 0] [LT α] [DecidableLT α]

/-- numpy weights, boundaries copied: if the quotient of every window that reads a sample is NaN, the call raises a ZeroDivisionError iff
some window reads no sample, and otherwise returns the boundary values and NaN at every filtered index -/
theorem filterWindowX_np_nan (v k : List (Ext α)) (hodd : k.length % 2 = 1)
    (hq : ∀ i, i < v.length → anySample (toSamples v) (k.length / 2) i k 0 = true →
      (inner (toSamples v) (k.length / 2) i k 0 (0, 0)).1 / (inner (toSamples v) (k.length / 2) i k 0 (0, 0)).2 = Ext.nan) :
    ((∃ i, i < v.length ∧ anySample (toSamples v) (k.length / 2) i k 0 = false) → filterWindowX v k false true = .error .zeroDiv) ∧
    ((∀ i, i < v.length → anySample (toSamples v) (k.length / 2) i k 0 = true) → k.length / 2 ≤ v.length →
        ∃ out, filterWindowX v k false true = .ok out ∧ out.length = v.length ∧
          ∀ i, i < v.length →
            ((k.length / 2 ≤ i ∧ i < v.length - k.length / 2) → out[i]? = some .nan) ∧
            ((i < k.length / 2 ∨ v.length - k.length / 2 ≤ i) → out[i]? = v[i]?)) := by
  have hodd' : ¬ ((k.length % 2 == 0) = true) := by simp [hodd]
  refine ⟨?_, ?_⟩
  · rintro ⟨i, hi, hf⟩
    rw [filterWindowX_eq, if_neg hodd', if_pos]
    rw [List.any_eq_true]
    refine ⟨(inner (toSamples v) (k.length / 2) i k 0 (0, 0), i), ?_, ?_⟩
    · rw [mem_cells_zipIdx]; exact ⟨by rw [toSamples_length]; exact hi, rfl⟩
    · simp [hf]
  · intro hall hD
    have hany : ¬ ((cells (toSamples v) k (k.length / 2)).zipIdx.any
          (fun c => (c.1.2.isZero && !true) || !anySample (toSamples v) (k.length / 2) c.2 k 0) = true) := by
      rw [List.any_eq_true]
      rintro ⟨c, hc, hp⟩
      rw [mem_cells_zipIdx, toSamples_length] at hc
      simp [hall _ hc.1] at hp
    have htemp : ∀ i, i < v.length →
        ((cells (toSamples v) k (k.length / 2)).map (fun c => c.1 / c.2))[i]? = some .nan := by
      intro i hi
      rw [List.getElem?_map, cells_getElem?, toSamples_length, if_pos hi]
      simp only [Option.map_some]
      rw [hq i hi (hall i hi)]
    refine ⟨_, by rw [filterWindowX_eq, if_neg hodd', if_neg hany, if_neg (by simp), if_neg (by omega)], ?_, ?_⟩
    · simp
    · intro i hi
      refine ⟨?_, ?_⟩
      · intro h
        rw [List.getElem?_map, List.getElem?_range hi]
        simp only [Option.map_some]
        rw [if_neg (by omega), htemp i hi]; rfl
      · intro h
        rw [List.getElem?_map, List.getElem?_range hi]
        simp only [Option.map_some]
        rw [if_pos h]
        simp [hi]

end generic

section ordered
variable {α : Type} [Field α] [LinearOrder α] [IsStrictOrderedRing α]

/-- anything divided by `+inf` is `0` or NaN -/
theorem Ext.div_pinf_zn (x : Ext α) : x / Ext.pinf = Ext.fin 0 ∨ x / Ext.pinf = Ext.nan := by
  cases x <;> simp [Ext.div_def, Ext.div]

/-- anything divided by `-inf` is `0` or NaN -/
theorem Ext.div_ninf_zn (x : Ext α) : x / Ext.ninf = Ext.fin 0 ∨ x / Ext.ninf = Ext.nan := by
  cases x <;> simp [Ext.div_def, Ext.div]

theorem Ext.zn_add (x y : Ext α) (hx : x = Ext.fin 0 ∨ x = Ext.nan) (hy : y = Ext.fin 0 ∨ y = Ext.nan) :
    x + y = Ext.fin 0 ∨ x + y = Ext.nan := by
  rcases hx with hx | hx <;> rcases hy with hy | hy <;> subst hx <;> subst hy <;> simp [Ext.add_def, Ext.add]

/-- a weight `0` or NaN: the product is `0` (finite sample) or NaN -/
theorem Ext.mul_zn (x y : Ext α) (hy : y = Ext.fin 0 ∨ y = Ext.nan) :
    x * y = Ext.fin 0 ∨ x * y = Ext.nan := by
  rcases hy with hy | hy <;> subst hy <;> cases x <;> simp [Ext.mul_def, Ext.mul, Ext.mulInf]

/-- `0/0`, `0/nan`, `nan/0`, `nan/nan` with numpy scalars: NaN -/
theorem Ext.zn_div (x y : Ext α) (hx : x = Ext.fin 0 ∨ x = Ext.nan) (hy : y = Ext.fin 0 ∨ y = Ext.nan) :
    x / y = Ext.nan := by
  rcases hx with hx | hx <;> rcases hy with hy | hy <;> subst hx <;> subst hy <;> simp [Ext.div_def, Ext.div, Ext.mulInf]

/-- weights all `0` or NaN: both accumulators stay `0` or NaN -/
theorem inner_zn (s : List (Option (Ext α))) (D i : Nat) (k : List (Ext α)) (hk : ∀ w ∈ k, w = Ext.fin 0 ∨ w = Ext.nan) :
    ∀ (j : Nat) (t n : Ext α), (t = Ext.fin 0 ∨ t = Ext.nan) → (n = Ext.fin 0 ∨ n = Ext.nan) →
      ((inner s D i k j (t, n)).1 = Ext.fin 0 ∨ (inner s D i k j (t, n)).1 = Ext.nan) ∧
      ((inner s D i k j (t, n)).2 = Ext.fin 0 ∨ (inner s D i k j (t, n)).2 = Ext.nan) := by
  induction k with
  | nil => intro j t n ht hn; exact ⟨ht, hn⟩
  | cons kj ks ih =>
    intro j t n ht hn
    have hkj := hk kj (List.mem_cons_self ..)
    have ih' := ih (fun w hw => hk w (List.mem_cons_of_mem _ hw))
    cases hs : sample s D i j with
    | none => simp only [inner, hs]; exact ih' _ _ _ ht hn
    | some val =>
      simp only [inner, hs]
      exact ih' _ _ _ (Ext.zn_add _ _ ht (Ext.mul_zn _ _ hkj)) (Ext.zn_add _ _ hn hkj)

/-- an infinite total: every weight becomes `0` or NaN -/
theorem normalise_infinite_total (k : List (Ext α))
    (htot : k.foldl (· + ·) 0 = Ext.pinf ∨ k.foldl (· + ·) 0 = Ext.ninf) :
    ∀ w ∈ normalise k, w = Ext.fin 0 ∨ w = Ext.nan := by
  intro w hw
  rcases htot with h | h
  · rw [normalise_eq, h, List.mem_map] at hw
    obtain ⟨x, _, rfl⟩ := hw
    exact Ext.div_pinf_zn x
  · rw [normalise_eq, h, List.mem_map] at hw
    obtain ⟨x, _, rfl⟩ := hw
    exact Ext.div_ninf_zn x

/-- **A weight list whose total is infinite** (an `inf` or `-inf` weight): `fin a / ±inf = 0` and `±inf / ±inf = nan`, so the list is left holding only `0` and `nan`,
every collected norm is `0` or `nan`, and every filtered index is NaN (`0/0` with numpy scalars does not raise); ZeroDivisionError iff a window reads no sample.
With `list_zero_or_nan_total`: whenever the total of a weight list is not a non-zero finite number, no filtered output is a number. -/
theorem list_infinite_total (v k : List (Ext α)) (hodd : k.length % 2 = 1)
    (htot : k.foldl (· + ·) 0 = Ext.pinf ∨ k.foldl (· + ·) 0 = Ext.ninf) :
    (∀ w ∈ normalise k, w = Ext.fin 0 ∨ w = Ext.nan) ∧
    ((∃ i, i < v.length ∧ anySample (toSamples v) (k.length / 2) i (normalise k) 0 = false) → executeListX v k = .error .zeroDiv) ∧
    ((∀ i, i < v.length → anySample (toSamples v) (k.length / 2) i (normalise k) 0 = true) → k.length / 2 ≤ v.length →
        ∃ out, executeListX v k = .ok (normalise k, out) ∧ out.length = v.length ∧
          ∀ i, i < v.length →
            ((k.length / 2 ≤ i ∧ i < v.length - k.length / 2) → out[i]? = some .nan) ∧
            ((i < k.length / 2 ∨ v.length - k.length / 2 ≤ i) → out[i]? = v[i]?)) := by
  have hzn := normalise_infinite_total k htot
  obtain ⟨h1, h2⟩ := filterWindowX_np_nan v (normalise k) (by rw [normalise_length]; exact hodd)
    (fun i _ _ => by
      obtain ⟨a, b⟩ := inner_zn (toSamples v) ((normalise k).length / 2) i (normalise k) hzn 0 0 0 (Or.inl rfl) (Or.inl rfl)
      exact Ext.zn_div _ _ a b)
  rw [normalise_length] at h1 h2
  refine ⟨hzn, ?_, ?_⟩
  · intro h
    unfold executeListX
    simp only [h1 h]
  · intro hall hD
    obtain ⟨out, ho, hl, hi⟩ := h2 hall hD
    refine ⟨out, ?_, hl, hi⟩
    unfold executeListX
    simp only [ho]

example : executeListX (α := Int) [.fin 1, .fin 2, .fin 3] [.fin 1, .pinf, .fin 1]
    = .ok ([.fin 0, .nan, .fin 0], [.fin 1, .nan, .fin 3]) := by rfl

example : executeListX (α := Int) [.fin 1, .fin 2, .fin 3, .fin 4, .fin 5] [.fin 1, .fin 2, .ninf]
    = .ok ([.fin 0, .fin 0, .nan], [.fin 1, .nan, .nan, .nan, .fin 5]) := by rfl

end ordered
end TV.C15
