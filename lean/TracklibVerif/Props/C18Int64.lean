import TracklibVerif.Props.C18
import TracklibVerif.Props.C18Fast
import TracklibVerif.Lemmas.DTWInt64
/-! # C18 — the fast variant on tracks with `numpy.int64` coordinates (finding `fdtw-numpy-int-coordinates-power-overflow`)

`Model/DTWInt64.lean` models what `_fdtw` computes when the point distance is a `numpy.int64`: `B**p` in int64, i.e. modulo 2^64
(`ipow64`). Here:
* `int64_power` — int64 `B**k` is the exact power reduced into `[-2^63, 2^63)`, and the exact power while that fits;
* `int64_power_bounds` — the largest distances for which it fits: `B ≤ 3037000499` for `p = 2`, `B ≤ 2097151` for `p = 3` (every int64 for
  `p = 1`), and the first distance beyond each bound already wraps to a negative number;
* `match_fdtw_int64_exact` — **under that bound on the point distances the int64 run is the run `match_fdtw_correct` is about**: same
  score, coupling and features as with float / Python-int coordinates; `match_fdtw_int64_correct` spells the conclusion out;
* `fdtw_int64_witness` — **the finding's witness, proved in the model**: heights `0, 2200000` against `0, 0`, `p = 3`, `dim = 1`: the
  int64 run returns the score `-15597488147419103232` (`-1.5597e19`) with the coupling `[[0], [0, 1]]`, the plain variant (and the fast one
  on float coordinates) `10648000000000000000` (`1.0648e19`) with `[[0], [1]]`.
The float table of the code holds these integers rounded to 53 bits; the theorems are over an ordered field (exact), the driver runs
the same definitions on `Float` (`C18.match64`) and is compared with the real code on every generated input of the class. -/
open TV.DTW
namespace TV.C18

/-- **`B ** k` on `numpy.int64`**: the exact power reduced modulo 2^64 into `[-2^63, 2^63)` — in whatever order the products are
taken —, hence the exact power whenever `0 ≤ B` and `B^k < 2^63` -/
theorem int64_power (b : Int) (k : Nat) :
    ipow64 b k = wrap64 (b ^ k) ∧ (-9223372036854775808 ≤ ipow64 b k ∧ ipow64 b k < 9223372036854775808) ∧
      (0 ≤ b → b ^ k < 9223372036854775808 → ipow64 b k = b ^ k) :=
  ⟨ipow64_eq_wrap b k, by rw [ipow64_eq_wrap]; exact wrap64_range _, ipow64_exact b k⟩

/-- **the bound on the point distances**: `B**2` fits int64 exactly for `0 ≤ B ≤ 3037000499`, `B**3` for `0 ≤ B ≤ 2097151` (and `B**1`
always); one more and the power is negative in int64: `3037000500**2 → -9223372036709301616`, `2097152**3 → -2^63` -/
theorem int64_power_bounds :
    (∀ b : Int, 0 ≤ b → b ≤ 3037000499 → b ^ 2 < 9223372036854775808) ∧
    (∀ b : Int, 0 ≤ b → b ≤ 2097151 → b ^ 3 < 9223372036854775808) ∧
    ipow64 3037000500 2 = -9223372036709301616 ∧ ipow64 2097152 3 = -9223372036854775808 := by
  refine ⟨fun b h0 h => ?_, fun b h0 h => ?_, by decide +kernel, by decide +kernel⟩
  · have := pow_le_pow_left₀ h0 h 2
    have e : (3037000499 : Int) ^ 2 < 9223372036854775808 := by norm_num
    linarith
  · have := pow_le_pow_left₀ h0 h 3
    have e : (2097151 : Int) ^ 3 < 9223372036854775808 := by norm_num
    linarith

section field
variable {α : Type} [Field α] [LinearOrder α] [IsStrictOrderedRing α]

omit [IsStrictOrderedRing α] in
/-- **FDTW is exact with int64 coordinates under the bound**: when every point distance `B` between an observation of track2 and one of
track1 is a non-negative integer (`toInt` reads it exactly) with `B^k < 2^63` — `int64_power_bounds`: `B ≤ 3037000499` for `p = 2`,
`B ≤ 2097151` for `p = 3` —, `match(track1, track2, FDTW, p = k, dim)` on `numpy.int64` coordinates (`matchFdtw64`) returns exactly
what it returns on the same coordinates as floats or Python ints (`matchCall … 3 …`, the call `match_fdtw_correct` is about), whatever
features track1 carries -/
theorem match_fdtw_int64_exact (toInt : α → Int) (G : Geom α) (big : α) (k : Nat) (hk : 1 ≤ k) (dim : DimArg α)
    (dist : Pt α → Pt α → α) (hd : distanceOf G dim = .ok dist) (a : TrackObj α) (t2 : List (Pt α))
    (hb : ∀ p ∈ t2, ∀ q ∈ a.pts, ((toInt (dist p q) : Int) : α) = dist p q ∧ 0 ≤ toInt (dist p q) ∧
      toInt (dist p q) ^ k < 9223372036854775808) :
    matchFdtw64 toInt (fun n : Int => (n : α)) G big k dim a t2 = matchCall G big 3 (PArg.ofNorm (.nat k)) dim a t2 := by
  obtain ⟨k', rfl⟩ : ∃ k', k = k' + 1 := ⟨k - 1, by omega⟩
  unfold matchFdtw64 matchCall
  rw [PArg.exponent_ofNorm]
  unfold matchBody
  simp only [show ¬ (3 = 1) by decide, show ¬ (3 = 4) by decide, show ¬ (3 = 2) by decide, if_false, if_true]
  rw [warpOn_eq_warpW, p2weight_ofNorm]
  show warpW G big true _ dim a t2 = warpW G big true (weight (.nat (k' + 1))) dim a t2
  unfold warpW
  simp only [hd, if_true]
  have hc : fdtwOn dist big (weight64 toInt (fun n : Int => (n : α)) (k' + 1)) a.rows a.pts t2
      = fdtwOn dist big (weight (.nat (k' + 1))) a.rows a.pts t2 := by
    apply fdtwOn_congr
    intro x d i j hcell
    obtain ⟨p, hp, q, hq, rfl⟩ := cellAt_distCols_mem dist a.pts t2 i j d hcell
    obtain ⟨e1, e2, e3⟩ := hb p hp q hq
    simp only [weight64, weight]
    rw [ipow64_exact _ _ e2 e3, npow_eq_pow_field, Int.cast_pow, e1]
  rw [hc]

/-- … and therefore correct: under the bound on the distances (`hb`), for a non-negative point distance and `big` above every
candidate cost, the int64 run succeeds, reports **the same score as `mode = DTW`** — the least `Σ d^k` over all couplings — and its
`S` is a coupling whose accumulated cost is that score -/
theorem match_fdtw_int64_correct (toInt : α → Int) (G : Geom α) (big : α) (k : Nat) (hk : 1 ≤ k) (dim : DimArg α)
    (dist : Pt α → Pt α → α) (hd : distanceOf G dim = .ok dist) (hnn : ∀ p q, 0 ≤ dist p q)
    (t1 t2 : List (Pt α)) (h1 : 0 < t1.length) (h2 : 0 < t2.length)
    (hb : ∀ p ∈ t2, ∀ q ∈ t1, ((toInt (dist p q) : Int) : α) = dist p q ∧ 0 ≤ toInt (dist p q) ∧
      toInt (dist p q) ^ k < 9223372036854775808)
    (hbig : ∀ i j i' j', i < t2.length → j < t1.length → i' < t2.length → j' < t1.length →
      weight (.nat k) (T (weight (.nat k)) 0 (Dmat dist t1 t2) i j) (Dmat dist t1 t2 i' j') < big) :
    ∃ out outd, matchFdtw64 toInt (fun n : Int => (n : α)) G big k dim (TrackObj.fresh t1) t2 = .ok out ∧
      matchTracks G big Mode.dtw (.nat k) dim t1 t2 = .ok outd ∧
      out.score = outd.score ∧
      (∀ S, IsCouplingOf t1.length t2.length S → out.score ≤ costBack (weight (.nat k)) 0 (Dmat dist t1 t2) S) ∧
      IsCouplingOf t1.length t2.length out.S ∧
      costBack (weight (.nat k)) 0 (Dmat dist t1 t2) out.S = out.score ∧
      out.nbLinks = out.S.length := by
  obtain ⟨out, outd, e, ed, hs, hc, hcost, hnb, _, _⟩ := match_fdtw_correct G big (.nat k) dim dist hd hnn t1 t2 h1 h2 hbig
  obtain ⟨outd', ed', _, hlow, _⟩ := match_onesided G big Mode.dtw (by decide) (.nat k) dim dist hd t1 t2 h1 h2
  rw [ed] at ed'
  cases Except.ok.inj ed'
  have hw : weightOf (α := α) Mode.dtw (.nat k) = weight (.nat k) := by unfold weightOf; simp
  rw [hw] at hlow
  refine ⟨out, outd, ?_, ed, hs, fun S hS => by rw [hs]; exact hlow S hS, hc, hcost, hnb⟩
  rw [match_fdtw_int64_exact toInt G big k hk dim dist hd (TrackObj.fresh t1) t2 hb]
  exact e

omit [IsStrictOrderedRing α] in
/-- **above the bound the int64 run still returns a coupling whose accumulated cost is the score — in int64 arithmetic**: for any
distances (powers that wrap included), when `big` is above the accumulated wrapped cost of every partial coupling (`FastBig`; wrapped
costs are below `(n1 + n2) · 2^63` in absolute value, `big` is 1e300), `match(…, FDTW, p = k)` on `numpy.int64` coordinates succeeds, `S`
is a monotone unit-step coupling from the first to the last pair, the reported score is the sum of the **wrapped** `B**k` along `S`,
`nb_links` and the `pair` feature describe `S`, nobody is left out. What fails there is optimality with respect to the true `B**k`
(`fdtw_int64_witness`). -/
theorem match_fdtw_int64_any (toInt : α → Int) (ofInt : Int → α) (G : Geom α) (big : α) (k : Nat) (dim : DimArg α)
    (dist : Pt α → Pt α → α) (hd : distanceOf G dim = .ok dist)
    (t1 t2 : List (Pt α)) (h1 : 0 < t1.length) (h2 : 0 < t2.length)
    (hbig : FastBig big (weight64 toInt ofInt k) dist t1 t2) :
    ∃ out, matchFdtw64 toInt ofInt G big k dim (TrackObj.fresh t1) t2 = .ok out ∧
      IsCouplingOf t1.length t2.length out.S ∧
      costBack (weight64 toInt ofInt k) 0 (Dmat dist t1 t2) out.S = out.score ∧
      out.nbLinks = out.S.length ∧
      (∀ j, j < t1.length → ∃ r : Row α, out.rows[j]? = some r ∧ (∀ i, i ∈ r.pair ↔ (i, j) ∈ out.S) ∧ r.pair ≠ []) ∧
      (∀ i, i < t2.length → ∃ (j : Nat) (r : Row α), out.rows[j]? = some r ∧ i ∈ r.pair) := by
  obtain ⟨out, he, hc, hcost, hnb, _, _, r2, r3⟩ := fdtw_path_any dist big (weight64 toInt ofInt k) t1 t2 h1 h2 hbig
  exact ⟨out, warpW_fdtw G big _ dim dist hd t1 t2 h1 h2 out he, hc, hcost, hnb, r2, r3⟩

end field

/-- **the finding's witness in the model** (`known_findings.json`, class `fdtw-numpy-int-coordinates-power-overflow`): heights `0, 2200000`
against `0, 0`, `dim = 1`, `p = 3`, `big = 1e300`. With `numpy.int64` coordinates the fast variant accumulates
`wrap64 (2200000^3) = 10648000000000000000 - 2^64 = -7798744073709551616` per link to the far observation, prefers the coupling with two
such links and reports `-15597488147419103232`; on the same coordinates as floats it reports the optimum `2200000^3` with one. -/
theorem fdtw_int64_witness :
    ((matchFdtw64 (α := ℚ) (fun q => q.num) (fun n => (n : ℚ)) { cls := .enu, T := exTrig } ((10 : ℚ) ^ 300) 3 (.num 1)
        (TrackObj.fresh [⟨0, 0, 0⟩, ⟨0, 0, 2200000⟩]) [⟨0, 0, 0⟩, ⟨0, 0, 0⟩]).toOption.map
      (fun o => (o.score, o.rows.map (·.pair), o.nbLinks))
      = some (-15597488147419103232, [[0], [0, 1]], 3)) ∧
    ((matchTracks (α := ℚ) { cls := .enu, T := exTrig } ((10 : ℚ) ^ 300) Mode.fdtw (.nat 3) (.num 1)
        [⟨0, 0, 0⟩, ⟨0, 0, 2200000⟩] [⟨0, 0, 0⟩, ⟨0, 0, 0⟩]).toOption.map
      (fun o => (o.score, o.rows.map (·.pair), o.nbLinks))
      = some (10648000000000000000, [[0], [1]], 2)) ∧
    ipow64 2200000 3 = -7798744073709551616 := by
  refine ⟨by decide +kernel, by decide +kernel, by decide +kernel⟩

/-- the hypotheses of `match_fdtw_int64_exact` are satisfiable beyond small numbers: heights `0, 2097151` against `0` (distance
`2097151`, the largest whose cube fits), `p = 3` -/
example : ∀ p ∈ ([⟨0, 0, 0⟩] : List (Pt ℚ)), ∀ q ∈ ([⟨0, 0, 0⟩, ⟨0, 0, 2097151⟩] : List (Pt ℚ)),
    ((((distance id 1 p q : ℚ).num : Int) : ℚ) = distance id 1 p q ∧ 0 ≤ (distance id 1 p q : ℚ).num ∧
      (distance id 1 p q : ℚ).num ^ 3 < 9223372036854775808) := by
  decide +kernel

end TV.C18
