"""C16 — Douglas-Peucker / Visvalingam simplification (tracklib/algo/simplification.py, util/geometry.py).

Case kinds: `dp` / `vw` (list-level model: kept indices), `trk` (Track-level model: the Track object returned by
douglas_peucker / visvalingam / simplify in its various call forms, and the input track's snapshot), `mode` (the dispatcher),
`coll` (TrackCollection.simplify(tolerance[, mode]) on a collection of such Track objects: `tracks` is a list of `trk` sub-cases, `mode` an int or
None = the argument is not given), `dist` / `area` (point-wise geometry), flag `wild` (coordinates outside any ENU frame: correspondence only).
Optional fields of a `trk` case: `nodata` (the track's `no_data_value` attribute; fixes whose coordinates equal it are the readers'
placeholders), `coords` (`ENU` default, `GEO`, `ECEF`: the class of the positions), `src` (`obj` default: built with Obs/Track;
`csv`: written to a file and read back with TrackReader.readFromFile), via `network` (Network.simplify on an edge geometry).
Style `deep-*`: several hundred fixes whose Douglas-Peucker split chain is hundreds of levels deep. A case must be well formed (well_formed():
what the generators can produce); impl() answers {"harness": why} when the INPUT of a case cannot be built -- never an implementation failure."""
import itertools, math, os, random, tempfile, datetime, shutil
from fractions import Fraction
from engine import Prop, fbits, bitsf, close, ratstr, parse_rat

SLACK = 1e-9          # the oracle accepts distance <= eps * (1 + SLACK) + ABS_SLACK * (largest |coordinate|): float rounding of the
ABS_SLACK = 1e-13     # code's own distances -- relative to eps, and absolute (differences of coordinates of magnitude M carry an error ~1e-16 M,
                      # which dominates when eps itself is of that order: e.g. (95.68,61.18),(11.58,84.09),(-72.52000000000001,107.0), eps = 3.55e-15)
TOLS = [1e-3, 1e-2, 0.1, 0.25, 0.5, 0.7, 0.75, 1, 1.0, 1.25, 1.5, 2, 2.5, 3, 5, 10.0, 100, 1e3]


# ------------------------------------------------------------------ exact geometry (oracle)
def F(v):
    return Fraction(v)


def seg_d2(p, a, b):
    """exact squared distance from point p to the closed segment [a, b] (a == b allowed)"""
    dx, dy = b[0] - a[0], b[1] - a[1]
    l2 = dx * dx + dy * dy
    if l2 == 0:
        return (p[0] - a[0]) ** 2 + (p[1] - a[1]) ** 2
    t = ((p[0] - a[0]) * dx + (p[1] - a[1]) * dy) / l2
    t = max(Fraction(0), min(Fraction(1), t))
    qx, qy = a[0] + t * dx, a[1] + t * dy
    return (p[0] - qx) ** 2 + (p[1] - qy) ** 2


def polyline_d2(p, V):
    if len(V) == 1:
        return (p[0] - V[0][0]) ** 2 + (p[1] - V[0][1]) ** 2
    return min(seg_d2(p, V[k], V[k + 1]) for k in range(len(V) - 1))


def seg_d2_float(p, a, b):
    """float version of seg_d2: ONLY a pre-filter for the exact test (see polyline_far)"""
    dx, dy = b[0] - a[0], b[1] - a[1]
    l2 = dx * dx + dy * dy
    if l2 == 0:
        return (p[0] - a[0]) ** 2 + (p[1] - a[1]) ** 2
    t = max(0.0, min(1.0, ((p[0] - a[0]) * dx + (p[1] - a[1]) * dy) / l2))
    return (p[0] - a[0] - t * dx) ** 2 + (p[1] - a[1] - t * dy) ** 2


def mirror_dist(x0, y0, x1, y1, x2, y2):
    """float distance with the same formula as the code; used ONLY to generate boundary tolerances"""
    l = math.sqrt((x2 - x1) ** 2 + (y2 - y1) ** 2)
    if l == 0:
        return math.sqrt((x0 - x1) ** 2 + (y0 - y1) ** 2)
    t = ((x0 - x1) * (x2 - x1) + (y0 - y1) * (y2 - y1)) / l / l
    t = min(1.0, max(0.0, t))
    return math.sqrt((x0 - x1 - t * (x2 - x1)) ** 2 + (y0 - y1 - t * (y2 - y1)) ** 2)


def near(a, b, abs_):
    """|a - b| <= 1e-9 x the larger magnitude + abs_ (engine.close has a floor of 1e-9, too coarse for distances of 1e-5)"""
    a, b = float(a), float(b)
    if a != a or b != b:
        return a != a and b != b
    if math.isinf(a) or math.isinf(b):
        return a == b
    return abs(a - b) <= 1e-9 * max(abs(a), abs(b)) + abs_


def dist_slack(p):
    """absolute slack for a distance: the projected point is rounded at the magnitude M of the coordinates (~1e-16 M); 1e-9 at most, as before"""
    return min(1e-9, 1e-12 * max(1.0, max(abs(v) for v in p)))


def area_slack(p):
    """absolute slack for a triangle area: a coordinate difference carries ~1e-16 M and is multiplied by a difference of at most D; 1e-9 at most, as before"""
    m = max(1.0, max(abs(v) for v in p))
    d = max(abs(a - b) for a in p for b in p)
    return min(1e-9, 1e-14 * m * d)


def fv(v):
    """case value -> float/int: non-finite numbers are stored as strings in cases (JSON)"""
    return float(v) if isinstance(v, str) else v


def same_num(a, b):
    """equality of two feature values / coordinates, NaN == NaN"""
    if isinstance(a, float) and a != a:
        return isinstance(b, float) and b != b
    return a == b


def same_rows(a, b):
    return len(a) == len(b) and all(len(r) == len(q) and all(same_num(x, y) for x, y in zip(r, q)) for r, q in zip(a, b))


def finite_case(case):
    return all(math.isfinite(fv(v)) for v in case["xs"] + case["ys"])


SMALL_UNITS = [1e-6, 1e-5, 2e-5, 5e-5, 1e-4, 2.5e-4, 1e-3]      # small-scale tracks: kilometres, degrees, normalised 0..1 frames
SMALL_ORIGINS = [(0.0, 0.0), (0.0, 0.0), (0.5, 0.5), (2.35, 48.85), (-0.25, 0.125), (1.0, 0.0)]
NODATA_VALUES = [-999999, -999999, -999999, -9999, -1, 0, 1]
OTHER_EDGE = {"xs": [0, 3, 6, 2, 0], "ys": [0, 4, 0, -1, 0], "uid": 1, "tid": 2, "base": None, "names": ["q"], "rows": [[1], [2], [3], [4], [5]]}
TIME_FMT = "4Y-2M-2D 2h:2m:2s"


def fmt_time(t):
    return (datetime.datetime(1970, 1, 1) + datetime.timedelta(seconds=t)).strftime("%Y-%m-%d %H:%M:%S")


def num_repr(v):
    """a number of a case as a CSV field that float() reads back exactly"""
    v = fv(v)
    return repr(float(v)) if isinstance(v, float) else str(v)


VW_ALL_MAX_N = 60     # Visvalingam's runs with another choice among equally small triangles are enumerated level by level (Model/SimplifyTie.lean,
                      # visvalingamAll) for tracks of at most VW_ALL_MAX_N fixes, up to vw_cap(n) states per level; beyond: only the code's own run


def vw_cap(n):
    """states per level: everything for tracks of <= 11 fixes (at most C(9,4) = 126 sets of removed interior fixes), 32 for longer ones"""
    return 130 if n <= 11 else 32


TINY_TOLS = [5e-324, 1e-320, 1e-300, 1e-200, 1.5e-162, 1e-100, 1e-30]
HUGE_TOLS = [1e154, 1.3407807929942597e154, 1.4e154, 1e200, 1e308, 1.7976931348623157e308]   # eps*eps is infinite from 1.3407807929942597e154 on


FINDING_AIRE = "vw-user-feature-named-aire"
FINDING_ORPHAN = "vw-feature-values-without-dict-entry"
ERRMAP = {"err:AnalyticalFeatureError": "err:AnalyticalFeatureError", "err:IndexError": "err:index",
          "err:NameError": "err:NameError", "err:RecursionError": "err:recursion", "err:KeyError": "err:key"}
ALGO_OF_MODE = {"TV.Simplify.Algo.douglasPeucker": "douglas_peucker", "TV.Simplify.Algo.visvalingam": "visvalingam",
                "TV.Simplify.Algo.squaring": "squaring", "TV.Simplify.Algo.optimal": "optimalSimplification",
                "TV.Simplify.Algo.nameError": "err:NameError"}


def collinear_run(xs, ys):
    for i in range(len(xs) - 2):
        if (xs[i + 1] - xs[i]) * (ys[i + 2] - ys[i + 1]) == (xs[i + 2] - xs[i + 1]) * (ys[i + 1] - ys[i]):
            return True
    return False


class HarnessCase(Exception):
    """the harness could not BUILD the input a case describes (plumbing: Obs/Track construction, the CSV file written and read back,
    the network around an edge geometry). Never an implementation failure of the property: impl() answers {"harness": why}, on which the
    oracle is silent and the correspondence check reports the case as not built (when the case is well formed)"""


def well_formed(case):
    """is the case one the generators can produce: parallel lists of equal length, and -- for a track made by the CSV reader -- a
    description the reader can honour (see csv_ok)? mutate() and shrink() only propose well-formed cases: a candidate that the harness
    itself cannot build says nothing about the implementation"""
    k = case.get("kind")
    if k == "coll":
        return isinstance(case.get("tracks"), list) and all(isinstance(t, dict) and t.get("kind") == "trk" and well_formed(t) for t in case["tracks"])
    if k not in ("dp", "vw", "trk"):
        return True
    n = len(case["xs"])
    if len(case["ys"]) != n:
        return False
    if k == "trk":
        if case.get("zs") and len(case["zs"]) != n:
            return False
        if case.get("ts") and len(case["ts"]) != n:
            return False
        if len(case["rows"]) != n or any(len(r) != len(case["names"]) for r in case["rows"]):
            return False
        if case.get("src") == "csv" and not csv_ok(case):
            return False
    return True


def csv_ok(case):
    """does TrackReader.readFromFile make exactly the track the case describes from the file mk_trk_csv writes? The reader turns a line
    whose E or N field is NA -- or whose int(E) or int(N) equals no_data_value -- into a placeholder fix at (nd, nd, nd); so every fix
    of the case is either such a placeholder in all three coordinates (z = 0 when the file has no U column) or has int(x), int(y) != nd;
    timestamps are whole seconds >= 0 (the file's time format), coordinates finite, no_data_value an int"""
    nd = case.get("nodata")
    if not isinstance(nd, int) or isinstance(nd, bool):
        return False
    n = len(case["xs"])
    if n < 1 or "@aire" in case["names"]:
        return False
    ts = case.get("ts") or list(range(n))
    if any((not isinstance(t, int)) or isinstance(t, bool) or t < 0 or t > 4000000000 for t in ts):
        return False
    zs = case.get("zs") or [0] * n
    if len(zs) != n or len(ts) != n:
        return False
    for i in range(n):
        x, y, z = fv(case["xs"][i]), fv(case["ys"][i]), fv(zs[i])
        if not all(isinstance(v, (int, float)) and not isinstance(v, bool) and math.isfinite(v) for v in (x, y, z)):
            return False
        if x == nd and y == nd and z == nd:
            continue
        if int(x) == nd or int(y) == nd:
            return False
    return True


class P(Prop):
    id = "C16"
    design_ref = "DESIGN.md section 5, C16"
    M = "TracklibVerif.Props.C16"
    M2 = "TracklibVerif.Props.C16b"
    theorems = [
        (M, "TV.C16.dp_sublist", "T1: Douglas-Peucker's result is a sub-sequence (same observations, same order) of the input; any scalar type (the Float model included), any tolerance"),
        (M, "TV.C16.dp_ends", "T2: the result starts with the first and ends with the last input observation, and keeps >= 2 fixes of a track of >= 2 fixes; closed loops, duplicates included; any scalar type"),
        (M, "TV.C16.dp_total_of_self_distance", "T3 (scalar-independent): with eps > 0 the recursion terminates on every track provided distance_to_segment(A; A, B) is never > 0 (the odd split L[0:imax]/L[imax:n] always yields two strictly shorter parts)"),
        (M, "TV.C16.dp_total", "T3: over an ordered field with a correct sqrt, douglas_peucker is defined for every track (closed loops included) and every eps > 0"),
        (M, "TV.C16.dist_seg_spec", "T4: distance_to_segment (projection + clamp to the segment's box, l == 0 branch) is >= 0 and its square is the minimum over t in [0,1] of |P - (A + t(B-A))|^2"),
        (M, "TV.C16.dist_sq_eq", "T4 (executable form): distance_to_segment^2 equals the sqrt-free closed form distSegSq that the driver evaluates exactly on rationals against the harness' oracle"),
        (M, "TV.C16.dp_tolerance", "T5: every input fix is within eps (true point-segment distance, squared form) of a segment between two consecutive vertices of the OUTPUT polyline"),
        (M, "TV.C16.dp_correct", "T1+T2+T3+T5 in one statement: for every track of >= 2 fixes and eps > 0 a result exists, is a sublist keeping both ends, and is within tolerance"),
        (M, "TV.C16.vw_sublist_ends", "T6: Visvalingam (areas below ARGMIN's initial minimum, +inf since 68863c7: finite areas, any tolerance, any scalar type) returns a sublist keeping the first and last observation and its loop stops by itself within len(track) passes"),
        (M, "TV.C16.dp_any_tiebreak", "T7: whichever of several equally far fixes is taken as split point (the runs the correspondence check accepts), the result is a sublist keeping both ends; any scalar type"),
        (M, "TV.C16.dp_any_tiebreak_tolerance", "T7: every such run is within tolerance, and the code's own run (first farthest fix) is one of them"),
        (M, "TV.C16.single_fix", "a one-fix track is returned unchanged by both algorithms"),
        (M, "TV.C16.dp_track_points", "T8: the positions of the Track returned by douglas_peucker(track, eps) are those of the list-level model douglasPeucker (and it recurses for ever exactly when that model does): T1-T5, T7 are about the Track that simplify(track, eps, MODE_SIMPLIFY_DOUGLAS_PEUCKER) returns; any scalar type"),
        (M, "TV.C16.dp_track_obs", "T8: Douglas-Peucker returns the input's OBSERVATIONS (position, timestamp tag and feature row) as a sub-sequence with both ends; the result's feature dict is empty (names not transmitted), its uid/tid/base are the input's or Track()'s defaults 0/0/None (always the defaults for a track of <= 2 fixes)"),
        (M, "TV.C16.dp_track_correct", "the statement of C16 for Douglas-Peucker on the Track object in one piece (ordered field, exact sqrt): a result exists, its observations (feature rows included) are a sub-sequence with both ends, every input fix is within eps of the returned polyline"),
        (M, "TV.C16.vw_track", "T9: Visvalingam on a Track with a well-formed feature table without '@aire', any tolerance: the call succeeds, the positions are the list-level model's, the observations returned keep their feature rows, the feature dict and uid/tid/base are the input's: the temporary '@aire' column (created last, read by ARGMIN, updated, removed) leaves no trace; the input is not written (deep copy; the model is a function)"),
        (M, "TV.C16.vw_track_ends", "T9: with T6's hypothesis the first and last observation (feature rows included) of the Track are kept"),
        (M, "TV.C16.vw_removeObs_is_C04", "composition with C04: output.removeObs(id) (TV.Seq.removeObs, the model of removeObsList([id]) used by the Track-level loop) is the eraseIdx of the list-level loop; the + of Douglas-Peucker uses C04's sameNames rule as it is"),
        (M, "TV.C16.simplify_dispatch", "simplify(track, tol, 1) is douglas_peucker, mode 2 is visvalingam, a mode outside 1..8 raises (NameError); modes 3..8 call other functions, outside the statement"),
        (M, "TV.C16.vw_sentinel_first_pass", "T6' (round 1's open statement, as it stands since b728412): when no interior fix has an initial area below ARGMIN's initial minimum or equal to it (+inf since 68863c7: every area is NaN), ARGMIN records no index and answers 0, NaN > eps is False, and the first pass removes the FIRST observation; any scalar type"),
        (M, "TV.C16.vw_first_pass_found", "T6'' (what b728412 repaired, seen from Visvalingam): as soon as one interior fix has an initial area that is a number below ARGMIN's initial minimum or EQUAL to it (an infinite area), the first pass removes an observation other than the first; any scalar type, any tolerance"),
        (M, "TV.C16.vw_all_below", "T11: when no triangle of the track has an area > eps*eps (in particular eps*eps = +inf: every tolerance from 1.34e154 up to the largest double, since b704eae) Visvalingam returns exactly the first and the last observation; under T6's hypothesis, any scalar type"),
        (M, "TV.C16.vw_any", "T12 (no hypothesis on the areas: infinite, NaN, mixed columns, every pass; any scalar type, the Float model included): Visvalingam's result is a sub-sequence of the input observations, the LAST observation is kept, a track of >= 2 observations keeps >= 2, and the loop stops by itself within len(track) passes"),
        (M, "TV.C16.vw_track_any", "T12 on the Track object (well-formed feature table without '@aire', non-empty track, any areas): the call succeeds, the observations returned (feature rows included) are a sub-sequence, the last observation is kept, >= 2 observations of >= 2"),
        (M, "TV.C16.simplify_nodata", "simplify() never reads track.no_data_value (set by the readers): the observations returned for a track carrying the attribute are those returned without it -- no placeholder fix is left out --, errors included; the result's own attribute is None after Douglas-Peucker (a new Track) and the input's after Visvalingam (the copy)"),
        (M, "TV.C16.simplify_nodata_dp_correct", "the statement of C16 for Douglas-Peucker through simplify() on a reader-made track (ordered field, exact sqrt): whatever no_data_value and wherever the placeholder fixes (first and last included), a result exists, is a sub-sequence of ALL input observations with both ends, and every input observation is within eps of the returned polyline"),
        (M, "TV.C16.net_simplify_each", "Network.simplify(tolerance, mode) is simplify() on every edge geometry in the edges' order: when it succeeds the i-th geometry is what simplify returns for the i-th input geometry"),
        (M, "TV.C16.coll_simplify_each", "T15: TrackCollection.simplify(tolerance, mode=1) (039f340) returns, in the collection's order and as many as the collection has, what simplify(track, tolerance, mode) returns for every track; a failure is the failure of one of these calls; an empty collection comes back empty whatever the mode; the default mode is 1"),
        (M, "TV.C16.coll_simplify_invalid_mode", "T15: on a non-empty collection a mode outside 1..8 raises NameError (from the first track)"),
        (M, "TV.C16.coll_simplify_vw", "T15, C16 for Visvalingam on every track of a collection (any scalar type, any tolerance, any areas; tracks non-empty with a well-formed feature table without '@aire'): the call succeeds and, track by track, sub-sequence of the observations (feature rows included), last observation kept, >= 2 of >= 2, dict / uid / tid / base / no_data_value the track's; first observation kept under T6's hypothesis"),
        (M, "TV.C16.coll_simplify_dp_correct", "T15, C16 for Douglas-Peucker on every track of a collection through the DEFAULT mode (ordered field, exact sqrt): for every collection (empty, tracks of 0, 1, 2 fixes, placeholder fixes, closed loops) and eps > 0 the call returns one track per track, each a sub-sequence of the observations with both ends, no_data_value None, every input fix of a track of >= 2 fixes within eps of the returned polyline"),
        (M, "TV.C16.dp_tolerance_any_arithmetic", "T5' (robust tolerance; ANY arithmetic -- rounded, saturating --, only `<` a linear order, as on doubles away from NaN): if a fix whose COMPUTED distance to a chord is < eps is accepted for that chord (W, any predicate: e.g. true distance <= eps + rounding slack) and a vertex is accepted for the segments it ends, then every input fix is accepted for a segment between consecutive vertices of the OUTPUT: the recursion, split and concatenation add no error; T5 is the exact instance (example)"),
        (M, "TV.C16.dp_any_tiebreak_tolerance_any_arithmetic", "T5' for every run with another choice among equally far fixes (the runs the correspondence check accepts)"),
        (M, "TV.C16.dp_total_zero_laws", "T3' (termination under rounded arithmetic): on a total order whose arithmetic satisfies six zero laws (x-x=0, 0*x=0, 0+0=0, 0/x=0, x+0=x, sqrt 0=0: true of IEEE doubles on finite values; example: integers with truncating division and integer sqrt) distance_to_segment(A; A, B) computes 0 in either branch of `l == 0`, so douglas_peucker returns on every track for every eps > 0"),
        (M, "TV.C16.dp_correct_any_arithmetic", "C16 for Douglas-Peucker under any arithmetic on a total order: given distance_to_segment(A; A, B) never > 0 (checked bit-exactly by the `dist` stream) the call returns, the result is a sub-sequence with both ends, every input fix is accepted (T5')"),
        (M, "TV.C16.vw_threshold", "T10 (threshold semantics; ANY arithmetic on a linear order since this pass -- the areas are the COMPUTED ones, so it is a statement about the float run away from NaN): under T6's hypothesis every interior fix of Visvalingam's result spans with its two neighbours in the result a triangle of area > eps^2 (the '@aire' column stays consistent with the current neighbours; ARGMIN designates a smallest entry)"),
        (M, "TV.C16.vw_any_tiebreak_sublist", "T13 (the freedom left by ties in Visvalingam; no hypothesis at all): whichever of several equally small triangles is eliminated at each pass (VwAnyResult: all such runs; the code takes ARGMIN's first minimum), the result is a sub-sequence of the input observations; any scalar type, any areas"),
        (M, "TV.C16.vw_any_tiebreak", "T13: under T6's hypothesis (finite areas) every such run keeps the first and the last observation and >= 2 observations; any scalar type, any tolerance"),
        (M, "TV.C16.vw_any_tiebreak_any_areas", "T13 without hypothesis (T12 for every run): whatever the areas and whichever of the equally small triangles goes first, sub-sequence, LAST observation kept, >= 2 observations of >= 2; any scalar type"),
        (M, "TV.C16.vw_own_run_is_tiebreak_run", "T13: what visvalingam returns (first minimum at every pass) is one of these runs; no hypothesis"),
        (M, "TV.C16.vw_all_levels_sound", "T13: every result of visvalingamAll -- the driver's level-by-level enumeration (states with the same observations merged, given up beyond `cap` states per level) that the correspondence check accepts for Visvalingam -- is such a run"),
        (M, "TV.C16.vw_any_tiebreak_threshold", "T10 for every run of T13 (any arithmetic on a linear order, T6's hypothesis): every interior fix of the result spans with its neighbours in the result a triangle of computed area > eps^2"),
        (M, "TV.C16.vw_first_kept_iff", "T14 (mixed columns: some areas finite, some infinite / NaN; any scalar type, any tolerance, observations pairwise different): Visvalingam keeps the FIRST observation if and only if every pass of its loop finds a minimum (some '@aire' entry is a number below ARGMIN's initial minimum +inf or -- since b728412 -- equal to it: only NaN is not found); T6 / T6' are the two extreme cases"),
        (M2, "TV.C16.vw_sublist_ends_no_nan", "T6 at full strength (every column without NaN): when every triangle area of the track is a number below ARGMIN's start value +inf OR EQUAL to it (on doubles: not NaN; infinite areas are found since b728412), for any tolerance and scalar type: sub-sequence, FIRST and last observation kept, >= 2 kept, every pass finds a minimum, the loop stops by itself"),
        (M2, "TV.C16.vw_any_tiebreak_no_nan", "T13 on columns without NaN (infinite areas allowed): every run with another choice among equally small triangles keeps the first and the last observation and >= 2"),
        (M2, "TV.C16.vw_track_ends_no_nan", "T9 (ends) on columns without NaN: on the Track object (well-formed feature table without '@aire', >= 2 fixes, no NaN area -- infinite areas allowed) the first and the last OBSERVATION (feature rows included) are kept, any tolerance"),
        (M2, "TV.C16.vw_track_correct_no_nan", "C16 for Visvalingam on the Track object in one piece, every column without NaN: the call succeeds, the observations returned (feature rows included) are a sub-sequence with the first and the last observation, >= 2 of them, dict / uid / tid / base the input's"),
        (M2, "TV.C16.vw_all_levels_complete", "T13 (completeness; closes round 6's open statement on columns without NaN): on a track of >= 2 observations identified by their tags with no NaN area, whenever visvalingamAll does not give up its result is EXACTLY the set of results of the runs with some choice among equally small triangles (sound and complete: merging the states that hold the same observations loses nothing, a state being a function of its observations there)"),
        (M2, "TV.C16.vw_all_nan", "T6' for the WHOLE run (what exactly happens with NaN areas, extreme case): when no triangle area of the track is a number <= ARGMIN's start value nor > eps*eps (on doubles: every area NaN) every pass takes ARGMIN's default index 0 and Visvalingam returns exactly the LAST TWO observations; any scalar type, any tolerance"),
        (M2, "TV.C16.dp_depth_defined_iff", "T16: the depth of douglas_peucker's recursion (dpDepth: nested calls below the outermost one; compared with the real code by the `depth` stream) is defined exactly when the call returns"),
        (M2, "TV.C16.dp_depth_le", "T16 (bound; finding dp-recursion-depth seen from the model): under T3's hypotheses (eps > 0, distance_to_segment(A; A, B) never > 0) the recursion on a track of n fixes is at most n - 2 levels deep (0 for n <= 2): at most n - 1 frames of douglas_peucker; any scalar type"),
        (M2, "TV.C16.dp_depth_peel", "T16: on a track on which every split peels exactly one fix (farthest fix = L[1], not below the tolerance, at every level) the recursion is exactly len(L) - 2 levels deep; any scalar type"),
        (M2, "TV.C16.dp_depth_bound_zero_laws", "T16 under rounded arithmetic (the six zero laws of T3'): depth defined and <= n - 2 for every eps > 0"),
        (M2, "TV.C16.dp_depth_bound", "T16 over an ordered field with an exact sqrt: for every track and every eps > 0 the depth is defined and <= n - 2"),
        (M2, "TV.C16.dp_depth_attained", "T16 (the bound is attained; the finding's witness as a family): for EVERY n the track of n fixes on the y-axis with ordinates n, -(n-1), n-2, ..., +-1 and every tolerance 0 < eps <= 1 makes douglas_peucker recurse exactly n - 2 levels deep (ordered field, exact sqrt): RecursionError at n = 1100 is a theorem about the model + CPython's limit of 1000 frames"),
    ]
    partial = []
    open_statements = [
        "IEEE rounding: T3 (field form), T4 and T5 are over a linearly ordered field with an exact sqrt. T5' (dp_tolerance_any_arithmetic) reduces the tolerance on floats to ONE "
        "pointwise statement about distance_to_segment -- `computed distance < eps  =>  true distance <= eps(1+1e-9) + 1e-13 M` -- which is not proved (an error analysis of the "
        "formula in IEEE arithmetic) but sampled: by the `dist` stream (|computed - exact| <= 1e-9 relative + 1e-12 M) and by the transfer check on whole tracks with that slack "
        "(T1, T2, T6, T12 and the scalar-independent T3 do apply to the Float model as they assume nothing about the scalar; T5', T10 assume only a total order)",
        "Visvalingam when areas are infinite or NaN, i.e. not below ARGMIN's initial minimum +inf (coordinates ~1e154 and more, not ENU tracks): T12 (vw_any) proves, "
        "for every column and every pass, sub-sequence, last observation kept, >= 2 kept and termination; T14 (vw_first_kept_iff) characterises the mixed "
        "columns at the level of the passes: the first observation survives iff every pass finds an entry that is a number <= the sentinel (since b728412 an infinite "
        "area IS found, only a column of NaN is not: T6'' / T6' are the extreme cases). T6 is now proved for every column without NaN (vw_sublist_ends_no_nan: "
        "areas below the sentinel OR equal to it, i.e. infinite areas included; vw_any_tiebreak_no_nan for every tie-break run) and the whole run on a column of NaN "
        "only is proved to return the last two observations (vw_all_nan; its hypothesis quantifies over all triples of fixes of the track, repeated ones "
        "included: on doubles, infinite coordinates or differences that all overflow). "
        "Still open: MIXED columns expressed on the INPUT coordinates alone (which areas are recomputed to what depends on the whole run; T14 gives the "
        "condition pass by pass) -- compared with the model only (stream `wild`)",
        "T10 (vw_threshold) now holds for any arithmetic on a linear order, i.e. for the COMPUTED areas and the computed eps*eps; what it cannot say is how a computed "
        "area relates to the exact one: an exact area within an ulp of eps^2 may fall on either side (model and code agree bit for bit there: correspondence)",
        "T13 (ties in Visvalingam): every result of visvalingamAll is proved to be a run with some choice among equally small triangles (soundness of what the "
        "correspondence check accepts) and the code's own run is one; that the level-by-level enumeration with merged states returns ALL such runs when it does "
        "not give up (completeness) is now proved on columns without NaN (vw_all_levels_complete: the result is exactly the set of such runs). Still open: "
        "completeness when some area is NaN (then index 0 can be removed, entry 0 keeps a stale wrap-around area and a state is no longer a function of its "
        "observations: two merged states may have different futures) -- a missing run would only show as a correspondence disagreement, never as an accepted wrong result. The "
        "Track-level model (vwTrk) is the code's own run only: for another run the harness checks dict / uid / tid / base / no_data_value against the model "
        "(they do not depend on the run) and positions / feature rows of the kept observations against the input",
        "T16 (depth of douglas_peucker's recursion): the bound n - 2 and its attainment are theorems about the model (dp_depth_le, dp_depth_attained; the `depth` "
        "stream compares the model's depth with the real code's, measured by a counting wrapper). What stays outside: how many frames CPython has left when "
        "douglas_peucker is entered (sys.getrecursionlimit() minus the caller's stack) -- the single assumption under which 'RecursionError iff depth + 1 frames "
        "do not fit' follows; and the attaining family is proved over an ordered field with an exact sqrt (on doubles it is sampled: oscillations of 0..40 and "
        "50..300 fixes in the `depth` stream, 120..800 levels in the deep-* tracks)",
    ]
    modelled = ("util/geometry.py distance_to_segment (l == 0 branch, normalised scalar product, clamp to the segment's box), "
                "triangle_area, aire_visval; algo/simplification.py douglas_peucker (n <= 2 base case, first farthest fix by strict >, "
                "dmax < eps, split L[0:imax] / L[imax:n], recursion, concatenation; the DEPTH of that recursion: dpDepth, nested calls below the outermost one -- T16) and visvalingam (eps = eps * eps -- b704eae; `eps **= 2` before --, '@aire' column with NaN at "
                "both ends, Operator.ARGMIN with its initial minimum float('inf') (68863c7; 1e300 before) and its `idmin = None` / `val < minimum or (idmin is None and val == minimum)` scan (b728412; "
                "`idmin = 0` / `val < minimum` before: a column [nan, inf, inf] answered 0), break on area > eps, removal, two neighbour updates). "
                "The freedom left by ties in Visvalingam (Model/SimplifyTie.lean): vwBody (the loop body for an arbitrary index), tieIds (ARGMIN's answer and every index "
                "whose '@aire' entry equals it, when a minimum was found), vwNext / VReach / VwAnyResult (the runs with any choice among equally small triangles), "
                "visvalingamAll (their level-by-level enumeration, run by the driver: command vwall). "
                "On the Track object (Model/SimplifyTrack.lean): simplify(track, tolerance, mode, verbose) dispatch for every mode "
                "(1, 2 modelled; 3 squaring and 4..8 optimalSimplification named, not modelled; others NameError); douglas_peucker's "
                "Track(L) / Track([L[0], L[n-1]], uid, tid, base) / Track(L[0:imax], ...) + Track(L[imax:n], ...) with Track.__add__'s "
                "rule for uid/tid/base and the feature dict (C04's sameNames); visvalingam's track.copy(), addAnalyticalFeature(aire_visval, '@aire') "
                "(createAnalyticalFeature when new: column len(dico), 0.0; an empty track raises), setObsAnalyticalFeature('@aire', 0, nan), "
                "the loop on that column of the feature rows (getObsAnalyticalFeature, C04's removeObs), removeAnalyticalFeature('@aire') with its index shift. "
                "Attributes and entry points (Model/SimplifyTrack.lean, end): the Track attribute no_data_value that TrackReader.readFromFile sets (simplifyN: never read by "
                "simplify/douglas_peucker/visvalingam -- removeNoDataValues is not on the path --, None on a Douglas-Peucker result through Track.__init__, the input's on "
                "Visvalingam's copy); core/network.py Network.simplify (netSimplify: simplify on every edge geometry in insertion order, first exception ends the call); "
                "core/track_collection.py TrackCollection.simplify(tolerance, mode=1) as repaired by 039f340 (collSimplify: output = self.copy() -- a new collection of deep copies --, "
                "output[i] = simplify(output[i], tolerance, mode) in the collection's order, return output; default mode 1; first exception ends the call; an empty collection never "
                "reaches the dispatcher). "
                "The positions' class (ENUCoords / GeoCoords / ECEFCoords) only matters through getX()/getY(), the first two stored components for all three (harness: the "
                "class of the returned positions is the input's). The tolerant ENUCoords.__eq__ (1e-4 per axis) is NOT on the path: the model compares coordinates exactly")
    trusted = [               "TrackCollection.copy() makes a new collection of Track.copy() of every track (the model is functional; the harness checks on every `coll` case that the caller's "
               "collection still holds the same Track objects, that their full snapshots are unchanged and that no Track / Obs object of the result is one of the caller's)",
               "Track.copy is a deep copy (the model is functional: it cannot write its input; the harness compares a full snapshot of the input "
               "track before and after every call: observations' identity, positions, times, feature rows, feature dict, uid/tid/base)",
               "z coordinates and timestamps are not in the model (the algorithms never read them); the harness checks they travel unchanged",
               "a track made by TrackReader.readFromFile is taken as the reader made it (what the reader does with blank / NA fields is C13's model, TV.TextIO): the harness "
               "writes the file, reads it back, checks that the track is the one the case describes (placeholder fixes at no_data_value, no_data_value attribute, tid = file name, "
               "features through read_all) and simplifies that object",
               "one Obs object occurring twice in a track (track + track, addObs(track[0])) is outside the model, which is on values: Visvalingam stores its areas in the Obs "
               "objects, so two positions then share one '@aire' value (findings/C16.json, class vw-shared-obs-object; not generated)",
               "feature rows are as long as the feature dict says (C01's invariant)",
               "CPython's recursion limit (1000 frames) is outside the model; the depth of the recursion is inside it since T16: douglas_peucker recurses once per split "
               "level, the depth is at most len(track) - 2 (dp_depth_le) and exactly that on the oscillation of every length (dp_depth_attained), so a track of more "
               "than ~1000 fixes of that shape raises RecursionError (findings/C16.json, class dp-recursion-depth; the harness generates split chains of at most "
               "~800 levels: deep-* tracks, and compares the depth itself on the `depth` stream)"]
    rule = ("[list-level streams] tracks of 1..9 fixes on integer lattices of side 2..6 (collinear runs, consecutive duplicates, revisited positions, closed loops "
            "forced with stated probabilities), quarter-step dyadic and 2-decimal float tracks; tolerances 1e-3..1e3 (ints and floats), random "
            "3-digit tolerances over 1e-6..1e6, tolerances far above any extent up to the largest double (1e154..1.797e308: eps*eps is infinite in Visvalingam) and tolerances equal to the float distance of a fix to the chord (the dmax == eps boundary); every fix carries its "
            "index as timestamp (and optionally a feature) so kept *observations* are identified; both through simplify(track, tol, mode) and the "
            "functions directly; all 3-fix (quick) / 3- and 4-fix (thorough) tracks on the 3x3 lattice are enumerated. distance_to_segment and "
            "triangle_area are also compared point-wise. "
            "[Track-object stream `trk`] the same tracks (and the empty track) plus tracks of 10..40 fixes with 2-decimal coordinates (noisy line, closed circle, "
            "random walk with pauses, stop cluster with an excursion, zig-zag), as Track objects with uid/tid/base set or not, 0..3 named features (NaN values "
            "included), optional z, timestamps equal to the index or unsorted / repeated / all equal (the observation is then identified by its `tag` feature); a few "
            "tracks of 100..300 fixes; called directly, through simplify(track, tol, mode), simplify with keywords and verbose=False, simplify's default mode, "
            "tracklib.simplify; optionally after 1-2 earlier simplification calls on the SAME track object or on another one (state left behind); compared with "
            "the Track-level model: kept observations, positions, feature rows, feature dict and column indices, uid/tid/base; the input track's full snapshot must be "
            "unchanged. The oracle additionally requires every returned observation to carry the feature values of the input observation and the input to be left "
            "unmodified. All Track objects of 2 and 3 fixes on {0,1}^2 are enumerated. [stream `mode`] which function simplify() calls for modes -2..11. "
            "[attributes, all on the `trk` stream] a quarter of the tracks carry no_data_value (-999999, -9999, -1, 0, 1 or a coordinate of the track), 70 % of those with 1-3 "
            "placeholder fixes (x = y = z = the value) as first / last / interior fix; 12 % have GeoCoords or ECEFCoords positions (oracle: every clause but the planar tolerance); "
            "12 % are written to a CSV file (NA for the placeholders, optional U column, features through read_all) and read back with TrackReader.readFromFile; entry point "
            "Network.simplify on a network whose first or second edge has the track as geometry; observations carrying feature values without dict entry (Track(other.getObsList()), "
            "i.e. a Douglas-Peucker result as input), Douglas-Peucker always, Visvalingam when the finding is listed. [small units, streams dp/vw/trk] lattices of unit 1e-6..1e-3 "
            "around (0,0), (0.5,0.5), (2.35,48.85), ..., with or without a fix a unit away (differences below / around the 1e-4 of the tolerant ENUCoords.__eq__), long shapes scaled "
            "by 1e-6..1e-3, tolerances = fractions / small multiples of the smallest coordinate difference and 1e-7..1e-3; 1 % of the tolerances are far below any extent "
            "(5e-324..1e-30: eps*eps underflows to 0 in Visvalingam); 6 % of the `trk` calls pass the tolerance as numpy.float64. [stream `mode`] also mode given as float / bool. "
            "[stream `wild`] coordinates outside any ENU frame (1e101..1e308, inf, NaN, denormals; squares overflow, areas reach ARGMIN's sentinel): the oracle's "
            "domain is finite coordinates up to 1e100 (ENU metres), beyond it only model and code are compared. "
            "[deep split chains, stream `trk`] 8 (quick) / 48 (thorough) tracks of 120..1040 fixes shaped so that Douglas-Peucker's recursion is 120..800 levels deep "
            "(collinear oscillation of decreasing amplitude, constant zig-zag, boustrophedon survey of 120..520 lines, oscillation of growing amplitude; either axis, "
            "closed or not), tolerance below the spacing (nothing may be dropped) or 0.1 / 3 / 30 times that; 80 % Douglas-Peucker through every entry point, 20 % Visvalingam. "
            "[stream `depth`, T16] the depth of douglas_peucker's recursion on the real code (nested calls, counted by a wrapper around the module-level name the function calls "
            "itself through) against the model's dpDepth: the oscillation of the finding dp-recursion-depth for every n in 0..40 (depth n - 2), 1500 (quick) / 12000 (thorough) "
            "random tracks of the list-level generator with its tolerances, 6 / 40 oscillations and zig-zags of 50..300 fixes; correspondence only (the property does not speak of the depth). "
            "[ties] Visvalingam's result is compared with the model's own run and, when different, accepted iff it is one of the runs with another choice among equally "
            "small triangles (visvalingamAll, tracks of <= 60 fixes, up to 130 / 32 states per level; T13) -- as Douglas-Peucker's is with dpAllFuel (T7). "
            "[stream `coll`: TrackCollection.simplify, always generated since 039f340] every collection of 0, 1, 2 tracks from a pool of six (0, 1, 2, 3, 5 fixes -- a closed loop --, "
            "a reader-like track whose first fix is a placeholder at no_data_value) x 11 mode forms (argument not given = default 1; 1, 2 positional / as float / by keyword; the refused "
            "modes 0, -1, 9, 11) x tolerances {1, 3.5}; 2500 (quick) / 20000 (thorough) random collections of 0..6 tracks of the `trk` generator (a third cut to 0..2 fixes, 12 % of "
            "10..300 fixes; features, z, unsorted / repeated timestamps, no_data_value with placeholder fixes, Geo / ECEF positions), one tolerance per collection. Compared with "
            "collSimplify track by track as `trk` cases are (ties accepted through dpAllFuel / visvalingamAll per track), number of tracks, errors (NameError, AnalyticalFeatureError "
            "of an empty track under Visvalingam), caller's collection and tracks unchanged, no object shared with the result. Oracle: for modes 1 / 2 / default every returned track "
            "is judged as the Track returned by simplify() is; the call may fail only if some track is outside the statement's domain. "
            "[well-formedness] mutate() and shrink() only propose cases the harness can build (parallel lists of equal length; a CSV description that the reader "
            "can honour: csv_ok); a case whose INPUT cannot be built is answered {'harness': why} by impl(): silent in the oracle, a disagreement (never a failing "
            "input) in the correspondence check when the case is well formed. "
            "non-trivial = at least 3 fixes (a fix can be dropped)")

    # ---------------------------------------------------------------- setup
    def setup(self):
        import tracklib
        from tracklib.core.obs import Obs
        from tracklib.core.obs_coords import ENUCoords
        from tracklib.core.obs_time import ObsTime
        from tracklib.core.track import Track
        from tracklib.algo import simplification as S
        from tracklib.util import geometry as G
        self.Obs, self.ENU, self.T, self.Track, self.S, self.G = Obs, ENUCoords, ObsTime, Track, S, G
        from tracklib.core.obs_coords import GeoCoords, ECEFCoords
        from tracklib.io.track_reader import TrackReader
        from tracklib.io.track_format import TrackFormat
        from tracklib.core import network as NW
        self.GEO, self.ECEF, self.Reader, self.Format, self.NW = GeoCoords, ECEFCoords, TrackReader, TrackFormat, NW
        from tracklib.core.track_collection import TrackCollection
        self.TC = TrackCollection
        import numpy
        self.np = numpy
        self.tracklib = tracklib
        self._listed = None

    def listed(self, cls):
        """is `cls` a listed finding of known_findings.json (read, never written)? Inputs of a finding's class are generated
        only then: the engine excuses a failing case only when its class is listed (proposals: findings/C16.json)"""
        if self._listed is None:
            import json, os
            try:
                with open(os.path.join(os.path.dirname(os.path.dirname(os.path.dirname(os.path.abspath(__file__)))), "known_findings.json")) as fh:
                    ents = json.load(fh).get("entries", [])
                self._listed = {e.get("class") for e in ents if e.get("property") == "C16" and e.get("status") == "finding"}
            except Exception:
                self._listed = set()
        return cls in self._listed

    # ---------------------------------------------------------------- generators
    def exhaustive_scopes(self, tier):
        extra = ["TrackCollection.simplify: every collection of 0, 1, 2 tracks from a pool of six tracks (0, 1, 2, 3, 5, 4 fixes) x 11 mode forms (default, 1, 2 positional / float / "
                 "keyword, refused modes 0, -1, 9, 11) x tolerances {1, 3.5}",
                 "every track of 3 fixes on the lattice {0, 3e-5, 6e-5}^2 (all differences below the 1e-4 of ENUCoords.__eq__) x tolerances "
                 "{1.5e-5, 3e-5, 4.5e-5} x {Douglas-Peucker, Visvalingam} through simplify()",
                 "simplify(track, tol, mode) for every mode in -2..11: which function the dispatcher calls",
                 "depth of douglas_peucker's recursion on the oscillation of the finding dp-recursion-depth (ordinates n, -(n-1), ..., +-1 on the y-axis, tolerance 0.5) for every n in 0..40",
                 "every track of 2 and of 3 fixes on the lattice {0,1}^2 as a Track object (two features, uid/tid/base set) x tolerances {0.5, 1} x "
                 "{Douglas-Peucker, Visvalingam}: positions, feature rows, feature dict, uid/tid/base of the result, input left untouched"]
        if tier == "thorough":
            return ["every track of 3 and of 4 fixes on the lattice {0,1,2}^2 x tolerances {0.5, 1, 1.5} x {Douglas-Peucker, Visvalingam}",
                    "distance_to_segment for every point/segment on the lattice {0,1,2}^2 (9^3 triples, degenerate segments included)"] + extra
        return ["every track of 3 fixes on the lattice {0,1,2}^2 x tolerances {0.5, 1, 1.5} x {Douglas-Peucker, Visvalingam}",
                "distance_to_segment for every point/segment on the lattice {0,1,2}^2 (9^3 triples, degenerate segments included)"] + extra

    def rand_track(self, rng):
        style = rng.choice(["lattice"] * 8 + ["quarter", "float"] + ["small"] * 2)
        n = rng.choice([1, 2, 3, 3, 4, 4, 5, 5, 6, 6, 7, 8, 9])
        side = rng.choice([2, 2, 3, 3, 4, 5, 6])
        if style == "lattice":
            pt = lambda: (rng.randrange(side), rng.randrange(side))
        elif style == "quarter":
            pt = lambda: (rng.randrange(4 * side) / 4.0, rng.randrange(4 * side) / 4.0)
        elif style == "small":
            # coordinates whose differences are 1e-6 .. 1e-3 (kilometres, degrees, normalised frames): below / around the 1e-4 of
            # the tolerant ENUCoords.__eq__; lattice of unit h around an origin, sometimes with a far fix (unit-square diagonal)
            h = rng.choice(SMALL_UNITS)
            ox, oy = rng.choice(SMALL_ORIGINS)
            far = rng.random() < 0.3
            def pt():
                if far and rng.random() < 0.25:
                    return (ox + rng.choice([0.25, 0.5, 1.0]), oy + rng.choice([0.0, 0.25, 1.0]))
                return (ox + rng.randrange(side) * h, oy + rng.randrange(side) * h)
        else:
            pt = lambda: (round(rng.uniform(-100, 100), 2), round(rng.uniform(-100, 100), 2))
        pts = [pt()]
        while len(pts) < n:
            r = rng.random()
            if r < 0.15:                                   # consecutive duplicate
                pts.append(pts[-1])
            elif r < 0.30 and len(pts) >= 2:               # revisit an earlier position
                pts.append(rng.choice(pts[:-1]))
            elif r < 0.50 and len(pts) >= 2:               # continue the last step (collinear run), possibly a zero step
                dx, dy = pts[-1][0] - pts[-2][0], pts[-1][1] - pts[-2][1]
                k = rng.choice([1, 1, 2, -1])
                pts.append((pts[-1][0] + k * dx, pts[-1][1] + k * dy))
            else:
                pts.append(pt())
        if n >= 2 and rng.random() < 0.25:                 # closed loop
            pts[-1] = pts[0]
        return [p[0] for p in pts], [p[1] for p in pts], style

    def rand_tol(self, rng, xs, ys, style=None):
        r = rng.random()
        n = len(xs)
        if style == "small" and r < 0.7:
            # tolerances at the scale of the track: fractions / small multiples of its smallest non-zero coordinate difference
            ds = sorted(set(abs(a - b) for l in (xs, ys) for a in l for b in l if a != b))
            u = ds[0] if ds else 1e-5
            t = u * rng.choice([0.05, 0.1, 0.3, 0.5, 0.7, 0.75, 1, 1.25, 1.5, 2, 3])
            if r < 0.15:
                t = float("%.3g" % (10 ** rng.uniform(-7, -3)))
        elif r < 0.55:
            t = rng.choice(TOLS)
        elif r < 0.75 and n >= 3:                          # boundary: the float distance of a fix to some chord of the track
            i = rng.randrange(n)
            a = rng.randrange(n)
            b = rng.randrange(n)
            t = mirror_dist(float(xs[i]), float(ys[i]), float(xs[a]), float(ys[a]), float(xs[b]), float(ys[b]))
            if not t > 0:
                t = rng.choice(TOLS)
        elif r < 0.96:
            t = float("%.3g" % (10 ** rng.uniform(-6, 6)))
        elif r < 0.97:
            t = rng.choice(TINY_TOLS)                      # far below any extent, down to the smallest positive double: eps*eps = 0 in Visvalingam
        else:
            t = rng.choice(HUGE_TOLS)                      # far above any extent, up to the largest double: eps*eps = inf in Visvalingam
        return t

    # ---- Track-object stream
    def long_track(self, rng):
        """10..40 fixes with 2-decimal float coordinates: noisy line, closed circle, random walk, stop cluster + excursion, zig-zag"""
        n = rng.randrange(10, 41) if rng.random() < 0.97 else rng.randrange(100, 301)
        shape = rng.choice(["line", "circle", "walk", "stop", "zigzag"])
        r2 = lambda v: round(v, 2)
        pts = []
        if shape == "line":
            amp = rng.choice([0.0, 0.05, 0.5, 3.0])
            for i in range(n):
                pts.append((r2(i * 2.5), r2(i * 1.25 + rng.uniform(-amp, amp))))
        elif shape == "circle":
            R = rng.choice([1.0, 10.0, 50.0])
            for i in range(n):
                a = 2 * math.pi * i / (n - 1)
                pts.append((r2(R * math.cos(a)), r2(R * math.sin(a))))
            pts[-1] = pts[0]
        elif shape == "walk":
            x = y = 0.0
            for i in range(n):
                pts.append((r2(x), r2(y)))
                if rng.random() < 0.2:
                    continue                                  # stay: consecutive duplicate
                x += rng.uniform(-5, 5); y += rng.uniform(-5, 5)
        elif shape == "stop":
            c = rng.choice([0.05, 0.3, 1.0])
            for i in range(n):
                pts.append((r2(rng.uniform(-c, c)), r2(rng.uniform(-c, c))))
            if rng.random() < 0.5:
                pts[rng.randrange(1, n - 1)] = (r2(rng.uniform(5, 20)), r2(rng.uniform(-20, 20)))
        else:
            h = rng.choice([0.1, 1.0, 4.0])
            for i in range(n):
                pts.append((float(i), h if i % 2 else 0.0))
        if rng.random() < 0.15:
            pts[-1] = pts[0]
        if rng.random() < 0.15:
            # the same shape in small units (a track in kilometres / degrees / a normalised frame), around an origin
            sc = rng.choice([1e-6, 1e-5, 1e-4, 1e-3])
            ox, oy = rng.choice(SMALL_ORIGINS)
            pts = [(ox + p[0] * sc, oy + p[1] * sc) for p in pts]
            return [p[0] for p in pts], [p[1] for p in pts], "long-small-" + shape, sc
        return [p[0] for p in pts], [p[1] for p in pts], "long-" + shape, 1

    def deep_track(self, rng, min_depth=0):
        """several hundred fixes shaped so that Douglas-Peucker's split chain is DEEP (the farthest fix from the chord is next to an end,
        the split L[0:imax] / L[imax:n] peels one or two fixes per level): the recursion is then 100..800 levels deep instead of the
        ~log2(n) of a balanced track -- a collinear oscillation around a point with decreasing amplitude (depth ~ n), a constant zig-zag
        (~0.85 n), a boustrophedon survey of parallel lines run alternately in both directions, only the line ends recorded (~ n/2), an
        oscillation of growing amplitude (~ n/2). The tolerance is below the spacing: every corner deviates, nothing may be dropped.
        (Depth stays below ~800: CPython's own limit of 1000 frames is the listed finding dp-recursion-depth.)"""
        shape = rng.choice(["oscillation", "zigzag", "survey", "growing"])
        depth = rng.randrange(max(120, min_depth), 801)
        unit = rng.choice([1.0, 1.0, 0.5, 2.5, 10.0])
        if shape == "oscillation":
            n = depth + 1
            pts = [(0.0, unit * ((-1) ** i) * (n - i)) for i in range(n)]
            tol = 0.5 * unit
        elif shape == "zigzag":
            n = int(depth / 0.84) + 2
            pts = [(unit * i, unit if i % 2 else 0.0) for i in range(n)]
            tol = 0.3 * unit
        elif shape == "survey":
            depth = min(depth, 520)                        # (two fixes per level: keep the track below ~1000 fixes)
            lines = depth + 1
            w = rng.choice([20.0, 100.0])
            pts = []
            for k in range(lines):
                pts += [(0.0, unit * k), (w * unit, unit * k)] if k % 2 == 0 else [(w * unit, unit * k), (0.0, unit * k)]
            n = len(pts)
            tol = 0.3 * unit
        else:
            depth = min(depth, 520)
            n = 2 * depth + 1
            pts = [(unit * i, unit * ((-1) ** i) * i) for i in range(n)]
            tol = 0.5 * unit
        if rng.random() < 0.25:
            pts = [(b, a) for a, b in pts]                   # the same shape along the other axis
        if rng.random() < 0.2:
            pts[-1] = pts[0]                               # closed
        return [p[0] for p in pts], [p[1] for p in pts], "deep-" + shape, tol

    def deep_trk(self, rng, min_depth=0):
        xs, ys, style, tol = self.deep_track(rng, min_depth)
        n = len(xs)
        algo = "dp" if rng.random() < 0.8 else "vw"
        if algo == "vw" and n > 700:
            xs, ys = xs[:700], ys[:700]
            n = 700
        names, rows = self.rand_table(rng, n)
        return {"kind": "trk", "algo": algo, "xs": xs, "ys": ys, "tol": tol if rng.random() < 0.8 else tol * rng.choice([0.1, 3, 30]),
                "uid": rng.choice([0, 7]), "tid": rng.choice([0, 9]), "base": None, "names": names, "rows": rows,
                "via": rng.choice(["direct", "simplify", "simplify", "toplevel", "simplify_default"] if algo == "dp" else ["direct", "simplify"]),
                "pre": [], "style": style}

    def rand_table(self, rng, n):
        """feature names and one row per fix; the first feature (when any) is the fix's index"""
        if n == 0:
            return [], []
        names = rng.choice([[], [], ["tag"], ["tag", "w"], ["tag", "w"], ["a", "b", "c"], ["speed"]])
        rows = []
        for i in range(n):
            r = []
            for j, _ in enumerate(names):
                if j == 0:
                    r.append(i)
                else:
                    r.append(rng.choice([0, 1, 2.5, -3, 7, 0.125, "nan", i * 10]))
            rows.append(r)
        return list(names), rows

    def rand_via(self, rng, algo):
        v = ["direct", "direct", "simplify", "simplify", "simplify", "simplify_kw", "toplevel", "network"]
        if algo == "dp":
            v.append("simplify_default")
        return rng.choice(v)

    def rand_trk(self, rng, long=False):
        if long:
            xs, ys, style, sc = self.long_track(rng)
            r = rng.random()
            tol = rng.choice([0.01, 0.05, 0.1, 0.3, 0.5, 1, 1.5, 2.5, 5, 10.0, 25, 100]) * sc if r < 0.8 else self.rand_tol(rng, xs, ys)
        else:
            xs, ys, style = self.rand_track(rng)
            if rng.random() < 0.03:
                xs, ys = [], []
            tol = self.rand_tol(rng, xs, ys, style)
        n = len(xs)
        algo = rng.choice(["dp", "vw"])
        names, rows = self.rand_table(rng, n)
        pre = []
        if rng.random() < 0.3:
            for _ in range(rng.choice([1, 1, 2])):
                pre.append([rng.choice(["dp", "vw"]), rng.choice([0.01, 0.5, 1, 3, 1000.0]), rng.choice(["same", "same", "other"])])
        c = {"kind": "trk", "algo": algo, "xs": xs, "ys": ys, "tol": tol, "uid": rng.choice([0, 1, 7, 12345]),
             "tid": rng.choice([0, 3, 9, 777]), "base": rng.choice([None, None, 5, 42]), "names": names, "rows": rows,
             "via": self.rand_via(rng, algo), "pre": pre, "style": style}
        if rng.random() < 0.3:
            c["zs"] = [rng.choice([0, 1, -2, 10.5, 100]) for _ in range(n)]
        if names and names[0] == "tag" and rng.random() < 0.35:
            # timestamps that are not the index: unsorted, repeated, or all equal -- the observation is then identified by its `tag` feature
            r = rng.random()
            if r < 0.4:
                c["ts"] = [rng.randrange(0, max(2, n // 2 + 1)) * 10 for _ in range(n)]
            elif r < 0.7:
                c["ts"] = [1000 - 7 * i for i in range(n)]
            elif r < 0.85:
                c["ts"] = [500] * n
            else:
                c["ts"] = [rng.randrange(0, 100000) for _ in range(n)]
        self.rand_attrs(rng, c)
        if rng.random() < 0.06:
            c["tol_form"] = "np64"                          # the tolerance arrives as a numpy.float64 (computed by the caller with numpy)
        if names and c.get("src") != "csv" and rng.random() < 0.08 and (algo == "dp" or self.listed(FINDING_ORPHAN)):
            # observations that carry feature values the track's dict does not name: Track(other.getObsList()), which is also what
            # douglas_peucker itself returns (so: Visvalingam applied to a Douglas-Peucker result)
            c["orphan"] = True
            if algo == "vw":
                c.pop("ts", None)                       # the first feature value does not survive (the finding): identify by timestamp
        return c

    def rand_attrs(self, rng, c):
        """attributes of the Track that simplification must not be sensitive to: `no_data_value` (with or without placeholder fixes at
        that value, first / last / interior), the class of the positions, a track made by the CSV reader, Network.simplify"""
        n = len(c["xs"])
        if c["via"] == "network":
            c["net_pos"] = rng.choice([0, 0, 1])              # number of other edges simplified before this one
        r = rng.random()
        if r < 0.25:
            nd = rng.choice(NODATA_VALUES)
            if n and rng.random() < 0.15:
                nd = rng.choice(c["xs"] + c["ys"])          # a legitimate coordinate of the track happens to be the no-data value
                if isinstance(nd, str) or nd != nd:
                    nd = -999999
            c["nodata"] = nd
            if n and rng.random() < 0.7:
                zs = list(c.get("zs") or [0] * n)
                where = set()
                for _ in range(rng.choice([1, 1, 1, 2, 3])):
                    where.add(rng.choice([0, n - 1, n - 1, rng.randrange(n)]))
                for i in where:
                    c["xs"][i] = c["ys"][i] = zs[i] = nd
                c["zs"] = zs
        if rng.random() < 0.12:
            c["coords"] = rng.choice(["GEO", "ECEF"])
        if n >= 1 and rng.random() < 0.12 and min(c.get("ts") or [0]) >= 0 and all(m != "@aire" for m in c["names"]):
            nd = c.get("nodata", -999999)
            ok = isinstance(nd, int) and not isinstance(nd, bool)
            for i in range(n):                                # the reader turns a line whose int(E) or int(N) is the value into a placeholder
                x, y = fv(c["xs"][i]), fv(c["ys"][i])
                z = (c.get("zs") or [0] * n)[i]
                if x == nd and y == nd and z == nd:
                    continue
                if int(x) == nd or int(y) == nd:
                    ok = False
            if ok:
                c["src"] = "csv"
                c["nodata"] = nd
                c["uid"], c["base"] = 0, None
        return c

    def wild_case(self, rng):
        """coordinates outside any ENU frame: huge (squares overflow, areas become infinite: not below ARGMIN's initial minimum +inf), infinite, NaN, denormal.
        Outside the property's domain (spec says nothing): model and code are compared on them"""
        n = rng.choice([2, 3, 3, 4, 5, 6])
        xs = [rng.randrange(4) for _ in range(n)]
        ys = [rng.randrange(4) for _ in range(n)]
        W = [1e150, -1e150, 1e155, 2e155, 1e200, -1e200, 1e308, "inf", "-inf", "nan", 5e-324, 1e-200, 1e101]
        for _ in range(rng.choice([1, 1, 2, 3])):
            i = rng.randrange(n)
            if rng.random() < 0.5:
                xs[i] = rng.choice(W)
            else:
                ys[i] = rng.choice(W)
        if rng.random() < 0.2:
            xs[-1], ys[-1] = xs[0], ys[0]
        return {"kind": rng.choice(["dp", "vw"]), "xs": xs, "ys": ys, "tol": rng.choice([0.5, 1, 2, 1e10, 1e100, 1e150]),
                "via": "direct", "af": False, "wild": True}

    # ---- TrackCollection.simplify stream
    COLL_POOL = [
        {"xs": [], "ys": [], "uid": 0, "tid": 0, "base": None, "names": [], "rows": []},
        {"xs": [2], "ys": [1], "uid": 1, "tid": 2, "base": None, "names": ["tag"], "rows": [[0]]},
        {"xs": [0, 3], "ys": [0, 4], "uid": 7, "tid": 9, "base": 5, "names": ["tag", "w"], "rows": [[0, 2.5], [1, "nan"]]},
        {"xs": [0, 2, 4], "ys": [0, 3, 0], "uid": 7, "tid": 9, "base": 5, "names": ["tag", "w"], "rows": [[0, 2.5], [1, 2.5], [2, 7]]},
        {"xs": [0, 4, 4, 0, 0], "ys": [0, 0, 3, 3, 0], "uid": 0, "tid": 3, "base": None, "names": [], "rows": [[], [], [], [], []]},
        {"xs": [-4, -4, 0, 2], "ys": [-4, -1, -1, -1], "zs": [-4, 0, 0, 0], "uid": 0, "tid": 7, "base": None, "names": ["q"],
         "rows": [[0], [1], [2], [3]], "nodata": -4},
    ]
    COLL_MODES = [(None, None), (1, None), (2, None), (1, "float"), (2, "float"), (1, "kw"), (2, "kw"), (0, None), (-1, None), (9, None), (11, None)]

    def coll_sub(self, sub, mode, tol):
        """a `trk` sub-case of a collection: the track as it is put in the collection (built with Obs/Track), the algorithm the mode selects"""
        c = dict(sub)
        for f in ("src", "orphan", "tol_form", "net_pos"):
            c.pop(f, None)
        c.update(kind="trk", algo="vw" if mode == 2 else "dp", tol=tol, via="direct", pre=[], style=c.get("style", "lattice"))
        return c

    def mk_coll(self, subs, mode, form, tol):
        return {"kind": "coll", "mode": mode, "mode_form": form, "tol": tol, "tracks": [self.coll_sub(t, mode, tol) for t in subs]}

    def rand_coll(self, rng):
        """a collection of 0..6 tracks (a third of them shorter than 3 fixes; a few long ones), one tolerance, every mode form: the default,
        1, 2 (positional, keyword, float) and -- 6 % -- a mode the dispatcher refuses"""
        r = rng.random()
        k = 0 if r < 0.04 else (1 if r < 0.25 else rng.choice([2, 2, 3, 3, 4, 5, 6]))
        subs = []
        for _ in range(k):
            t = self.rand_trk(rng, long=rng.random() < 0.12)
            if rng.random() < 0.3:                           # shorter than 3 fixes
                m = rng.choice([0, 1, 1, 2, 2, 2])
                t = self.drop_fix(t, m, len(t["xs"])) if len(t["xs"]) > m else t
            if "@aire" in t["names"]:
                continue
            if not t["xs"]:
                t = dict(t, names=[], rows=[])
            subs.append(t)
        mode, form = rng.choice(self.COLL_MODES[:7] * 5 + self.COLL_MODES[7:])
        tol = rng.choice(TOLS) if (not subs or rng.random() < 0.4) else rng.choice(subs)["tol"]
        return self.mk_coll(subs, mode, form, tol)

    def cases(self, rng, tier):
        out = []
        # TrackCollection.simplify: every collection of 0, 1, 2 tracks from a pool of six (0, 1, 2, 3, 5 fixes; a reader-like track with a
        # placeholder first fix) x every mode form (default, 1, 2 positional / float / keyword, four refused modes) x two tolerances
        pool = self.COLL_POOL
        for subs in [[]] + [[a] for a in pool] + [[a, b] for a in pool for b in pool]:
            for mode, form in self.COLL_MODES:
                for tol in (1, 3.5):
                    out.append(self.mk_coll(subs, mode, form, tol))
        for _ in range(2500 if tier == "quick" else 20000):
            out.append(self.rand_coll(rng))
        for m in range(-2, 12):
            out.append({"kind": "mode", "mode": m})
            out.append({"kind": "mode", "mode": m, "form": "float"})     # `mode == 1` is numeric equality: 1.0, True select like 1
        out.append({"kind": "mode", "mode": 0, "form": "bool"})
        out.append({"kind": "mode", "mode": 1, "form": "bool"})
        lat2 = [(x, y) for x in range(2) for y in range(2)]
        for n in (2, 3):
            for pts in itertools.product(lat2, repeat=n):
                for tol in (0.5, 1):
                    for algo in ("dp", "vw"):
                        out.append({"kind": "trk", "algo": algo, "xs": [q[0] for q in pts], "ys": [q[1] for q in pts], "tol": tol,
                                    "uid": 7, "tid": 9, "base": 5, "names": ["tag", "w"], "rows": [[i, 2.5] for i in range(n)],
                                    "via": "direct", "pre": [], "style": "lattice"})
        for _ in range(8000 if tier == "quick" else 60000):
            out.append(self.rand_trk(rng))
        for _ in range(2500 if tier == "quick" else 15000):
            out.append(self.rand_trk(rng, long=True))
        for _ in range(1500 if tier == "quick" else 10000):
            out.append(self.wild_case(rng))
        # deep split chains (several hundred fixes, recursion 120..800 levels deep): few -- each costs ~0.2-1 s --, spread over the list so
        # that the engine's shards share them; the first two of a run are at least 300 / 500 levels deep
        ndeep = 8 if tier == "quick" else 48
        deep = [self.deep_trk(rng, 500 if i == 0 else (300 if i == 1 else 0)) for i in range(ndeep)]
        step = max(1, len(out) // (ndeep + 1))
        for i, c in enumerate(deep):
            out.insert(min(len(out), (i + 1) * step + i), c)
        if self.listed(FINDING_AIRE):
            for _ in range(300):
                c = self.rand_trk(rng)
                if c["names"] and c["algo"] == "vw":
                    c["names"][rng.randrange(len(c["names"]))] = "@aire"
                    c.pop("ts", None)                       # observations identified by their timestamp (the index), not by column 0
                    out.append(c)
        lat = [(x, y) for x in range(3) for y in range(3)]
        sizes = (3, 4) if tier == "thorough" else (3,)
        for n in sizes:
            for pts in itertools.product(lat, repeat=n):
                xs, ys = [p[0] for p in pts], [p[1] for p in pts]
                for tol in (0.5, 1, 1.5):
                    for algo in ("dp", "vw"):
                        out.append({"kind": algo, "xs": xs, "ys": ys, "tol": tol, "via": "direct", "af": False})
        h = 3e-5                                             # the same lattice in small units: every difference is below ENUCoords' 1e-4
        for pts in itertools.product(lat, repeat=3):
            xs, ys = [p[0] * h for p in pts], [p[1] * h for p in pts]
            for tol in (0.5 * h, h, 1.5 * h):
                for algo in ("dp", "vw"):
                    out.append({"kind": algo, "xs": xs, "ys": ys, "tol": tol, "via": "simplify", "af": False})
        for p in lat:
            for a in lat:
                for b in lat:
                    out.append({"kind": "dist", "p": [p[0], p[1], a[0], a[1], b[0], b[1]]})
        nrand = 20000 if tier == "quick" else 150000
        for _ in range(nrand):
            xs, ys, style = self.rand_track(rng)
            tol = self.rand_tol(rng, xs, ys, style)
            out.append({"kind": rng.choice(["dp", "dp", "vw"]), "xs": xs, "ys": ys, "tol": tol,
                        "via": rng.choice(["simplify", "direct"]), "af": rng.random() < 0.2})
        for _ in range(3000 if tier == "quick" else 30000):
            r = rng.random()
            if r < 0.15:                                     # small units around an origin (differences 1e-6 .. 1e-3)
                h = rng.choice(SMALL_UNITS)
                ox, oy = rng.choice(SMALL_ORIGINS)
                v = [(ox if j % 2 == 0 else oy) + rng.randrange(-6, 7) * h for j in range(6)]
            elif r < 0.5:
                v = [rng.randrange(-4, 5) for _ in range(6)]
            elif r < 0.75:
                v = [rng.randrange(-16, 17) / 4.0 for _ in range(6)]
            else:
                v = [round(rng.uniform(-1000, 1000), 2) for _ in range(6)]
            if rng.random() < 0.15:
                v[4], v[5] = v[2], v[3]                    # degenerate segment
            if rng.random() < 0.15:
                v[rng.choice([4, 5])] = v[rng.choice([2, 3])]
            if rng.random() < 0.15:
                v[0], v[1] = v[2], v[3]                    # the point is the chord's first end (termination hypothesis of T3)
            out.append({"kind": rng.choice(["dist", "dist", "area"]), "p": v})
        out += self.depth_cases(random.Random(rng.random()), tier)
        return out

    def depth_cases(self, rng, tier):
        """stream `depth` (T16): the DEPTH of douglas_peucker's recursion -- nested calls below the outermost one, measured on the real code by a
        counting wrapper around the module's function -- against the model's dpDepth. The oscillation of the finding dp-recursion-depth
        (n fixes on the y-axis, ordinates n, -(n-1), ..., +-1; tolerance 0.5) for every n in 0..40: depth n - 2 (TV.C16.dp_depth_attained);
        random tracks of the `dp` stream; a few oscillations / zig-zags of 50..300 fixes (each level costs two Python frames here: the
        wrapper's and the function's)."""
        out = []
        for n in range(0, 41):
            out.append({"kind": "depth", "xs": [0.0] * n, "ys": [float((-1) ** i * (n - i)) for i in range(n)], "tol": 0.5, "style": "oscillation"})
        for _ in range(1500 if tier == "quick" else 12000):
            xs, ys, style = self.rand_track(rng)
            out.append({"kind": "depth", "xs": xs, "ys": ys, "tol": self.rand_tol(rng, xs, ys, style), "style": style})
        for _ in range(6 if tier == "quick" else 40):
            n = rng.randrange(50, 301)
            unit = rng.choice([1.0, 0.5, 2.5])
            if rng.random() < 0.5:
                xs, ys, tol, style = [0.0] * n, [unit * (-1) ** i * (n - i) for i in range(n)], 0.5 * unit, "oscillation"
            else:
                xs, ys, tol, style = [unit * i for i in range(n)], [unit if i % 2 else 0.0 for i in range(n)], 0.3 * unit, "zigzag"
            if rng.random() < 0.3:
                xs, ys = ys, xs
            out.append({"kind": "depth", "xs": xs, "ys": ys, "tol": tol, "style": style})
        return out

    def describe(self, case):
        k = case["kind"]
        t = {"kind": k}
        if k == "mode":
            return t
        if k == "coll":
            ns = [len(c["xs"]) for c in case["tracks"]]
            t["tracks"] = len(ns) if len(ns) < 4 else "4+"
            t["coll_mode"] = "default" if case["mode"] is None else (str(case["mode"]) + ("/" + case["mode_form"] if case.get("mode_form") else ""))
            t["coll_short_tracks"] = sum(1 for n in ns if n < 3)
            t["coll_nodata"] = sum(1 for c in case["tracks"] if c.get("nodata") is not None)
            return t
        if k == "depth":
            n = len(case["xs"])
            t["n"] = n if n < 10 else ("10+" if n < 50 else "50+")
            t["depth_style"] = "oscillation/zigzag" if case.get("style") in ("oscillation", "zigzag") else "random"
            return t
        if k in ("dp", "vw", "trk"):
            if case.get("wild"):
                return {"kind": k, "wild": True}
            xs, ys = case["xs"], case["ys"]
            n = len(xs)
            t["n"] = n if n < 10 else "10+"
            t["via"] = case["via"]
            t["closed"] = n >= 2 and xs[0] == xs[-1] and ys[0] == ys[-1]
            t["consecutive_dup"] = any(xs[i] == xs[i + 1] and ys[i] == ys[i + 1] for i in range(n - 1))
            t["revisit"] = len(set(zip(xs, ys))) < n
            t["collinear_run"] = collinear_run(xs, ys)
            t["tol_decade"] = int(math.floor(math.log10(float(case["tol"])))) if case["tol"] > 0 else "<=0"
            ds = [abs(fv(a) - fv(b)) for l in (xs, ys) for a, b in zip(l, l[1:]) if a != b]
            t["small_steps"] = bool(ds) and min(ds) < 1e-3
        if k == "trk":
            t["nodata"] = "none" if case.get("nodata") is None else (
                "placeholders" if any(x == case["nodata"] for x in case["xs"]) else "set")
            t["coords"] = case.get("coords", "ENU")
            t["src"] = case.get("src", "obj")
            t["orphan_rows"] = bool(case.get("orphan"))
            t["tol_form"] = case.get("tol_form") or "python"
            t["algo"] = case["algo"]
            t["features"] = len(case["names"])
            t["pre_calls"] = len(case.get("pre", []))
            t["timestamps"] = "index" if not case.get("ts") else ("repeated" if len(set(case["ts"])) < len(case["ts"]) else "unsorted")
        return t

    def nontrivial(self, case):
        if case["kind"] == "mode":
            return True
        if case["kind"] == "coll":
            return any(len(c["xs"]) >= 3 for c in case["tracks"])
        if case["kind"] in ("dp", "vw", "trk", "depth"):
            return len(case["xs"]) >= 3
        p = case["p"]
        return (p[2], p[3]) != (p[4], p[5])

    # ---------------------------------------------------------------- implementation
    def mk(self, case):
        obs = []
        for i, (x, y) in enumerate(zip(case["xs"], case["ys"])):
            obs.append(self.Obs(self.ENU(fv(x), fv(y), 0), self.T.readUnixTime(i)))
        tr = self.Track(obs)
        if case.get("af"):
            tr.createAnalyticalFeature("tag", [i for i in range(len(obs))])
        return tr

    def mk_trk(self, case):
        zs = case.get("zs") or [0] * len(case["xs"])
        ts = case.get("ts") or list(range(len(case["xs"])))
        if case.get("src") == "csv":
            return self.mk_trk_csv(case, zs, ts)
        C = {"ENU": self.ENU, "GEO": self.GEO, "ECEF": self.ECEF}[case.get("coords", "ENU")]
        obs = [self.Obs(C(fv(x), fv(y), z), self.T.readUnixTime(t)) for x, y, z, t in zip(case["xs"], case["ys"], zs, ts)]
        tr = self.Track(obs, case["uid"], case["tid"], case["base"])
        if obs:
            for j, name in enumerate(case["names"]):
                tr.createAnalyticalFeature(name, [fv(r[j]) for r in case["rows"]])
        if case.get("orphan"):
            tr = self.Track(tr.getObsList(), case["uid"], case["tid"], case["base"])   # the observations keep their values, the dict is empty
        if case.get("nodata") is not None:
            tr.no_data_value = case["nodata"]
        return tr

    def mk_trk_csv(self, case, zs, ts):
        """the track as TrackReader.readFromFile makes it from a CSV file: a line whose E and N fields are `NA` becomes a fix at
        (no_data, no_data, no_data); track.no_data_value is the format's; tid is the file's base name; features through read_all"""
        nd = case["nodata"]
        names = case["names"]
        has_u = bool(case.get("zs"))
        head = ["T", "E", "N"] + (["U"] if has_u else []) + list(names)
        lines = [",".join(head)]
        for i in range(len(case["xs"])):
            x, y, z = case["xs"][i], case["ys"][i], zs[i]
            ph = (x == nd and y == nd and z == nd)
            f = [fmt_time(ts[i]), "NA" if ph else num_repr(x), "NA" if ph else num_repr(y)]
            if has_u:
                f.append("0" if ph else num_repr(z))
            f += [num_repr(v) for v in (case["rows"][i] if names else [])]
            lines.append(",".join(f))
        d = tempfile.mkdtemp(prefix="c16_")
        try:
            path = os.path.join(d, "trk%d.csv" % case["tid"])
            with open(path, "w") as fh:
                fh.write("\n".join(lines) + "\n")
            par = {"ext": "CSV", "id_T": 0, "id_E": 1, "id_N": 2, "header": 1, "separator": ",", "srid": case.get("coords", "ENU"),
                   "time_fmt": TIME_FMT, "no_data_value": nd, "read_all": bool(names)}
            if has_u:
                par["id_U"] = 3
            tr = self.Reader.readFromFile(path, self.Format(par))
        finally:
            shutil.rmtree(d, ignore_errors=True)
        # the case describes the track the reader is expected to make (C13's business): anything else is not an input of this check
        got = [[o.position.getX(), o.position.getY(), o.position.getZ(), o.timestamp.toAbsTime()] for o in tr.getObsList()]
        want = [[fv(x), fv(y), z, t] for x, y, z, t in zip(case["xs"], case["ys"], zs, ts)]
        if not same_rows(got, want) or tr.no_data_value != nd or tr.getListAnalyticalFeatures() != list(names):
            raise HarnessCase("the CSV reader did not produce the track described by the case: %s" % (got,))
        return tr

    def snapshot(self, tr):
        """everything observable of a Track: observations (identity, position, time, feature row), feature dict, uid/tid/base"""
        pts = tr.getObsList()
        return {"size": tr.size(), "ids": [id(o) for o in pts],
                "xyz": [[o.position.getX(), o.position.getY(), o.position.getZ()] for o in pts],
                "t": [o.timestamp.toAbsTime() for o in pts], "rows": [list(o.features) for o in pts],
                "dico": dict(tr._Track__analyticalFeaturesDico), "uid": tr.uid, "tid": tr.tid, "base": tr.base,
                "nodata": tr.no_data_value}

    def snap_diff(self, a, b):
        for k in ("size", "ids", "t", "dico", "uid", "tid", "base", "nodata"):
            if a[k] != b[k]:
                return "%s: %s -> %s" % (k, a[k], b[k])
        if not same_rows(a["xyz"], b["xyz"]):
            return "positions: %s -> %s" % (a["xyz"], b["xyz"])
        if not same_rows(a["rows"], b["rows"]):
            return "feature rows: %s -> %s" % (a["rows"], b["rows"])
        return None

    def norm_tid(self, case, tid):
        """a track made by the reader has the file's base name `trk<tid>` (a string) as tid"""
        if case.get("src") == "csv" and isinstance(tid, str) and tid == "trk%d" % case["tid"]:
            return case["tid"]
        return tid

    def prepare(self, tr, algo, tol, via, net_pos=0):
        """everything that has to exist before the call under test (the network around an edge geometry): harness plumbing.
        Returns a thunk that makes the call of the property's entry point and nothing else"""
        S = self.S
        mode = S.MODE_SIMPLIFY_DOUGLAS_PEUCKER if algo == "dp" else S.MODE_SIMPLIFY_VISVALINGAM
        if via == "network":
            # Network.simplify(tolerance, mode): every edge geometry is replaced by simplify(geometry, tolerance, mode)
            NW = self.NW
            net = NW.Network()
            geoms = [self.mk_trk(OTHER_EDGE) for _ in range(net_pos)] + [tr]
            for i, g in enumerate(geoms):
                net.addEdge(NW.Edge(i, g), NW.Node(2 * i, self.ENU(i, 0, 0)), NW.Node(2 * i + 1, self.ENU(i, 1, 0)))
            def run():
                net.simplify(tol, mode)
                return net.EDGES[net_pos].geom
            return run
        if via == "simplify":
            return lambda: S.simplify(tr, tol, mode)
        if via == "simplify_kw":
            return lambda: S.simplify(track=tr, tolerance=tol, mode=mode, verbose=False)
        if via == "simplify_default":
            return lambda: S.simplify(tr, tol)
        if via == "toplevel":
            return lambda: self.tracklib.simplify(tr, tol, mode, False)
        return (lambda: S.douglas_peucker(tr, tol)) if algo == "dp" else (lambda: S.visvalingam(tr, tol))

    def call(self, tr, algo, tol, via, net_pos=0):
        return self.prepare(tr, algo, tol, via, net_pos)()

    def impl_mode(self, case):
        """which function does simplify(track, tol, mode) call? (the four candidates are replaced by recorders for the call)"""
        S = self.S
        names = ["douglas_peucker", "visvalingam", "squaring", "optimalSimplification"]
        saved = {n: getattr(S, n) for n in names}
        called = []
        try:
            for n in names:
                setattr(S, n, (lambda nn: (lambda *a, **k: called.append(nn)))(n))
            tr = self.Track([self.Obs(self.ENU(0, 0, 0), self.T.readUnixTime(0)), self.Obs(self.ENU(1, 1, 0), self.T.readUnixTime(1))])
            try:
                m = case["mode"]
                m = float(m) if case.get("form") == "float" else (bool(m) if case.get("form") == "bool" else m)
                S.simplify(tr, 1.0, m, False)
            except NameError:
                called.append("err:NameError")
        finally:
            for n in names:
                setattr(S, n, saved[n])
        return {"calls": called}

    def impl(self, case):
        k = case["kind"]
        if k == "dist":
            return {"v": float(self.G.distance_to_segment(*case["p"]))}
        if k == "area":
            return {"v": float(self.G.triangle_area(*case["p"]))}
        if k == "mode":
            return self.impl_mode(case)
        if k == "trk":
            return self.impl_trk(case)
        if k == "coll":
            return self.impl_coll(case)
        if k == "depth":
            return self.impl_depth(case)
        try:
            tr = self.mk(case)
        except (Exception, SystemExit) as e:
            return {"harness": "the track of the case could not be built: %r" % (e,)}
        if case["via"] == "simplify":
            mode = self.S.MODE_SIMPLIFY_DOUGLAS_PEUCKER if k == "dp" else self.S.MODE_SIMPLIFY_VISVALINGAM
            res = self.S.simplify(tr, case["tol"], mode)
        elif k == "dp":
            res = self.S.douglas_peucker(tr, case["tol"])
        else:
            res = self.S.visvalingam(tr, case["tol"])
        if not isinstance(res, self.Track):
            return {"err": "err:not-a-track", "detail": "the call returned %r" % (res,)}
        kept, xy = [], []
        for j in range(res.size()):
            o = res.getObs(j)
            idx = int(round(o.timestamp.toAbsTime()))
            if case.get("af") and len(o.features) >= 1 and o.features[0] != idx:
                idx = -1                                    # the feature no longer travels with its observation
            kept.append(idx)
            xy.append([o.position.getX(), o.position.getY()])
        return {"kept": kept, "xy": xy, "input_size_after": tr.size()}

    def impl_depth(self, case):
        """how deep does douglas_peucker(track, tol) recurse? The module's name `douglas_peucker` -- the one the function calls itself
        through -- is replaced by a counting wrapper for the duration of the call (harness plumbing), the function itself is the real one"""
        S = self.S
        try:
            tr = self.mk(case)
        except (Exception, SystemExit) as e:
            return {"harness": "the track of the case could not be built: %r" % (e,)}
        orig = S.douglas_peucker
        st = {"cur": 0, "max": 0}
        def counting(track, eps):
            st["cur"] += 1
            if st["cur"] > st["max"]:
                st["max"] = st["cur"]
            try:
                return orig(track, eps)
            finally:
                st["cur"] -= 1
        S.douglas_peucker = counting
        try:
            counting(tr, case["tol"])
        finally:
            S.douglas_peucker = orig
        return {"depth": st["max"] - 1}

    def impl_trk(self, case):
        # --- building the input (and the state left by earlier calls): harness plumbing, never judged as the implementation's failure
        try:
            tr = self.mk_trk(case)
            before = self.snapshot(tr)
            other = None
            for a, t, which in case.get("pre", []):
                if which == "same":
                    target = tr
                else:
                    if other is None:
                        other = self.mk_trk(OTHER_EDGE)
                    target = other
                try:
                    self.call(target, a, t, "direct")
                except Exception:
                    pass                                      # an earlier call that fails is the business of its own case
            tol = self.np.float64(case["tol"]) if case.get("tol_form") == "np64" else case["tol"]
            run = self.prepare(tr, case["algo"], tol, case["via"], case.get("net_pos", 0))
        except (Exception, SystemExit) as e:
            return {"harness": e.args[0] if isinstance(e, HarnessCase) else "the input of the case could not be built: %r" % (e,)}
        # --- the call under test: an exception from here on is the implementation's
        res = run()
        if not isinstance(res, self.Track):
            return {"err": "err:not-a-track", "detail": "the call returned %r" % (res,)}
        return self.trk_out(case, res, before, self.snapshot(tr))

    def trk_out(self, case, res, before, after):
        """the canonical description of the Track `res` returned for the input track whose snapshots before / after the call are given"""
        out = self.snapshot(res)
        inp_ids = set(before["ids"])
        base = out["base"]
        if case.get("ts"):                                    # observations are identified by their first feature (`tag` = index)
            kept = [int(r[0]) if (r and isinstance(r[0], (int, float)) and r[0] == r[0] and float(r[0]).is_integer()) else -1 for r in out["rows"]]
        else:
            kept = [int(round(t)) for t in out["t"]]
        return {"kept": kept, "t": out["t"], "xyz": out["xyz"], "rows": out["rows"],
                "names": list(out["dico"].keys()), "cols": list(out["dico"].values()),
                "uid": out["uid"], "tid": self.norm_tid(case, out["tid"]), "base": base if (base is None or isinstance(base, int)) else repr(base),
                "nodata": out["nodata"], "classes": sorted(set(type(o.position).__name__ for o in res.getObsList())),
                "input_changed": self.snap_diff(before, after),
                "shares_obs": bool(out["ids"]) and all(i in inp_ids for i in out["ids"])}

    def impl_coll(self, case):
        """TrackCollection(tracks).simplify(tolerance[, mode]): the tracks returned, one description each (as for a `trk` case), whether
        the caller's collection / tracks were written, and whether the result holds objects of the caller's (it is made of copies)"""
        try:
            tracks = [self.mk_trk(c) for c in case["tracks"]]
            coll = self.TC(tracks)
            before = [self.snapshot(t) for t in tracks]
            tol, m, form = case["tol"], case["mode"], case.get("mode_form")
            if m is None:
                run = lambda: coll.simplify(tol)
            elif form == "kw":
                run = lambda: coll.simplify(tolerance=tol, mode=m)
            elif form == "float":
                run = lambda: coll.simplify(tol, float(m))
            else:
                run = lambda: coll.simplify(tol, m)
        except (Exception, SystemExit) as e:
            return {"harness": e.args[0] if isinstance(e, HarnessCase) else "the collection of the case could not be built: %r" % (e,)}
        res = run()
        if not isinstance(res, self.TC):
            return {"err": "err:not-a-collection", "detail": "the call returned %r" % (res,)}
        after = [self.snapshot(t) for t in tracks]
        now = coll.getTracks()
        changed = None
        if len(now) != len(tracks) or any(a is not b for a, b in zip(now, tracks)):
            changed = "the list of tracks of the caller's collection was modified"
        for i in range(len(tracks)):
            if changed is None and self.snap_diff(before[i], after[i]):
                changed = "track %d of the caller's collection: %s" % (i, self.snap_diff(before[i], after[i]))
        got = res.getTracks()
        if any(not isinstance(r, self.Track) for r in got):
            return {"err": "err:not-a-track", "detail": "the returned collection holds %r" % ([type(r).__name__ for r in got],)}
        inp_obs = set(i for b in before for i in b["ids"])
        alias = res is coll or any(any(r is t for t in tracks) for r in got) or any(id(o) in inp_obs for r in got for o in r.getObsList())
        outs = []
        for i, r in enumerate(got):
            if i < len(tracks):
                o = self.trk_out(case["tracks"][i], r, before[i], after[i])
            else:
                b = self.snapshot(r)
                o = self.trk_out({"uid": 0, "tid": 0}, r, b, b)
            outs.append(o)
        return {"size": len(got), "tracks": outs, "input_changed": changed, "aliases_input": alias}

    # ---------------------------------------------------------------- model
    def geom_tokens(self, c):
        """the eight tokens that describe a Track to the driver (positions, uid, tid, base, feature names, columns, rows)"""
        fl = lambda l: ",".join(fbits(fv(v)) for v in l) if l else "_"
        rows = ";".join(fl(r) for r in c["rows"]) if (c["rows"] and c["names"]) else "_"
        named = c["names"] and not c.get("orphan")
        return "%s %s %d %d %s %s %s %s" % (
            fl(c["xs"]), fl(c["ys"]), c["uid"], c["tid"],
            "_" if c["base"] is None else str(c["base"]), ",".join(c["names"]) if named else "_",
            ",".join(str(j) for j in range(len(c["names"]))) if named else "_", rows)

    def tie_request(self, c):
        """the driver line that enumerates the runs with another choice among ties for the track of a `trk` (sub-)case, or None"""
        fl = lambda l: ",".join(fbits(fv(v)) for v in l) if l else "_"
        if c["algo"] == "dp" and 1 <= len(c["xs"]) <= 9:
            return "C16.dp %s %s %s" % (fbits(c["tol"]), fl(c["xs"]), fl(c["ys"]))
        if c["algo"] == "vw" and 3 <= len(c["xs"]) <= VW_ALL_MAX_N:
            return "C16.vwall %s %s %s %d" % (fbits(c["tol"]), fl(c["xs"]), fl(c["ys"]), vw_cap(len(c["xs"])))
        return None

    def requests_coll(self, case):
        subs = case["tracks"]
        head = "C16.coll %s %s %d" % ("_" if case["mode"] is None else str(int(case["mode"])), fbits(case["tol"]), len(subs))
        toks = [self.geom_tokens(c) + " " + ("_" if c.get("nodata") is None else fbits(c["nodata"])) for c in subs]
        lines = [" ".join([head] + toks)]
        if case["mode"] in (None, 1, 2):
            lines += [l for l in (self.tie_request(c) for c in subs) if l]
        return lines

    def requests(self, case):
        k = case["kind"]
        if k == "dist":
            return ["C16.dist %s" % " ".join(fbits(v) for v in case["p"]),
                    "C16.distq %s" % " ".join(ratstr(v) for v in case["p"])]
        if k == "area":
            return ["C16.area %s" % " ".join(fbits(v) for v in case["p"])]
        if k == "mode":
            return ["C16.mode %d" % case["mode"]]
        fl = lambda l: ",".join(fbits(fv(v)) for v in l) if l else "_"
        if k == "coll":
            return self.requests_coll(case)
        if k == "depth":
            return ["C16.dpdepth %s %s %s" % (fbits(case["tol"]), fl(case["xs"]), fl(case["ys"]))]
        if k == "trk":
            algo = case["algo"]
            rows = ";".join(fl(r) for r in case["rows"]) if (case["rows"] and case["names"]) else "_"
            def geom(c, rows):
                named = c["names"] and not c.get("orphan")
                return "%s %s %d %d %s %s %s %s" % (
                    fl(c["xs"]), fl(c["ys"]), c["uid"], c["tid"],
                    "_" if c["base"] is None else str(c["base"]), ",".join(c["names"]) if named else "_",
                    ",".join(str(j) for j in range(len(c["names"]))) if named else "_", rows)
            nd = "_" if case.get("nodata") is None else fbits(case["nodata"])
            head = "%d %s" % (1 if algo == "dp" else 2, fbits(case["tol"]))
            if case["via"] == "network":                    # Network.simplify: the model of the loop over the edges (netSimplify)
                k = case.get("net_pos", 0)
                other = geom(OTHER_EDGE, ";".join(fl(r) for r in OTHER_EDGE["rows"])) + " _"
                line = "C16.net %s %d %s" % (head, k + 1, " ".join([other] * k + [geom(case, rows) + " " + nd]))
            elif case.get("nodata") is not None:            # the attribute no_data_value is part of the model's track (simplifyN)
                line = "C16.trkn %s %s %s" % (head, geom(case, rows), nd)
            else:
                line = "C16.trk %s %s" % (head, geom(case, rows))
            if algo == "dp" and len(case["xs"]) <= 9:      # the runs reachable with another choice among equally far fixes
                return [line, "C16.dp %s %s %s" % (fbits(case["tol"]), fl(case["xs"]), fl(case["ys"]))]
            if algo == "vw" and 3 <= len(case["xs"]) <= VW_ALL_MAX_N:   # ... among equally small triangles (T13)
                return [line, "C16.vwall %s %s %s %d" % (fbits(case["tol"]), fl(case["xs"]), fl(case["ys"]), vw_cap(len(case["xs"])))]
            return [line]
        if k == "vw" and 1 <= len(case["xs"]) <= VW_ALL_MAX_N:
            return ["C16.vwall %s %s %s %d" % (fbits(case["tol"]), fl(case["xs"]), fl(case["ys"]), vw_cap(len(case["xs"])))]
        return ["C16.%s %s %s %s" % (k, fbits(case["tol"]), fl(case["xs"]), fl(case["ys"]))]

    def decode(self, case, replies):
        k = case["kind"]
        r = replies[0]
        if r == "bad-request":
            raise ValueError("bad-request")
        if k == "dist":
            return {"v": bitsf(r), "sq": replies[1]}
        if k == "area":
            return {"v": bitsf(r)}
        if k == "mode":
            return {"calls": [ALGO_OF_MODE[r]]}
        if r == "unsupported":
            raise ValueError("unsupported")
        if r.startswith("err:"):
            return {"err": ERRMAP.get(r, r)}
        if k == "coll":
            return self.decode_coll(case, replies)
        if k == "depth":
            return {"depth": int(r)}
        if k == "trk" and case["via"] == "network":
            r = r.split(" | ")[case.get("net_pos", 0)]      # the geometry of this case's edge
        parts = r.split(" ")
        idx = lambda s: [] if s == "_" else [int(t) for t in s.split(",")]
        kept = idx(parts[0])
        if k == "trk":
            zs = case.get("zs") or [0] * len(case["xs"])
            rows = [[]] * len(kept) if parts[6] == "_" else [[] if t == "_" else [bitsf(v) for v in t.split(",")] for t in parts[6].split(";")]
            out = {"kept": kept, "xyz": [[fv(case["xs"][i]), fv(case["ys"][i]), zs[i]] for i in kept], "rows": rows,
                   "names": [] if parts[4] == "_" else parts[4].split(","), "cols": idx(parts[5]),
                   "uid": int(parts[1]), "tid": int(parts[2]), "base": None if parts[3] == "_" else int(parts[3]),
                   "nodata": None if (len(parts) < 8 or parts[7] == "_") else bitsf(parts[7])}
            if len(replies) > 1 and not replies[1].startswith("err:") and replies[1] != "bad-request":
                alls = replies[1].split(" ")[1]
                if alls != "toomany":                       # (Visvalingam: too many tied states to enumerate -> only the code's own run)
                    out["all"] = [idx(t) for t in alls.split(";")]
            return out
        out = {"kept": kept, "xy": [[fv(case["xs"][i]), fv(case["ys"][i])] for i in kept], "input_size_after": len(case["xs"])}
        if k == "dp":
            out["all"] = [idx(s) for s in parts[1].split(";")]
        elif len(parts) > 1 and parts[1] != "toomany":
            out["all"] = [idx(s) for s in parts[1].split(";")]
        return out

    def decode_trk_reply(self, c, text, tie_reply=None):
        """the driver's description of a returned Track (reply of trk / trkn, one part of net / coll) for the input track of the (sub-)case c"""
        parts = text.split(" ")
        idx = lambda s: [] if s == "_" else [int(t) for t in s.split(",")]
        kept = idx(parts[0])
        zs = c.get("zs") or [0] * len(c["xs"])
        rows = [[]] * len(kept) if parts[6] == "_" else [[] if t == "_" else [bitsf(v) for v in t.split(",")] for t in parts[6].split(";")]
        out = {"kept": kept, "xyz": [[fv(c["xs"][i]), fv(c["ys"][i]), zs[i]] for i in kept], "rows": rows,
               "names": [] if parts[4] == "_" else parts[4].split(","), "cols": idx(parts[5]),
               "uid": int(parts[1]), "tid": int(parts[2]), "base": None if parts[3] == "_" else int(parts[3]),
               "nodata": None if (len(parts) < 8 or parts[7] == "_") else bitsf(parts[7])}
        if tie_reply is not None and not tie_reply.startswith("err:") and tie_reply != "bad-request":
            alls = tie_reply.split(" ")[1]
            if alls != "toomany":
                out["all"] = [idx(t) for t in alls.split(";")]
        return out

    def decode_coll(self, case, replies):
        subs = case["tracks"]
        r = replies[0]
        texts = [] if r == "_" else r.split(" | ")
        ties = [None] * len(subs)
        if case["mode"] in (None, 1, 2):
            j = 1
            for i, c in enumerate(subs):
                if self.tie_request(c):
                    ties[i] = replies[j]
                    j += 1
        if len(texts) != len(subs):
            raise ValueError("the driver returned %d tracks for %d" % (len(texts), len(subs)))
        return {"size": len(texts), "tracks": [self.decode_trk_reply(c, t, ties[i]) for i, (c, t) in enumerate(zip(subs, texts))]}

    def compare_coll(self, case, impl_out, model_out):
        if "err" in impl_out or "err" in model_out:
            if impl_out.get("err") == model_out.get("err"):
                return None
            return "impl=%s model=%s" % ({k: impl_out[k] for k in impl_out if k != "tracks"}, {k: model_out[k] for k in model_out if k != "tracks"})
        if impl_out["size"] != model_out["size"]:
            return "TrackCollection.simplify returned %d tracks, the model %d" % (impl_out["size"], model_out["size"])
        if impl_out["input_changed"]:
            return "the caller's collection was modified: %s" % impl_out["input_changed"]
        if impl_out["aliases_input"]:
            return "the returned collection holds Track / Obs objects of the caller's collection (the model: simplified COPIES)"
        for i, c in enumerate(case["tracks"]):
            msg = self.compare_trk(c, impl_out["tracks"][i], model_out["tracks"][i])
            if msg:
                return "track %d of the collection: %s" % (i, msg)
        return None

    def compare_trk(self, case, impl_out, model_out):
        if "err" in impl_out or "err" in model_out:
            if impl_out.get("err") == model_out.get("err"):
                return None
            return "impl=%s model=%s" % (impl_out, model_out)
        if impl_out["input_changed"]:
            return "the input track was modified: %s" % impl_out["input_changed"]
        if impl_out["kept"] == model_out["kept"]:
            if not same_rows(impl_out["xyz"], model_out["xyz"]):
                return "positions differ: impl=%s model=%s" % (impl_out["xyz"], model_out["xyz"])
            if not same_rows(impl_out["rows"], model_out["rows"]):
                return "feature rows differ: impl=%s model=%s" % (impl_out["rows"], model_out["rows"])
            for f in ("names", "cols", "uid", "tid", "base", "nodata"):
                if impl_out[f] != model_out[f]:
                    return "%s of the result: impl=%r model=%r" % (f, impl_out[f], model_out[f])
            return self.classes_ok(case, impl_out)
        if case["algo"] == "dp" and impl_out["kept"] in model_out.get("all", []):
            # another choice among equally far fixes (free in the property): uid/tid/base depend on the left-most piece, so only
            # their range is checked (dp_track_obs); positions and rows are the oracle's business
            if impl_out["names"] != []:
                return "feature dict of a Douglas-Peucker result: impl=%r model=[]" % (impl_out["names"],)
            if (impl_out["uid"], impl_out["tid"], impl_out["base"]) not in ((case["uid"], case["tid"], case["base"]), (0, 0, None)):
                return "uid/tid/base of the result: %r" % ((impl_out["uid"], impl_out["tid"], impl_out["base"]),)
            if impl_out["nodata"] is not None:
                return "no_data_value of a Douglas-Peucker result: impl=%r model=None" % (impl_out["nodata"],)
            return self.classes_ok(case, impl_out)
        if case["algo"] == "vw" and impl_out["kept"] in model_out.get("all", []):
            # another choice among equally small triangles (free in the property; T13: every such run is a sub-sequence with both ends).
            # The Track around the observations does not depend on the run: feature dict, uid/tid/base, no_data_value are the model's;
            # the observations returned must be the input's (position, feature row)
            for f in ("names", "cols", "uid", "tid", "base", "nodata"):
                if impl_out[f] != model_out[f]:
                    return "%s of the result: impl=%r model=%r" % (f, impl_out[f], model_out[f])
            n = len(case["xs"])
            kept = impl_out["kept"]
            if all(isinstance(i, int) and 0 <= i < n for i in kept):
                zs = case.get("zs") or [0] * n
                if not same_rows(impl_out["xyz"], [[fv(case["xs"][i]), fv(case["ys"][i]), zs[i]] for i in kept]):
                    return "positions of the kept observations differ from the input's: %s" % (impl_out["xyz"],)
                want = [[fv(v) for v in case["rows"][i]] if case["names"] else [] for i in kept]
                if not case.get("orphan") and not same_rows(impl_out["rows"], want):
                    return "feature rows of the kept observations differ from the input's: %s" % (impl_out["rows"],)
            return self.classes_ok(case, impl_out)
        return "kept indices: impl=%s model=%s" % (impl_out["kept"], model_out["kept"])

    def classes_ok(self, case, impl_out):
        """the positions returned are the input's objects' class (ENUCoords / GeoCoords / ECEFCoords): nothing is converted"""
        want = {"ENU": "ENUCoords", "GEO": "GeoCoords", "ECEF": "ECEFCoords"}[case.get("coords", "ENU")]
        if impl_out["classes"] not in ([], [want]):
            return "class of the returned positions: %s, the input's are %s" % (impl_out["classes"], want)
        return None

    def compare(self, case, impl_out, model_out):
        if isinstance(impl_out, dict) and "harness" in impl_out:
            # the harness could not build the input: nothing was run. Reported (as a disagreement, never as a failing input) when the
            # case is one the generators stand for -- then the plumbing or a function it relies on (Track/Obs constructors,
            # createAnalyticalFeature, the CSV reader) no longer does what the check was written against
            return ("harness: %s" % impl_out["harness"]) if well_formed(case) else None
        if case["kind"] == "trk":
            return self.compare_trk(case, impl_out, model_out)
        if case["kind"] == "coll":
            return self.compare_coll(case, impl_out, model_out)
        if case["kind"] == "mode":
            return None if impl_out.get("calls") == model_out.get("calls") else "simplify(mode=%s) called %s, the model dispatches to %s" % (
                case["mode"], impl_out.get("calls", impl_out), model_out.get("calls"))
        if "err" in impl_out or "err" in model_out:
            if impl_out.get("err") == model_out.get("err"):
                return None
            return "impl=%s model=%s" % (impl_out, model_out)
        if case["kind"] == "depth":
            return None if impl_out.get("depth") == model_out.get("depth") else "depth of douglas_peucker's recursion: impl=%s model=%s" % (
                impl_out.get("depth"), model_out.get("depth"))
        if case["kind"] == "dist":
            # the Lean closed form distSegSq (proved equal to distance_to_segment^2, Props/C16 dist_sq_eq) on exact rationals
            p = [F(v) for v in case["p"]]
            sq = parse_rat(model_out["sq"])
            if sq != seg_d2((p[0], p[1]), (p[2], p[3]), (p[4], p[5])):
                return "the harness' oracle and the Lean specification distSegSq differ on %s: %s" % (case["p"], sq)
            if not near(impl_out["v"], math.sqrt(sq), dist_slack(case["p"])):
                return "impl=%r, exact model distance %r" % (impl_out["v"], math.sqrt(sq))
        if case["kind"] in ("dist", "area"):
            return None if close(impl_out["v"], model_out["v"], 1e-12) else "impl=%r model=%r" % (impl_out["v"], model_out["v"])
        if impl_out["input_size_after"] != model_out["input_size_after"]:
            return "the input track was modified: size %s" % impl_out["input_size_after"]
        if impl_out["kept"] == model_out["kept"]:
            return None if same_rows(impl_out["xy"], model_out["xy"]) else "positions differ: impl=%s model=%s" % (impl_out["xy"], model_out["xy"])
        if impl_out["kept"] in model_out.get("all", []):
            # another choice among equally far fixes (Douglas-Peucker, T7) / among equally small triangles (Visvalingam, T13): a
            # legitimate run, the property leaves the tie free; the positions are the oracle's business
            return None
        return "kept indices: impl=%s model=%s" % (impl_out["kept"], model_out["kept"])

    # ---------------------------------------------------------------- oracle (transfer)
    def spec(self, case, out):
        k = case["kind"]
        if isinstance(out, dict) and "harness" in out:
            return None                                      # the input was not built: nothing to judge (see compare)
        if k in ("dp", "vw", "trk", "coll") and not well_formed(case):
            return None                                      # not an input: lists of different lengths, a CSV description no file yields
        if k == "coll":
            return self.spec_coll(case, out)
        if k == "depth":
            return None                                      # the property says nothing about the depth: correspondence only (T16)
        if k == "dist":
            if "err" in out:
                return "distance_to_segment%s raised %s" % (tuple(case["p"]), out["err"])
            p = [F(v) for v in case["p"]]
            want = math.sqrt(seg_d2((p[0], p[1]), (p[2], p[3]), (p[4], p[5])))
            if not near(out["v"], want, dist_slack(case["p"])):
                return "distance_to_segment%s = %r, the distance to the closed segment is %r" % (tuple(case["p"]), out["v"], want)
            if (p[0], p[1]) == (p[2], p[3]) and out["v"] != 0:
                # hypothesis of dp_total_of_self_distance on the implementation's floats: needed for termination
                return "distance_to_segment%s = %r: a chord's first end must be at distance exactly 0 from it" % (tuple(case["p"]), out["v"])
            return None
        if k == "area":
            if "err" in out:
                return "triangle_area raised %s" % out["err"]
            p = [F(v) for v in case["p"]]
            want = abs((p[2] - p[0]) * (p[5] - p[1]) - (p[4] - p[0]) * (p[3] - p[1])) / 2
            if not near(out["v"], float(want), area_slack(case["p"])):
                return "triangle_area%s = %r, expected %r" % (tuple(case["p"]), out["v"], float(want))
            return None
        if k == "mode":
            return None                                      # the property is about what modes 1 and 2 return (kind trk, via simplify)
        algo = case["algo"] if k == "trk" else k
        name = "Douglas-Peucker" if algo == "dp" else "Visvalingam"
        xs, ys, tol = case["xs"], case["ys"], case["tol"]
        n = len(xs)
        if not tol > 0 or n < 2:
            return None                                      # outside the property's domain (tracks of >= 2 fixes, positive tolerances)
        if not all(math.isfinite(fv(v)) and abs(fv(v)) <= 1e100 for v in xs + ys):
            return None                                      # not an ENU track (metres): NaN / infinite / > 1e100 coordinates, see `rule`
        if "err" in out:
            return "%s raised %s (%s) on %s" % (name, out["err"], out.get("detail", ""), list(zip(xs, ys)))
        kept = out["kept"]
        if any((not isinstance(i, int)) or i < 0 or i >= n for i in kept):
            return "%s returned an observation that is not an input observation (tags %s)" % (name, kept)
        if any(kept[j] >= kept[j + 1] for j in range(len(kept) - 1)):
            return "%s output is not a subsequence of the input in its original order: indices %s" % (name, kept)
        if k == "trk":
            zs = case.get("zs") or [0] * n
            ts = case.get("ts") or list(range(n))
            for j, i in enumerate(kept):
                if not same_rows([out["xyz"][j]], [[xs[i], ys[i], zs[i]]]):
                    return "%s moved observation %d from %s to %s" % (name, i, [xs[i], ys[i], zs[i]], out["xyz"][j])
                if out["t"][j] != ts[i]:
                    return "%s changed the timestamp of observation %d from %s to %s" % (name, i, ts[i], out["t"][j])
        else:
            for j, i in enumerate(kept):
                if out["xy"][j] != [xs[i], ys[i]]:
                    return "%s moved observation %d from %s to %s" % (name, i, [xs[i], ys[i]], out["xy"][j])
        if not kept or kept[0] != 0:
            return "%s dropped the first observation: kept %s" % (name, kept)
        if kept[-1] != n - 1:
            return "%s dropped the last observation: kept %s" % (name, kept)
        if k == "trk":
            # "a subsequence of the input OBSERVATIONS": an observation is its position, its timestamp and its feature values
            want = [[fv(v) for v in case["rows"][i]] if case["names"] else [] for i in kept]      # (orphan values included)
            if not same_rows(out["rows"], want):
                j = next(j for j in range(len(kept)) if not same_rows([out["rows"][j]], [want[j]]))
                return "%s returned observation %d with feature values %s, the input observation has %s" % (
                    name, kept[j], out["rows"][j], want[j])
            if out["input_changed"]:
                return "%s modified its input track: %s" % (name, out["input_changed"])
        elif out.get("input_size_after") != n:
            return "%s modified its input track (size %s -> %s)" % (name, n, out.get("input_size_after"))
        if algo == "dp" and case.get("coords", "ENU") == "ENU":
            # (the tolerance clause is about the plane of an ENU track; Geo / ECEF positions get the clauses above and the model)
            V = [(F(xs[i]), F(ys[i])) for i in kept]
            scale = max([abs(float(v)) for v in xs + ys] + [1.0])
            lim = (F(tol) * (1 + F(SLACK)) + F(ABS_SLACK) * F(scale)) ** 2
            # sound shortcut for long tracks: a fix whose FLOAT distance is below tol by a margin (1e-6 relative, far above the rounding
            # error of the formula as long as tol is not tiny w.r.t. the coordinates) is within tol exactly; the others get the exact test
            quick = n > 12 and float(tol) > 1e-6 * scale
            Vf = [(float(xs[i]), float(ys[i])) for i in kept]
            limf = float(tol) * float(tol) * (1 - 1e-6)
            for i in range(n):
                if quick:
                    pf = (float(xs[i]), float(ys[i]))
                    if len(Vf) > 1 and min(seg_d2_float(pf, Vf[k_], Vf[k_ + 1]) for k_ in range(len(Vf) - 1)) <= limf:
                        continue
                d2 = polyline_d2((F(xs[i]), F(ys[i])), V)
                if d2 > lim:
                    return "Douglas-Peucker(tol=%r): input fix %d %s is at distance %.12g > tol from the simplified polyline (kept %s)" % (
                        tol, i, (xs[i], ys[i]), math.sqrt(d2), kept)
        return None

    def in_domain(self, c):
        """is the track of the `trk` (sub-)case one the statement quantifies over: >= 2 fixes, finite ENU-scale coordinates, positive tolerance"""
        return (c["tol"] > 0 and len(c["xs"]) >= 2
                and all(math.isfinite(fv(v)) and abs(fv(v)) <= 1e100 for v in c["xs"] + c["ys"]))

    def spec_coll(self, case, out):
        """TrackCollection.simplify(tolerance[, mode]) with a mode that selects Douglas-Peucker (1, the default) or Visvalingam (2): the track
        returned for EVERY track of the collection is judged exactly as the Track returned by simplify(track, tolerance, mode) is (kind `trk`);
        the call as a whole may only fail if some track is outside the statement's domain (fewer than 2 fixes, non-finite coordinates)"""
        subs = case["tracks"]
        m = 1 if case["mode"] is None else case["mode"]
        if m not in (1, 2) or not case["tol"] > 0:
            return None                                      # other modes / non-positive tolerances: outside the statement
        dom = [self.in_domain(c) for c in subs]
        if "err" in out:
            if subs and all(dom):
                return "TrackCollection.simplify(%r%s) raised %s (%s) on a collection of %d track(s) of >= 2 fixes, the first one %s" % (
                    case["tol"], "" if case["mode"] is None else ", %r" % (case["mode"],), out["err"], out.get("detail", ""), len(subs),
                    list(zip(subs[0]["xs"], subs[0]["ys"])))
            return None
        for i, c in enumerate(subs):
            if not dom[i]:
                continue
            if i >= len(out["tracks"]):
                return "TrackCollection.simplify returned %d track(s) for a collection of %d: nothing for track %d" % (out["size"], len(subs), i)
            msg = self.spec(c, dict(out["tracks"][i], input_changed=None))
            if msg:
                return "track %d of the collection: %s" % (i, msg)
        if out["input_changed"] and any(dom):
            return "TrackCollection.simplify modified its input: %s" % out["input_changed"]
        return None

    # ---------------------------------------------------------------- known-finding classes
    def classify(self, case, impl_out, msg):
        """(The entry point TrackCollection.simplify is repaired -- 039f340 -- and has no class: `coll` cases are judged like any other.)
        'vw-area-reaches-argmin-sentinel': Visvalingam on a track three fixes of which span a triangle whose float area is infinite
        or NaN (coordinates ~1e154 and more): when a pass finds only NaN in the column Operator.ARGMIN records no index, answers 0 and the
        first fix is removed (TV.C16.vw_sentinel_first_pass; since b728412 an infinite area is found, TV.C16.vw_first_pass_found). Excluded by the hypothesis `hbig`
        of TV.C16.vw_sublist_ends; such coordinates are outside the oracle's domain (> 1e100) and only produced by the `wild` stream
        (correspondence).
        'vw-user-feature-named-aire': the input track has a feature called '@aire' (the name of Visvalingam's temporary column):
        it is overwritten in the working copy and deleted from the result (example in Props/C16.lean; outside `FreshTable`).
        'vw-feature-values-without-dict-entry': the observations carry more feature values than the track's dict names (a track built
        with Track(other.getObsList()) -- in particular every Douglas-Peucker result of a track with features): createAnalyticalFeature
        takes column len(dico) for '@aire' but appends the slot at the end of the row, so the areas overwrite the first value and
        removeAnalyticalFeature deletes it: the observations returned have lost their first feature value and gained a trailing 0.0
        (example in Props/C16.lean; outside `FreshTable`). Generated only when listed."""
        algo = case.get("algo") if case.get("kind") == "trk" else case.get("kind")
        if algo != "vw":
            return None
        if case.get("kind") == "trk" and "@aire" in case.get("names", []):
            return FINDING_AIRE
        if case.get("kind") == "trk" and case.get("orphan") and case.get("names") and "feature values" in (msg or ""):
            return FINDING_ORPHAN
        if finite_case(case) and all(abs(fv(v)) <= 1e100 for v in case["xs"] + case["ys"]):
            return None                                      # every area is a number below 1e201
        # since b728412 an infinite area is found by ARGMIN (it equals the start value): only a NaN area -- inf - inf, 0 * inf, a NaN
        # coordinate -- can leave a pass without minimum
        pts = [(float(fv(x)), float(fv(y))) for x, y in zip(case["xs"], case["ys"])]
        for a, b, c in itertools.combinations(pts, 3):
            area = 0.5 * abs((b[0] - a[0]) * (c[1] - b[1]) - (c[0] - b[0]) * (b[1] - a[1]))
            if area != area:
                return "vw-area-reaches-argmin-sentinel"
        return None

    # ---------------------------------------------------------------- shrinking / search
    def drop_fix(self, case, i, j=None):
        """the case without fixes i..j-1"""
        j = i + 1 if j is None else j
        c = dict(case, xs=case["xs"][:i] + case["xs"][j:], ys=case["ys"][:i] + case["ys"][j:])
        if case["kind"] == "trk":
            c["rows"] = [list(r) for r in case["rows"][:i] + case["rows"][j:]]
            if c["rows"] and c["names"]:
                for m, r in enumerate(c["rows"]):
                    r[0] = m                                # the first feature stays the index
            if case.get("zs"):
                c["zs"] = case["zs"][:i] + case["zs"][j:]
            if case.get("ts"):
                c["ts"] = case["ts"][:i] + case["ts"][j:]
        return c

    def shrink(self, case):
        """smaller variants; only well-formed ones (a variant the harness cannot build is not an input)"""
        for c in self._shrink(case):
            if well_formed(c):
                yield c

    def mutate(self, case, rng):
        """neighbours for the failing-input search; only well-formed ones, inside the domain the case was generated in"""
        for c in self._mutate(case, rng):
            if well_formed(c):
                yield c

    def _shrink_coll(self, case):
        subs = case["tracks"]
        for i in range(len(subs)):
            yield dict(case, tracks=subs[:i] + subs[i + 1:])
        if case.get("mode_form"):
            yield dict(case, mode_form=None)
        if case["mode"] is None:
            yield self.mk_coll(subs, 1, None, case["tol"])
        for i, c in enumerate(subs):
            for c2 in self._shrink(c):
                if c2.get("via") == "direct" and c2["tol"] == case["tol"]:
                    yield dict(case, tracks=subs[:i] + [c2] + subs[i + 1:])
        for t in (1, 0.5, 2, 0.1, 10):
            if case["tol"] != t and not isinstance(case["tol"], int):
                yield self.mk_coll(subs, case["mode"], case.get("mode_form"), t)

    def _mutate_coll(self, case, rng):
        subs = case["tracks"]
        for t in (case["tol"] * 0.5, case["tol"] * 2, 1, 0.5):
            if math.isfinite(t) and t > 0:
                yield self.mk_coll(subs, case["mode"], case.get("mode_form"), t)
        for mode, form in self.COLL_MODES[:3]:
            if mode != case["mode"]:
                yield self.mk_coll(subs, mode, form, case["tol"])
        for i, c in enumerate(subs[:4]):
            for c2 in itertools.islice(self._mutate(c, rng), 0, 24):
                if c2["tol"] == case["tol"]:
                    yield dict(case, tracks=subs[:i] + [c2] + subs[i + 1:])
        if subs:
            yield dict(case, tracks=subs + [subs[0]])
        yield dict(case, tracks=subs + [self.coll_sub(self.COLL_POOL[3], case["mode"], case["tol"])])

    def _shrink(self, case):
        if case["kind"] == "coll":
            yield from self._shrink_coll(case)
            return
        if case["kind"] not in ("dp", "vw", "trk"):
            return
        n = len(case["xs"])
        if case["via"] != "direct":
            yield dict(case, via="direct")
        if case.get("af"):
            yield dict(case, af=False)
        if case["kind"] == "trk":
            if case.get("pre"):
                yield dict(case, pre=[])
                for i in range(len(case["pre"])):
                    yield dict(case, pre=case["pre"][:i] + case["pre"][i + 1:])
            if case.get("src") == "csv":
                yield dict(case, src="obj")
            if case.get("coords", "ENU") != "ENU":
                yield dict(case, coords="ENU")
            if case.get("nodata") is not None and case.get("src") != "csv":
                yield dict(case, nodata=None)
            if case.get("zs") and not (case.get("src") == "csv" and any(z == case.get("nodata") for z in case["zs"])):
                yield dict(case, zs=None)
            if case.get("ts"):
                yield dict(case, ts=None)
            if case.get("orphan"):
                yield dict(case, orphan=False)
            if case.get("tol_form"):
                yield dict(case, tol_form=None)
            if len(case["names"]) > 1:
                yield dict(case, names=case["names"][:1], rows=[r[:1] for r in case["rows"]])
            if case["names"] and not case.get("ts"):
                yield dict(case, names=[], rows=[[] for _ in case["rows"]])
            if (case["uid"], case["tid"], case["base"]) != (0, 0, None):
                yield dict(case, uid=0, tid=0, base=None)
        size = n // 2
        while size >= 2:                                    # long tracks: blocks first
            for a in range(0, n, size):
                yield self.drop_fix(case, a, min(n, a + size))
            size //= 2
        for i in range(n):
            if n > 1:
                yield self.drop_fix(case, i)
        for t in (1, 0.5, 2, 0.1, 10):
            if case["tol"] != t and not isinstance(case["tol"], int):
                yield dict(case, tol=t)
        if all(isinstance(v, int) for v in case["xs"] + case["ys"]) and n:
            mx, my = min(case["xs"]), min(case["ys"])
            if (mx, my) != (0, 0):
                yield dict(case, xs=[x - mx for x in case["xs"]], ys=[y - my for y in case["ys"]])
        elif n and not case.get("wild"):
            r = dict(case, xs=[round(fv(x)) for x in case["xs"]], ys=[round(fv(y)) for y in case["ys"]])
            if r != case:
                yield r

    def _mutate(self, case, rng):
        if case["kind"] == "coll":
            yield from self._mutate_coll(case, rng)
            return
        if case["kind"] not in ("dp", "vw", "trk") or case.get("wild"):
            return
        n = len(case["xs"])
        for t in (case["tol"] * 0.5, case["tol"] * 2, case["tol"] * 0.999, case["tol"] * 1.001, 1, 0.5):
            if math.isfinite(t):
                yield dict(case, tol=t)
        if n == 0:
            return
        if case.get("nodata") is None and case.get("src") != "csv":
            for sc in (1e-5, 1e-4, 1e-3):                    # the same track in small units, tolerance scaled with it
                t = case["tol"] * sc
                if math.isfinite(t) and t > 0:
                    yield dict(case, xs=[fv(x) * sc for x in case["xs"]], ys=[fv(y) * sc for y in case["ys"]], tol=t)
        if case["kind"] == "trk" and case.get("src") != "csv":
            nd = case.get("nodata", -999999)
            if nd is not None and case["via"] != "direct":
                zs = list(case.get("zs") or [0] * n)          # a reader's placeholder as first / last fix
                for i in (0, n - 1):
                    xs, ys, z2 = list(case["xs"]), list(case["ys"]), list(zs)
                    xs[i] = ys[i] = z2[i] = nd
                    yield dict(case, xs=xs, ys=ys, zs=z2, nodata=nd)
        for _ in range(6):
            i = rng.randrange(n)
            xs, ys = list(case["xs"]), list(case["ys"])
            step = 1
            ds = [abs(fv(a) - fv(b)) for a, b in zip(xs, xs[1:]) if a != b]
            if ds and min(ds) < 1e-2:
                step = min(ds)
            xs[i] += rng.choice([-1, 1]) * step; ys[i] += rng.choice([-1, 0, 1]) * step
            yield dict(case, xs=xs, ys=ys)
        if n >= 2 and case["kind"] != "trk":
            yield dict(case, xs=case["xs"] + [case["xs"][0]], ys=case["ys"] + [case["ys"][0]])
        if n >= 2:
            yield dict(case, xs=case["xs"][:-1] + [case["xs"][0]], ys=case["ys"][:-1] + [case["ys"][0]])


# ---- tie to the source by translation (tools/py2lean.py -> lean/TracklibVerif/Gen/Geometry.lean, regenerated on every run)
P.tie_modules = ["TracklibVerif.Tie.C16"]
P.theorems = P.theorems + [
    ("TracklibVerif.Tie.C16", "TV.Tie.C16.tie_triangle_area", "the Lean translation of the CURRENT source of geometry.triangle_area equals the model's triangleArea on all arguments (0.5 = 1/2)"),
    ("TracklibVerif.Tie.C16", "TV.Tie.C16.tie_distance_to_segment", "the Lean translation of the CURRENT source of geometry.distance_to_segment equals the model's distanceToSegment on all arguments (given that the scalar's == is Python's ==)"),
]
