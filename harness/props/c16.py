"""C16 — Douglas-Peucker / Visvalingam simplification (tracklib/algo/simplification.py, util/geometry.py)."""
import itertools, math
from fractions import Fraction
from engine import Prop, fbits, bitsf, close, ratstr, parse_rat

SLACK = 1e-9          # the oracle accepts distance <= eps * (1 + SLACK): float rounding of the code's own distances
TOLS = [1e-3, 1e-2, 0.1, 0.25, 0.5, 0.7, 0.75, 1, 1.0, 1.25, 1.5, 2, 2.5, 3, 5, 10.0, 100, 1e3]


# ------------------------------------------------------------------ exact geometry (oracle)
def F(v):
    return Fraction(v)


def seg_d2(p, a, b):
    """exact squared distance from point p to the closed segment [a, b] (a == b allowed)"""
    dx, dy = b[0] - a[0], b[1] - a[1]
    l2 = dx * dx + dy * dy
    if l2 == 0:
        return (p[0] - a[0]) ** 2 + (p[1] - a[1]) ** 2
    t = ((p[0] - a[0]) * dx + (p[1] - a[1]) * dy) / l2
    t = max(Fraction(0), min(Fraction(1), t))
    qx, qy = a[0] + t * dx, a[1] + t * dy
    return (p[0] - qx) ** 2 + (p[1] - qy) ** 2


def polyline_d2(p, V):
    if len(V) == 1:
        return (p[0] - V[0][0]) ** 2 + (p[1] - V[0][1]) ** 2
    return min(seg_d2(p, V[k], V[k + 1]) for k in range(len(V) - 1))


def mirror_dist(x0, y0, x1, y1, x2, y2):
    """float distance with the same formula as the code; used ONLY to generate boundary tolerances"""
    l = math.sqrt((x2 - x1) ** 2 + (y2 - y1) ** 2)
    if l == 0:
        return math.sqrt((x0 - x1) ** 2 + (y0 - y1) ** 2)
    t = ((x0 - x1) * (x2 - x1) + (y0 - y1) * (y2 - y1)) / l / l
    t = min(1.0, max(0.0, t))
    return math.sqrt((x0 - x1 - t * (x2 - x1)) ** 2 + (y0 - y1 - t * (y2 - y1)) ** 2)


def collinear_run(xs, ys):
    for i in range(len(xs) - 2):
        if (xs[i + 1] - xs[i]) * (ys[i + 2] - ys[i + 1]) == (xs[i + 2] - xs[i + 1]) * (ys[i + 1] - ys[i]):
            return True
    return False


class P(Prop):
    id = "C16"
    design_ref = "DESIGN.md section 5, C16"
    M = "TracklibVerif.Props.C16"
    theorems = [
        (M, "TV.C16.dp_sublist", "T1: Douglas-Peucker's result is a sub-sequence (same observations, same order) of the input; any scalar type (the Float model included), any tolerance"),
        (M, "TV.C16.dp_ends", "T2: the result starts with the first and ends with the last input observation, and keeps >= 2 fixes of a track of >= 2 fixes; closed loops, duplicates included; any scalar type"),
        (M, "TV.C16.dp_total_of_self_distance", "T3 (scalar-independent): with eps > 0 the recursion terminates on every track provided distance_to_segment(A; A, B) is never > 0 (the odd split L[0:imax]/L[imax:n] always yields two strictly shorter parts)"),
        (M, "TV.C16.dp_total", "T3: over an ordered field with a correct sqrt, douglas_peucker is defined for every track (closed loops included) and every eps > 0"),
        (M, "TV.C16.dist_seg_spec", "T4: distance_to_segment (projection + clamp to the segment's box, l == 0 branch) is >= 0 and its square is the minimum over t in [0,1] of |P - (A + t(B-A))|^2"),
        (M, "TV.C16.dist_sq_eq", "T4 (executable form): distance_to_segment^2 equals the sqrt-free closed form distSegSq that the driver evaluates exactly on rationals against the harness' oracle"),
        (M, "TV.C16.dp_tolerance", "T5: every input fix is within eps (true point-segment distance, squared form) of a segment between two consecutive vertices of the OUTPUT polyline"),
        (M, "TV.C16.dp_correct", "T1+T2+T3+T5 in one statement: for every track of >= 2 fixes and eps > 0 a result exists, is a sublist keeping both ends, and is within tolerance"),
        (M, "TV.C16.vw_sublist_ends", "T6: Visvalingam (areas below ARGMIN's 1e300 sentinel, any tolerance, any scalar type) returns a sublist keeping the first and last observation and its loop stops by itself within len(track) passes"),
        (M, "TV.C16.dp_any_tiebreak", "T7: whichever of several equally far fixes is taken as split point (the runs the correspondence check accepts), the result is a sublist keeping both ends; any scalar type"),
        (M, "TV.C16.dp_any_tiebreak_tolerance", "T7: every such run is within tolerance, and the code's own run (first farthest fix) is one of them"),
        (M, "TV.C16.single_fix", "a one-fix track is returned unchanged by both algorithms"),
    ]
    partial = []
    open_statements = [
        "IEEE rounding: T3 (field form), T4 and T5 are over a linearly ordered field with an exact sqrt; on floats the tolerance is sampled by the transfer "
        "check with slack 1e-9 (T1, T2, T6 and the scalar-independent T3 do apply to the Float model as they assume nothing about the scalar)",
        "Visvalingam with a triangle area >= 1e300 or NaN (coordinates ~1e150, not ENU tracks): ARGMIN falls back to index 0 and the first fix is removed; excluded by T6's hypothesis",
    ]
    modelled = ("util/geometry.py distance_to_segment (l == 0 branch, normalised scalar product, clamp to the segment's box), "
                "triangle_area, aire_visval; algo/simplification.py douglas_peucker (n <= 2 base case, first farthest fix by strict >, "
                "dmax < eps, split L[0:imax] / L[imax:n], recursion, concatenation) and visvalingam (eps **= 2, '@aire' column with NaN at "
                "both ends, Operator.ARGMIN with the 1e300 sentinel, break on area > eps, removal, two neighbour updates); simplify() dispatch")
    trusted = ["`eps **= 2` is modelled as eps*eps: the generators only emit tolerances with tol**2 == tol*tol in Python",
               "Track.copy (deepcopy), Track.__add__, removeObs and the feature table are trusted to keep observations intact "
               "(the oracle checks tags and positions of the output observations)",
               "visvalingam on an empty track (Python raises AnalyticalFeatureError) is outside the model"]
    rule = ("tracks of 1..9 fixes on integer lattices of side 2..6 (collinear runs, consecutive duplicates, revisited positions, closed loops "
            "forced with stated probabilities), quarter-step dyadic and 2-decimal float tracks; tolerances 1e-3..1e3 (ints and floats), random "
            "3-digit tolerances and tolerances equal to the float distance of a fix to the chord (the dmax == eps boundary); every fix carries its "
            "index as timestamp (and optionally a feature) so kept *observations* are identified; both through simplify(track, tol, mode) and the "
            "functions directly; all 3-fix (quick) / 3- and 4-fix (thorough) tracks on the 3x3 lattice are enumerated. distance_to_segment and "
            "triangle_area are also compared point-wise. non-trivial = at least 3 fixes (a fix can be dropped)")

    # ---------------------------------------------------------------- setup
    def setup(self):
        import tracklib
        from tracklib.core.obs import Obs
        from tracklib.core.obs_coords import ENUCoords
        from tracklib.core.obs_time import ObsTime
        from tracklib.core.track import Track
        from tracklib.algo import simplification as S
        from tracklib.util import geometry as G
        self.Obs, self.ENU, self.T, self.Track, self.S, self.G = Obs, ENUCoords, ObsTime, Track, S, G

    # ---------------------------------------------------------------- generators
    def exhaustive_scopes(self, tier):
        if tier == "thorough":
            return ["every track of 3 and of 4 fixes on the lattice {0,1,2}^2 x tolerances {0.5, 1, 1.5} x {Douglas-Peucker, Visvalingam}",
                    "distance_to_segment for every point/segment on the lattice {0,1,2}^2 (9^3 triples, degenerate segments included)"]
        return ["every track of 3 fixes on the lattice {0,1,2}^2 x tolerances {0.5, 1, 1.5} x {Douglas-Peucker, Visvalingam}",
                "distance_to_segment for every point/segment on the lattice {0,1,2}^2 (9^3 triples, degenerate segments included)"]

    def rand_track(self, rng):
        style = rng.choice(["lattice"] * 8 + ["quarter", "float"])
        n = rng.choice([1, 2, 3, 3, 4, 4, 5, 5, 6, 6, 7, 8, 9])
        side = rng.choice([2, 2, 3, 3, 4, 5, 6])
        if style == "lattice":
            pt = lambda: (rng.randrange(side), rng.randrange(side))
        elif style == "quarter":
            pt = lambda: (rng.randrange(4 * side) / 4.0, rng.randrange(4 * side) / 4.0)
        else:
            pt = lambda: (round(rng.uniform(-100, 100), 2), round(rng.uniform(-100, 100), 2))
        pts = [pt()]
        while len(pts) < n:
            r = rng.random()
            if r < 0.15:                                   # consecutive duplicate
                pts.append(pts[-1])
            elif r < 0.30 and len(pts) >= 2:               # revisit an earlier position
                pts.append(rng.choice(pts[:-1]))
            elif r < 0.50 and len(pts) >= 2:               # continue the last step (collinear run), possibly a zero step
                dx, dy = pts[-1][0] - pts[-2][0], pts[-1][1] - pts[-2][1]
                k = rng.choice([1, 1, 2, -1])
                pts.append((pts[-1][0] + k * dx, pts[-1][1] + k * dy))
            else:
                pts.append(pt())
        if n >= 2 and rng.random() < 0.25:                 # closed loop
            pts[-1] = pts[0]
        return [p[0] for p in pts], [p[1] for p in pts], style

    def rand_tol(self, rng, xs, ys):
        r = rng.random()
        n = len(xs)
        if r < 0.55:
            t = rng.choice(TOLS)
        elif r < 0.75 and n >= 3:                          # boundary: the float distance of a fix to some chord of the track
            i = rng.randrange(n)
            a = rng.randrange(n)
            b = rng.randrange(n)
            t = mirror_dist(float(xs[i]), float(ys[i]), float(xs[a]), float(ys[a]), float(xs[b]), float(ys[b]))
            if not t > 0:
                t = rng.choice(TOLS)
        else:
            t = float("%.3g" % (10 ** rng.uniform(-3, 3)))
        if isinstance(t, float) and t ** 2 != t * t:       # keep `eps **= 2` == eps*eps (see trusted)
            t = rng.choice(TOLS)
        return t

    def cases(self, rng, tier):
        out = []
        lat = [(x, y) for x in range(3) for y in range(3)]
        sizes = (3, 4) if tier == "thorough" else (3,)
        for n in sizes:
            for pts in itertools.product(lat, repeat=n):
                xs, ys = [p[0] for p in pts], [p[1] for p in pts]
                for tol in (0.5, 1, 1.5):
                    for algo in ("dp", "vw"):
                        out.append({"kind": algo, "xs": xs, "ys": ys, "tol": tol, "via": "direct", "af": False})
        for p in lat:
            for a in lat:
                for b in lat:
                    out.append({"kind": "dist", "p": [p[0], p[1], a[0], a[1], b[0], b[1]]})
        nrand = 20000 if tier == "quick" else 150000
        for _ in range(nrand):
            xs, ys, style = self.rand_track(rng)
            tol = self.rand_tol(rng, xs, ys)
            out.append({"kind": rng.choice(["dp", "dp", "vw"]), "xs": xs, "ys": ys, "tol": tol,
                        "via": rng.choice(["simplify", "direct"]), "af": rng.random() < 0.2})
        for _ in range(3000 if tier == "quick" else 30000):
            r = rng.random()
            if r < 0.5:
                v = [rng.randrange(-4, 5) for _ in range(6)]
            elif r < 0.75:
                v = [rng.randrange(-16, 17) / 4.0 for _ in range(6)]
            else:
                v = [round(rng.uniform(-1000, 1000), 2) for _ in range(6)]
            if rng.random() < 0.15:
                v[4], v[5] = v[2], v[3]                    # degenerate segment
            if rng.random() < 0.15:
                v[rng.choice([4, 5])] = v[rng.choice([2, 3])]
            if rng.random() < 0.15:
                v[0], v[1] = v[2], v[3]                    # the point is the chord's first end (termination hypothesis of T3)
            out.append({"kind": rng.choice(["dist", "dist", "area"]), "p": v})
        return out

    def describe(self, case):
        t = {"kind": case["kind"]}
        if case["kind"] in ("dp", "vw"):
            xs, ys = case["xs"], case["ys"]
            n = len(xs)
            t["n"] = n
            t["via"] = case["via"]
            t["closed"] = n >= 2 and xs[0] == xs[-1] and ys[0] == ys[-1]
            t["consecutive_dup"] = any(xs[i] == xs[i + 1] and ys[i] == ys[i + 1] for i in range(n - 1))
            t["revisit"] = len(set(zip(xs, ys))) < n
            t["collinear_run"] = collinear_run(xs, ys)
            t["tol_decade"] = int(math.floor(math.log10(float(case["tol"])))) if case["tol"] > 0 else "<=0"
        return t

    def nontrivial(self, case):
        if case["kind"] in ("dp", "vw"):
            return len(case["xs"]) >= 3
        p = case["p"]
        return (p[2], p[3]) != (p[4], p[5])

    # ---------------------------------------------------------------- implementation
    def mk(self, case):
        obs = []
        for i, (x, y) in enumerate(zip(case["xs"], case["ys"])):
            obs.append(self.Obs(self.ENU(x, y, 0), self.T.readUnixTime(i)))
        tr = self.Track(obs)
        if case.get("af"):
            tr.createAnalyticalFeature("tag", [i for i in range(len(obs))])
        return tr

    def impl(self, case):
        k = case["kind"]
        if k == "dist":
            return {"v": float(self.G.distance_to_segment(*case["p"]))}
        if k == "area":
            return {"v": float(self.G.triangle_area(*case["p"]))}
        tr = self.mk(case)
        if case["via"] == "simplify":
            mode = self.S.MODE_SIMPLIFY_DOUGLAS_PEUCKER if k == "dp" else self.S.MODE_SIMPLIFY_VISVALINGAM
            res = self.S.simplify(tr, case["tol"], mode)
        elif k == "dp":
            res = self.S.douglas_peucker(tr, case["tol"])
        else:
            res = self.S.visvalingam(tr, case["tol"])
        kept, xy = [], []
        for j in range(res.size()):
            o = res.getObs(j)
            idx = int(round(o.timestamp.toAbsTime()))
            if case.get("af") and len(o.features) >= 1 and o.features[0] != idx:
                idx = -1                                    # the feature no longer travels with its observation
            kept.append(idx)
            xy.append([o.position.getX(), o.position.getY()])
        return {"kept": kept, "xy": xy, "input_size_after": tr.size()}

    # ---------------------------------------------------------------- model
    def requests(self, case):
        k = case["kind"]
        if k == "dist":
            return ["C16.dist %s" % " ".join(fbits(v) for v in case["p"]),
                    "C16.distq %s" % " ".join(ratstr(v) for v in case["p"])]
        if k == "area":
            return ["C16.area %s" % " ".join(fbits(v) for v in case["p"])]
        fl = lambda l: ",".join(fbits(v) for v in l) if l else "_"
        return ["C16.%s %s %s %s" % (k, fbits(case["tol"]), fl(case["xs"]), fl(case["ys"]))]

    def decode(self, case, replies):
        k = case["kind"]
        r = replies[0]
        if r == "bad-request":
            raise ValueError("bad-request")
        if k == "dist":
            return {"v": bitsf(r), "sq": replies[1]}
        if k == "area":
            return {"v": bitsf(r)}
        if r.startswith("err:"):
            return {"err": r}
        parts = r.split(" ")
        idx = lambda s: [] if s == "_" else [int(t) for t in s.split(",")]
        kept = idx(parts[0])
        out = {"kept": kept, "xy": [[case["xs"][i], case["ys"][i]] for i in kept], "input_size_after": len(case["xs"])}
        if k == "dp":
            out["all"] = [idx(s) for s in parts[1].split(";")]
        return out

    def compare(self, case, impl_out, model_out):
        if "err" in impl_out or "err" in model_out:
            if impl_out.get("err") == model_out.get("err"):
                return None
            return "impl=%s model=%s" % (impl_out, model_out)
        if case["kind"] == "dist":
            # the Lean closed form distSegSq (proved equal to distance_to_segment^2, Props/C16 dist_sq_eq) on exact rationals
            p = [F(v) for v in case["p"]]
            sq = parse_rat(model_out["sq"])
            if sq != seg_d2((p[0], p[1]), (p[2], p[3]), (p[4], p[5])):
                return "the harness' oracle and the Lean specification distSegSq differ on %s: %s" % (case["p"], sq)
            if not close(impl_out["v"], math.sqrt(sq), 1e-9, 1e-9):
                return "impl=%r, exact model distance %r" % (impl_out["v"], math.sqrt(sq))
        if case["kind"] in ("dist", "area"):
            return None if close(impl_out["v"], model_out["v"], 1e-12) else "impl=%r model=%r" % (impl_out["v"], model_out["v"])
        if impl_out["input_size_after"] != model_out["input_size_after"]:
            return "the input track was modified: size %s" % impl_out["input_size_after"]
        if impl_out["kept"] == model_out["kept"]:
            return None if close(impl_out["xy"], model_out["xy"]) else "positions differ: impl=%s model=%s" % (impl_out["xy"], model_out["xy"])
        if case["kind"] == "dp" and impl_out["kept"] in model_out["all"]:
            # another choice among equally far fixes: a legitimate Douglas-Peucker run (the property leaves the tie free)
            return None
        return "kept indices: impl=%s model=%s" % (impl_out["kept"], model_out["kept"])

    # ---------------------------------------------------------------- oracle (transfer)
    def spec(self, case, out):
        k = case["kind"]
        if k == "dist":
            if "err" in out:
                return "distance_to_segment%s raised %s" % (tuple(case["p"]), out["err"])
            p = [F(v) for v in case["p"]]
            want = math.sqrt(seg_d2((p[0], p[1]), (p[2], p[3]), (p[4], p[5])))
            if not close(out["v"], want, 1e-9, 1e-9):
                return "distance_to_segment%s = %r, the distance to the closed segment is %r" % (tuple(case["p"]), out["v"], want)
            if (p[0], p[1]) == (p[2], p[3]) and out["v"] != 0:
                # hypothesis of dp_total_of_self_distance on the implementation's floats: needed for termination
                return "distance_to_segment%s = %r: a chord's first end must be at distance exactly 0 from it" % (tuple(case["p"]), out["v"])
            return None
        if k == "area":
            if "err" in out:
                return "triangle_area raised %s" % out["err"]
            p = [F(v) for v in case["p"]]
            want = abs((p[2] - p[0]) * (p[5] - p[1]) - (p[4] - p[0]) * (p[3] - p[1])) / 2
            if not close(out["v"], float(want), 1e-9, 1e-9):
                return "triangle_area%s = %r, expected %r" % (tuple(case["p"]), out["v"], float(want))
            return None
        name = "Douglas-Peucker" if k == "dp" else "Visvalingam"
        xs, ys, tol = case["xs"], case["ys"], case["tol"]
        n = len(xs)
        if not tol > 0 or n < 2:
            return None                                      # outside the property's domain (tracks of >= 2 fixes, positive tolerances)
        if "err" in out:
            return "%s raised %s (%s) on %s" % (name, out["err"], out.get("detail", ""), list(zip(xs, ys)))
        kept = out["kept"]
        if any((not isinstance(i, int)) or i < 0 or i >= n for i in kept):
            return "%s returned an observation that is not an input observation (tags %s)" % (name, kept)
        if any(kept[j] >= kept[j + 1] for j in range(len(kept) - 1)):
            return "%s output is not a subsequence of the input in its original order: indices %s" % (name, kept)
        for j, i in enumerate(kept):
            if out["xy"][j] != [xs[i], ys[i]]:
                return "%s moved observation %d from %s to %s" % (name, i, [xs[i], ys[i]], out["xy"][j])
        if not kept or kept[0] != 0:
            return "%s dropped the first observation: kept %s" % (name, kept)
        if kept[-1] != n - 1:
            return "%s dropped the last observation: kept %s" % (name, kept)
        if out.get("input_size_after") != n:
            return "%s modified its input track (size %s -> %s)" % (name, n, out.get("input_size_after"))
        if k == "dp":
            V = [(F(xs[i]), F(ys[i])) for i in kept]
            lim = (F(tol) * (1 + F(SLACK))) ** 2
            for i in range(n):
                d2 = polyline_d2((F(xs[i]), F(ys[i])), V)
                if d2 > lim:
                    return "Douglas-Peucker(tol=%r): input fix %d %s is at distance %.12g > tol from the simplified polyline (kept %s)" % (
                        tol, i, (xs[i], ys[i]), math.sqrt(d2), kept)
        return None

    # ---------------------------------------------------------------- known-finding classes
    def classify(self, case, impl_out, msg):
        """'vw-area-reaches-argmin-sentinel': Visvalingam on a track three fixes of which span a triangle of area >= 1e300
        (coordinates ~1e150): Operator.ARGMIN's sentinel `minimum = +1e300` is then never undercut, it answers index 0 and the
        first fix is removed. Excluded by the hypothesis `hbig` of TV.C16.vw_sublist_ends; never produced by the generators."""
        if case.get("kind") != "vw":
            return None
        pts = [(F(x), F(y)) for x, y in zip(case["xs"], case["ys"])]
        for a, b, c in itertools.combinations(pts, 3):
            if abs((b[0] - a[0]) * (c[1] - b[1]) - (c[0] - b[0]) * (b[1] - a[1])) / 2 >= F(1e300):
                return "vw-area-reaches-argmin-sentinel"
        return None

    # ---------------------------------------------------------------- shrinking / search
    def shrink(self, case):
        if case["kind"] not in ("dp", "vw"):
            return
        n = len(case["xs"])
        if case["via"] != "direct":
            yield dict(case, via="direct")
        if case.get("af"):
            yield dict(case, af=False)
        for i in range(n):
            if n > 1:
                yield dict(case, xs=case["xs"][:i] + case["xs"][i + 1:], ys=case["ys"][:i] + case["ys"][i + 1:])
        for t in (1, 0.5, 2, 0.1, 10):
            if case["tol"] != t and not isinstance(case["tol"], int):
                yield dict(case, tol=t)
        mx, my = min(case["xs"]), min(case["ys"])
        if (mx, my) != (0, 0) and all(isinstance(v, int) for v in case["xs"] + case["ys"]):
            yield dict(case, xs=[x - mx for x in case["xs"]], ys=[y - my for y in case["ys"]])

    def mutate(self, case, rng):
        if case["kind"] not in ("dp", "vw"):
            return
        n = len(case["xs"])
        for t in (case["tol"] * 0.5, case["tol"] * 2, case["tol"] * 0.999, case["tol"] * 1.001, 1, 0.5):
            if t ** 2 == t * t:
                yield dict(case, tol=t)
        for _ in range(6):
            i = rng.randrange(n)
            xs, ys = list(case["xs"]), list(case["ys"])
            xs[i] += rng.choice([-1, 1]); ys[i] += rng.choice([-1, 0, 1])
            yield dict(case, xs=xs, ys=ys)
        if n >= 2:
            yield dict(case, xs=case["xs"] + [case["xs"][0]], ys=case["ys"] + [case["ys"][0]])
            yield dict(case, xs=case["xs"][:-1] + [case["xs"][0]], ys=case["ys"][:-1] + [case["ys"][0]])


# ---- tie to the source by translation (tools/py2lean.py -> lean/TracklibVerif/Gen/Geometry.lean, regenerated on every run)
P.tie_modules = ["TracklibVerif.Tie.C16"]
P.theorems = P.theorems + [
    ("TracklibVerif.Tie.C16", "TV.Tie.C16.tie_triangle_area", "the Lean translation of the CURRENT source of geometry.triangle_area equals the model's triangleArea on all arguments (0.5 = 1/2)"),
    ("TracklibVerif.Tie.C16", "TV.Tie.C16.tie_distance_to_segment", "the Lean translation of the CURRENT source of geometry.distance_to_segment equals the model's distanceToSegment on all arguments (given that the scalar's == is Python's ==)"),
]
