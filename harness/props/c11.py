"""C11 — splitting on a marker partitions the track; markers reflect the thresholds
(tracklib/algo/segmentation.py: segmentation(), split(); tracklib/core/track.py: Track.extract)."""
import sys, itertools, math
from fractions import Fraction
from engine import Prop, ratstr

# marker values used by the `splitv` stream: token -> python value ; an observation is marked iff value == 1
VALS = {"0": 0, "1": 1, "2": 2, "1.0": 1.0, "0.5": 0.5, "nan": float("nan"), "True": True, "False": False,
        "-1": -1, "1.5": 1.5, "0.0": 0.0}


def fval(tok):
    return float("nan") if tok == "nan" else float(Fraction(tok))


# ------------------------------------------------------------------------------------------------
# the property's oracle, independent of the implementation
# ------------------------------------------------------------------------------------------------
def oracle_split(marks, pieces):
    """marks: list of bool (observation i is marked); pieces: list of lists of observation tags 0..n-1"""
    n = len(marks)
    if not any(marks):
        if pieces != []:
            return "no observation is marked but %d piece(s) were returned: %s" % (len(pieces), pieces)
        return None
    flat = [t for p in pieces for t in p]
    if flat != list(range(n)):
        return "pieces %s taken in order are not the track 0..%d exactly once" % (pieces, n - 1)
    for k, p in enumerate(pieces):
        last = k == len(pieces) - 1
        marked_in = [t for t in p if marks[t]]
        ends_marked = bool(p) and marks[p[-1]]
        if ends_marked:
            if marked_in != [p[-1]]:
                return "piece %d = %s contains a marked observation other than its last (%s)" % (k, p, marked_in)
        elif last:
            if marked_in:
                return "last piece %s does not end at a marked observation but contains marked %s" % (p, marked_in)
        else:
            return "piece %d = %s (not the last) does not end at a marked observation" % (k, p)
    return None


def oracle_markers(mode, ths, rows):
    """expected 0/1 string; ths: Fractions; rows: lists of Fraction or None (NaN)"""
    out = []
    for r in rows:
        ex = [v > ths[i] for i, v in enumerate(r) if v is not None]
        out.append("1" if (any(ex) if mode == "and" else all(ex)) else "0")
    return "".join(out)


def parse_pieces(tok):
    if tok == "_":
        return []
    return [[] if p == "e" else [int(x) for x in p.split(",")] for p in tok.split(";")]


class P(Prop):
    id = "C11"
    design_ref = "DESIGN.md section 5, C11"
    theorems = [
        ("TracklibVerif.Props.C11", "TV.C11.split_partition", "with at least one marked observation the pieces, concatenated in order, are exactly the track"),
        ("TracklibVerif.Props.C11", "TV.C11.split_none", "with no marked observation the returned collection is empty"),
        ("TracklibVerif.Props.C11", "TV.C11.split_ends_marked", "every piece but the last ends at a marked observation and contains no other marked one"),
        ("TracklibVerif.Props.C11", "TV.C11.split_tail_unmarked", "the last piece contains no marked observation"),
        ("TracklibVerif.Props.C11", "TV.C11.split_only_tail_empty", "only the trailing piece can be empty"),
        ("TracklibVerif.Props.C11", "TV.C11.split_tail_empty_iff", "the trailing piece is empty exactly when the last observation is marked"),
        ("TracklibVerif.Props.C11", "TV.C11.split_pairs", "split only looks at the markers: pieces of (obs, marker) pairs are the images of the pieces of the self-tagged track"),
        ("TracklibVerif.Props.C11", "TV.C11.marker_and", "AND mode: call succeeds and marker = 1 iff some tested non-NaN value exceeds its threshold"),
        ("TracklibVerif.Props.C11", "TV.C11.marker_or", "OR mode: call succeeds and marker = 1 iff every tested non-NaN value exceeds its threshold"),
        ("TracklibVerif.Props.C11", "TV.C11.markers_each", "segmentation() yields one marker per observation, each as in marker_and / marker_or"),
    ]
    partial = []
    open_statements = ["split(track, name, limit > 0) (pieces shorter than `limit` are dropped) and split(track, <index list>) are not modelled: out of the property's domain",
                       "thresholds/values are exact rationals in the model (IEEE comparison of finite doubles is exact, so nothing is lost; infinities are not generated)"]
    modelled = ("segmentation.split(track, <feature name>, limit=0) (begin / extract(begin, i) inclusive / tail when begin != 0, "
                "Track.extract with begin > end giving an empty track), and segmentation.segmentation() (per-observation AND/OR fold of "
                "value <= thresholds_max[index], NaN skipped, the `len(thresholds_max) >= index` guard with its IndexError / "
                "float-max default, marker = not fold)")
    rule = ("HISTORY: about half of the segmentation cases run on a track whose output feature already exists (left by a previous "
            "segmentation() with other thresholds/mode, created by the user with 0/1/2/0.5/NaN values, or all 1s), or write the marker into one "
            "of the tested features; other features (incl. names like #mark, #0, marker, out), uid and tid vary; oracle and model are about the LAST call only. "
            "split: ALL 2^n marker vectors for n = 1..10 (quick) / 1..12 (thorough) on tracks whose observations carry unique tags, plus marker "
            "features holding values other than 0/1 (2, 0.5, NaN, 1.0, True); segmentation: for 1..3 tested features and both modes every "
            "combination of {below, equal, above, NaN} per feature (as one track and as single-observation tracks), random dyadic values with "
            "NaN, scalar (non-list) arguments, more thresholds than features, then split on the produced marker; malformed stream: fewer "
            "thresholds than features (IndexError / float-max default: run on both sides, no claim by the property, not compared). "
            "non-trivial = split with at least one marker on a track of >= 2 observations, or segmentation with at least one non-NaN value")

    def setup(self):
        import importlib
        importlib.import_module("tracklib.algo.segmentation")
        self.S = sys.modules["tracklib.algo.segmentation"]
        from tracklib.core import Obs, ENUCoords, ObsTime
        from tracklib.core.track import Track
        self.Obs, self.ENU, self.T, self.Track = Obs, ENUCoords, ObsTime, Track

    # ---------------------------------------------------------------- generators
    def nmax(self, tier):
        return 12 if tier == "thorough" else 10

    def exhaustive_scopes(self, tier):
        return ["split(): all 2^n marker vectors for every track size n = 1..%d" % self.nmax(tier),
                "segmentation(): 1..3 tested features x AND/OR x every combination of {below, equal, above, NaN} per feature, "
                "for 4 threshold vectors, as one track and as single-observation tracks"]

    THS = [["2", "5", "-3/2"], ["0", "0", "0"], ["-1", "1/4", "1024"], ["7/2", "-7/2", "1/1024"]]

    def cases(self, rng, tier):
        out = []
        for n in range(1, self.nmax(tier) + 1):
            for bits in itertools.product("01", repeat=n):
                out.append({"kind": "split", "m": "".join(bits)})
        toks = sorted(VALS)
        for _ in range(300 if tier == "quick" else 3000):
            n = rng.randrange(1, 9)
            out.append({"kind": "splitv", "vals": [rng.choice(toks) if rng.random() < 0.6 else rng.choice(["0", "1"]) for _ in range(n)]})
            if rng.random() < 0.5:
                out[-1]["env"] = self.rand_env(rng)
        # grids
        for ths in self.THS:
            for k in (1, 2, 3):
                th = [Fraction(t) for t in ths[:k]]
                rows = []
                for combo in itertools.product("beaN", repeat=k):
                    d = rng.choice([Fraction(1), Fraction(1, 2), Fraction(1, 1024), Fraction(1000)])
                    rows.append(["nan" if c == "N" else ratstr(th[i] + {"b": -d, "e": 0, "a": d}[c]) for i, c in enumerate(combo)])
                for mode in ("and", "or"):
                    out.append({"kind": "seg", "mode": mode, "ths": ths[:k], "rows": rows, "scalar": False, "split": True})
                    sh = list(rows)
                    rng.shuffle(sh)
                    out.append({"kind": "seg", "mode": mode, "ths": ths[:k], "rows": sh, "scalar": False, "split": True})
                    for r in rows:
                        out.append({"kind": "seg", "mode": mode, "ths": ths[:k], "rows": [r], "scalar": (k == 1 and rng.random() < 0.5), "split": True})
                    # the same grid with the output feature already present (stale 1s everywhere / previous call / user values)
                    out.append({"kind": "seg", "mode": mode, "ths": ths[:k], "rows": rows, "scalar": False, "split": True, "pre": {"type": "all1"}})
                    for _ in range(3):
                        out.append(self.with_history(rng, {"kind": "seg", "mode": mode, "ths": ths[:k], "rows": sh, "split": True}, [Fraction(x, 2) for x in range(-6, 7)]))
        # random
        pool = [Fraction(x, 2) for x in range(-6, 7)]
        for _ in range(1500 if tier == "quick" else 30000):
            k = rng.randrange(1, 4)
            n = rng.randrange(1, 13)
            r = rng.random()
            nth = k if r < 0.75 else (k + rng.randrange(1, 3) if r < 0.88 else rng.randrange(0, k))
            ths = [rng.choice(pool) for _ in range(nth)]
            pn = rng.choice([0.0, 0.15, 0.4, 0.8])
            rows = [["nan" if rng.random() < pn else ratstr(rng.choice(pool)) for _ in range(k)] for _ in range(n)]
            out.append({"kind": "seg", "mode": rng.choice(["and", "or"]), "ths": [ratstr(t) for t in ths], "rows": rows,
                        "scalar": (k == 1 and nth == 1 and rng.random() < 0.3), "split": rng.random() < 0.7})
            if nth >= k and rng.random() < 0.6:
                out.append(self.with_history(rng, out[-1], pool))
        return out

    TEMP_NAMES = ["#mark", "#0", "#1", "marker", "out", "tag2", "comp", "idx2", "seuil_max"]

    def rand_env(self, rng):
        """hidden state neither function should read: uid/tid, other features (incl. names like the code's temporaries)"""
        env = {}
        if rng.random() < 0.5:
            env["uid"] = rng.choice([0, 7, "7", "a.b", "trk-1", 123456, ""])
        if rng.random() < 0.3:
            env["tid"] = rng.choice([0, 1, "t", 42])
        if rng.random() < 0.6:
            names = rng.sample(self.TEMP_NAMES, rng.randrange(1, 4))
            env["extra"] = [[nm, rng.choice(["0", "1", "2", "nan", "0.5", "-1"])] for nm in names]
            env["extra_after"] = rng.random() < 0.3      # created after the tested features instead of before
        return env

    def rand_pre(self, rng, k, n, pool):
        """what the output feature holds BEFORE the call whose result is compared"""
        r = rng.random()
        if r < 0.45:   # left by a previous segmentation() with other thresholds / mode
            return {"type": "seg", "mode": rng.choice(["and", "or"]),
                    "ths": [ratstr(rng.choice(pool + [Fraction(-100), Fraction(100)])) for _ in range(k)]}
        if r < 0.85:   # created by the user with arbitrary values
            return {"type": "vals", "vals": [rng.choice(["0", "1", "1", "2", "0.5", "nan", "1.0", "True", "-1"]) for _ in range(n)]}
        return {"type": "all1"}

    def with_history(self, rng, case, pool):
        """variants of a seg case with a pre-existing output feature / output named like a tested feature / other hidden state"""
        k = len(case["rows"][0]) if case["rows"] else 0
        n = len(case["rows"])
        c = dict(case)
        c.pop("scalar", None)
        c["scalar"] = False
        r = rng.random()
        if r < 0.7:
            c["pre"] = self.rand_pre(rng, k, n, pool)
        elif k >= 1:
            c["outname"] = "f%d" % rng.randrange(k)      # the marker overwrites one of the tested features
        c["env"] = self.rand_env(rng)
        c["split"] = True
        return c

    def in_domain(self, case):
        if case["kind"] == "seg":
            return len(case["ths"]) >= len(case["rows"][0]) if case["rows"] else True
        return True

    def describe(self, case):
        t = {"kind": case["kind"]}
        if case["kind"] == "split":
            m = case["m"]
            t["n"] = len(m)
            t["shape"] = ("none" if "1" not in m else "") + ("first" if m[0] == "1" else "") + ("last" if m[-1] == "1" else "") + ("adjacent" if "11" in m else "")
        if case["kind"] == "seg":
            t["mode"] = case["mode"]
            t["features"] = len(case["rows"][0])
            t["domain"] = "in" if self.in_domain(case) else "fewer-thresholds"
            t["history"] = (case["pre"]["type"] if case.get("pre") else "out=" + case["outname"][:1] if case.get("outname") else "fresh")
        if case.get("env"):
            t["env"] = "+".join(sorted(k for k in case["env"] if k != "extra_after"))
        return t

    def nontrivial(self, case):
        if case["kind"] == "split":
            return len(case["m"]) >= 2 and "1" in case["m"]
        if case["kind"] == "splitv":
            return any(VALS[v] == 1 for v in case["vals"])
        return any(v != "nan" for r in case["rows"] for v in r)

    # ---------------------------------------------------------------- implementation
    def track(self, n, env=None):
        env = env or {}
        t = self.Track([], env.get("uid", 7), env.get("tid", 0)) if "tid" in env else self.Track([], env.get("uid", 7))
        for i in range(n):
            t.addObs(self.Obs(self.ENU(float(i), float(2 * i), 0.0), self.T.readUnixTime(i)))
        t.createAnalyticalFeature("tag", list(range(n)))
        if not env.get("extra_after"):
            self.extras(t, env)
        return t

    def extras(self, t, env):
        for nm, tok in (env or {}).get("extra", []):
            self.setfeat(t, nm, [VALS.get(tok, None) if tok in VALS else fval(tok)] * t.size())

    @staticmethod
    def setfeat(t, name, vals):
        """create the feature, or overwrite it when it exists (createAnalyticalFeature silently keeps an existing one)"""
        if t.size() == 0:
            return
        if t.hasAnalyticalFeature(name):
            t.updateAnalyticalFeature(name, list(vals))
        else:
            t.createAnalyticalFeature(name, list(vals))

    def pieces_of(self, coll):
        pieces, uids = [], []
        for p in coll.getTracks():
            tags = [p.getObsAnalyticalFeature("tag", k) for k in range(p.size())]
            # the tag feature and the coordinates must designate the same observation
            for k in range(p.size()):
                if p.getObs(k).position.getX() != float(tags[k]):
                    raise ValueError("piece observation %d has x=%s but tag %s" % (k, p.getObs(k).position.getX(), tags[k]))
            pieces.append([int(x) for x in tags])
            uids.append(str(p.uid))
        return pieces, uids

    def impl(self, case):
        k = case["kind"]
        if k in ("split", "splitv"):
            vals = [int(c) for c in case["m"]] if k == "split" else [VALS[v] for v in case["vals"]]
            t = self.track(len(vals), case.get("env"))
            self.setfeat(t, "marker", list(vals))
            if (case.get("env") or {}).get("extra_after"):
                self.extras(t, {"extra": [e for e in case["env"].get("extra", []) if e[0] != "marker"]})
            pieces, uids = self.pieces_of(self.S.split(t, "marker"))
            # the source track must be left as it was
            if [t.getObsAnalyticalFeature("tag", i) for i in range(t.size())] != list(range(len(vals))):
                raise ValueError("split() modified the source track")
            return {"pieces": pieces, "uids": uids}
        if k == "seg":
            rows = case["rows"]
            env = case.get("env") or {}
            t = self.track(len(rows), env)
            names = ["f%d" % j for j in range(len(rows[0]))]
            for j, nm in enumerate(names):
                self.setfeat(t, nm, [fval(r[j]) for r in rows])
            outname = case.get("outname", "out")
            if env.get("extra_after"):
                self.extras(t, {"extra": [e for e in env.get("extra", []) if e[0] != outname]})
            ths = [fval(x) for x in case["ths"]]
            mode = self.S.MODE_COMPARAISON_AND if case["mode"] == "and" else self.S.MODE_COMPARAISON_OR
            # history: what the output feature holds before the call whose result is compared
            pre = case.get("pre")
            if pre:
                if pre["type"] == "seg":
                    pm = self.S.MODE_COMPARAISON_AND if pre["mode"] == "and" else self.S.MODE_COMPARAISON_OR
                    self.S.segmentation(t, names, outname, [fval(x) for x in pre["ths"]], pm)
                elif pre["type"] == "vals":
                    self.setfeat(t, outname, [VALS[v] for v in pre["vals"]])
                else:
                    self.setfeat(t, outname, [1] * t.size())
            if case.get("scalar"):
                self.S.segmentation(t, names[0], outname, ths[0], mode)
            else:
                self.S.segmentation(t, names, outname, ths, mode)
            mk = [t.getObsAnalyticalFeature(outname, i) for i in range(t.size())]
            # 1 / 0 by value (1.0 or True would do as well); anything else (stale 0.5, NaN, 2) is shown as '?'
            out = {"markers": "".join("1" if v == 1 else "0" if v == 0 else "?" for v in mk)}
            if case.get("split"):
                out["pieces"], out["uids"] = self.pieces_of(self.S.split(t, outname))
            return out
        raise ValueError(k)

    # ---------------------------------------------------------------- model
    def marks(self, case):
        if case["kind"] == "split":
            return [c == "1" for c in case["m"]]
        return [VALS[v] == 1 for v in case["vals"]]

    def requests(self, case):
        k = case["kind"]
        if k in ("split", "splitv"):
            return ["C11.split " + ("".join("1" if b else "0" for b in self.marks(case)) or "_")]
        rows = ";".join(",".join(r) for r in case["rows"])
        return ["C11.%s %s %s %s" % ("segsplit" if case.get("split") else "marker", case["mode"], ",".join(case["ths"]) or "_", rows)]

    @staticmethod
    def uids_for(pieces, n):
        out, begin = [], 0
        for c, p in enumerate(pieces):
            end = begin + len(p) - 1
            out.append("7.%d.%d.%d" % (c, begin, end))
            begin = end + 1
        return out

    def decode(self, case, replies):
        k = case["kind"]
        r = replies[0]
        if r.startswith("err:"):
            return {"err": r}
        if r == "bad-request":
            raise ValueError("bad-request")
        if k in ("split", "splitv"):
            pieces = parse_pieces(r)
            return {"pieces": pieces, "uids": self.uids_for(pieces, len(self.marks(case)))}
        if case.get("split"):
            mk, pc = r.split(" ")
            pieces = parse_pieces(pc)
            return {"markers": "" if mk == "_" else mk, "pieces": pieces, "uids": self.uids_for(pieces, len(case["rows"]))}
        return {"markers": "" if r == "_" else r}

    def compare(self, case, impl_out, model_out):
        if not self.in_domain(case):
            # fewer thresholds than features: the property promises nothing, so a change of behaviour there
            # (e.g. repairing the `>=` guard) must not be reported; the model's IndexError / float-max branch is
            # still exercised and any crash of the model side would surface as a driver failure
            return None
        if "err" in impl_out or "err" in model_out:
            if impl_out.get("err") == model_out.get("err"):
                return None
            return "impl=%s model=%s" % (impl_out, model_out)
        # canonicalisation: the statement leaves open whether an empty trailing piece is emitted when the last
        # observation is marked, and says nothing about the pieces' uids (not compared)
        def canon(o):
            o = {k: v for k, v in o.items() if k != "uids"}
            if o.get("pieces") and o["pieces"][-1] == []:
                o["pieces"] = o["pieces"][:-1]
            return o
        return Prop.compare(self, case, canon(impl_out), canon(model_out))

    # ---------------------------------------------------------------- oracle (transfer)
    def spec(self, case, out):
        if not self.in_domain(case):
            return None
        if "err" in out:
            return "raised %s (%s)" % (out["err"], out.get("detail"))
        k = case["kind"]
        if k in ("split", "splitv"):
            return oracle_split(self.marks(case), out["pieces"])
        ths = [Fraction(x) for x in case["ths"]]
        rows = [[None if v == "nan" else Fraction(v) for v in r] for r in case["rows"]]
        want = oracle_markers(case["mode"], ths, rows)
        if out["markers"] != want:
            bad = [i for i in range(len(want)) if i >= len(out["markers"]) or out["markers"][i] != want[i]][0]
            return ("marker %s, expected %s: observation %d with tested values %s against thresholds %s in %s mode"
                    % (out["markers"], want, bad, case["rows"][bad], case["ths"], case["mode"].upper()))
        if case.get("split"):
            return oracle_split([c == "1" for c in want], out["pieces"])
        return None

    # ---------------------------------------------------------------- shrinking / search
    def shrink(self, case):
        k = case["kind"]
        if k == "split":
            m = case["m"]
            for i in range(len(m)):
                if len(m) > 1:
                    yield {"kind": "split", "m": m[:i] + m[i + 1:]}
            for i in range(len(m)):
                if m[i] == "1":
                    yield {"kind": "split", "m": m[:i] + "0" + m[i + 1:]}
        elif k == "splitv":
            v = case["vals"]
            for i in range(len(v)):
                if len(v) > 1:
                    yield {"kind": "splitv", "vals": v[:i] + v[i + 1:]}
        else:
            rows = case["rows"]
            if case.get("env"):
                yield {k_: v for k_, v in case.items() if k_ != "env"}
            if case.get("pre") and case["pre"]["type"] != "all1":
                yield dict(case, pre={"type": "all1"})
            for i in range(len(rows)):
                if len(rows) > 1:
                    c2 = dict(case, rows=rows[:i] + rows[i + 1:])
                    if case.get("pre", {}).get("type") == "vals":
                        v = case["pre"]["vals"]
                        c2["pre"] = {"type": "vals", "vals": v[:i] + v[i + 1:]}
                    yield c2
            kf = len(rows[0])
            if kf > 1 and len(case["ths"]) >= kf and not case.get("pre") and not case.get("outname"):
                for j in range(kf):
                    yield dict(case, rows=[r[:j] + r[j + 1:] for r in rows], ths=case["ths"][:j] + case["ths"][j + 1:], scalar=False)
            if case.get("split"):
                yield dict(case, split=False)

    def mutate(self, case, rng):
        k = case["kind"]
        if k == "split":
            m = case["m"]
            for i in range(len(m)):
                yield {"kind": "split", "m": m[:i] + ("0" if m[i] == "1" else "1") + m[i + 1:]}
            yield {"kind": "split", "m": m + "0"}
            yield {"kind": "split", "m": m + "1"}
        elif k == "seg":
            for mode in ("and", "or"):
                yield dict(case, mode=mode)
