"""C11 — splitting on a marker partitions the track; markers reflect the thresholds
(tracklib/algo/segmentation.py: segmentation(), split(); tracklib/core/track.py: Track.extract, Track.length;
tracklib/core/track_collection.py: TrackCollection.segmentation, split_segmentation)."""
import sys, itertools, math
from fractions import Fraction
from engine import Prop, ratstr, fbits

# marker / feature cell values: token -> python value ; an observation is marked iff value == 1
VALS = {"0": 0, "1": 1, "2": 2, "1.0": 1.0, "0.5": 0.5, "nan": float("nan"), "True": True, "False": False,
        "-1": -1, "1.5": 1.5, "0.0": 0.0}
INF = float("inf")
VIRTUAL = ("x", "y", "z")          # virtual feature names that can be tested by segmentation()


def fval(tok):
    """token of a tested value / threshold -> python float"""
    if tok == "nan":
        return float("nan")
    if tok == "inf":
        return INF
    if tok == "-inf":
        return -INF
    return float(Fraction(tok))


def tokval(tok):
    """token of a feature cell -> the python value put in the track"""
    return VALS[tok] if tok in VALS else fval(tok)


def valtok(v):
    """python value read from a track -> exact protocol token (by value: True = 1 = 1.0)"""
    if isinstance(v, bool):
        return "1" if v else "0"
    f = float(v)
    if f != f:
        return "nan"
    if f == INF:
        return "inf"
    if f == -INF:
        return "-inf"
    return ratstr(Fraction(f))      # exact: every value generated here is a double (or an integer below 2^53)


def exact(tok):
    """token -> None (NaN) | Fraction | +-inf, for the oracle (Fraction/float comparisons are exact in Python)"""
    if tok == "nan":
        return None
    if tok == "inf":
        return INF
    if tok == "-inf":
        return -INF
    return Fraction(tok)


def coord(tok):
    return float(tok)               # "nan", "inf", "-inf", decimal


def limval(tok):
    """limit token -> the python number passed to split(): int when written without a point"""
    return float(tok) if ("." in tok or "e" in tok) else int(tok)


# ------------------------------------------------------------------------------------------------
# the property's oracle, independent of the implementation
# ------------------------------------------------------------------------------------------------
def expected_pieces(marks):
    """the partition the statement describes, as index lists (without any trailing empty piece)"""
    out, cur = [], []
    for i, m in enumerate(marks):
        cur.append(i)
        if m:
            out.append(cur)
            cur = []
    if cur and out:
        out.append(cur)
    return out


def oracle_split(marks, pieces):
    """marks: list of bool (observation i is marked); pieces: list of lists of observation tags 0..n-1"""
    n = len(marks)
    if not any(marks):
        if pieces != []:
            return "no observation is marked but %d piece(s) were returned: %s" % (len(pieces), pieces)
        return None
    flat = [t for p in pieces for t in p]
    if flat != list(range(n)):
        return "pieces %s taken in order are not the track 0..%d exactly once" % (pieces, n - 1)
    for k, p in enumerate(pieces):
        last = k == len(pieces) - 1
        marked_in = [t for t in p if marks[t]]
        ends_marked = bool(p) and marks[p[-1]]
        if ends_marked:
            if marked_in != [p[-1]]:
                return "piece %d = %s contains a marked observation other than its last (%s)" % (k, p, marked_in)
        elif last:
            if marked_in:
                return "last piece %s does not end at a marked observation but contains marked %s" % (p, marked_in)
        else:
            return "piece %d = %s (not the last) does not end at a marked observation" % (k, p)
    return None


def oracle_kept(marks, pieces):
    """limit > 0: which pieces are kept is the library's documented filter (left to the correspondence); what the
    statement still says of the kept ones: each is one of the pieces of the partition, in order, none twice"""
    want = expected_pieces(marks)
    got = [p for p in pieces if p]          # a trailing empty piece is no observation at all
    j = 0
    for p in got:
        while j < len(want) and want[j] != p:
            j += 1
        if j == len(want):
            return ("kept pieces %s are not a sub-sequence (same order, none twice) of the pieces %s of the partition"
                    % (pieces, want))
        j += 1
    return None


def oracle_markers(mode, ths, rows):
    """expected 0/1 string; ths, rows: exact values (None = NaN)"""
    out = []
    for r in rows:
        ex = [v > ths[i] for i, v in enumerate(r) if v is not None]
        out.append("1" if (any(ex) if mode == "and" else all(ex)) else "0")
    return "".join(out)


def parse_pieces(tok):
    if tok == "_":
        return []
    return [[] if p == "e" else [int(x) for x in p.split(",")] for p in tok.split(";")]


def parse_table(tok):
    if tok == "_":
        return []
    out = []
    for e in tok.split(";"):
        nm, vs = e.split("=")
        out.append([nm, [] if vs == "_" else vs.split(",")])
    return out


class P(Prop):
    id = "C11"
    design_ref = "DESIGN.md section 5, C11"
    M = "TracklibVerif.Props.C11"
    theorems = [
        (M, "TV.C11.split_partition", "with at least one marked observation the pieces, concatenated in order, are exactly the track"),
        (M, "TV.C11.split_none", "with no marked observation the returned collection is empty"),
        (M, "TV.C11.split_ends_marked", "every piece but the last ends at a marked observation and contains no other marked one"),
        (M, "TV.C11.split_tail_unmarked", "the last piece contains no marked observation"),
        (M, "TV.C11.split_only_tail_empty", "only the trailing piece can be empty"),
        (M, "TV.C11.split_tail_empty_iff", "the trailing piece is empty exactly when the last observation is marked"),
        (M, "TV.C11.split_pairs", "split only looks at the markers: pieces of (obs, marker) pairs are the images of the pieces of the self-tagged track"),
        (M, "TV.C11.split_limit_filter", "split(track, name, limit) = the pieces of split(track, name) that pass the filter of their position (loop filter / closing-piece filter), in order"),
        (M, "TV.C11.split_limit_sublist", "the kept pieces are a sub-sequence of the plain pieces and their observations a sub-sequence of the track (order kept, nothing twice)"),
        (M, "TV.C11.split_limit_zero", "limit = 0 is the plain split whatever Track.length returns for the pieces (NaN included)"),
        (M, "TV.C11.split_limit_pos", "limit > 0 with comparable lengths: exactly the plain pieces of length >= limit"),
        (M, "TV.C11.split_uid_pieces", "the loop written with the code's i / begin / count (which yields the uid numbers) returns the same pieces"),
        (M, "TV.C11.split_uid_numbers", "uid <uid>.<count>.<begin>.<end>: the piece is the run begin..end of the track, count numbers the returned pieces 0,1,2,.."),
        (M, "TV.C11.split_uid_extract", "every returned piece is Track.extract(begin, end) of the track for the begin / end of its uid (closing piece after a marked last observation: extract(size, size-1) = empty)"),
        (M, "TV.C11.extract_inclusive", "Track.extract(a, b), 0 <= a <= b < size, is the run a..b with both ends"),
        (M, "TV.C11.extract_reversed_empty", "Track.extract(a, b) with a > b is the empty track, never an error"),
        (M, "TV.C11.split_indices", "split(track, [sorted in-range indices], limit): the runs i_k..i_{k+1} that are not short, len-1 of them when limit = 0"),
        (M, "TV.C11.split_collection", "split_segmentation: the pieces in order are the tracks having a marked observation, each observation once, in order"),
        (M, "TV.C11.marker_and_ord", "AND mode, any scalar type with a total comparison: call succeeds and marker = 1 iff some tested non-NaN value exceeds its threshold"),
        (M, "TV.C11.marker_or_ord", "OR mode, same generality: marker = 1 iff every tested non-NaN value exceeds its threshold"),
        (M, "TV.C11.markers_each_ord", "segmentation() yields one marker per observation, each the marker of its row"),
        (M, "TV.C11.marker_extra_thresholds", "more thresholds than tested features: the extra ones are never read"),
        (M, "TV.C11.marker_index_error", "fewer thresholds (outside the domain): IndexError as soon as the feature at position len(thresholds) has a non-NaN value"),
        (M, "TV.C11.marker_and", "AND mode on exact rationals (finite doubles)"),
        (M, "TV.C11.marker_or", "OR mode on exact rationals (finite doubles)"),
        (M, "TV.C11.markers_each", "whole track on exact rationals"),
        (M, "TV.C11.marker_and_ext", "AND mode with infinite values / thresholds"),
        (M, "TV.C11.marker_or_ext", "OR mode with infinite values / thresholds"),
        (M, "TV.C11.segmentation_track", "a call in the domain succeeds; the output feature holds the markers of the rows read from the tested features (virtual ones included); every other feature, the names and their order are unchanged"),
        (M, "TV.C11.segmentation_history", "what an already existing output feature held before the call has no influence on the result"),
        (M, "TV.C11.segmentation_collection", "TrackCollection.segmentation = segmentation() on every track in turn"),
        (M, "TV.C11.listify_one", "a bare feature name / threshold is the one-element list"),
    ]
    partial = []
    open_statements = [
        "Track.length is an uninterpreted function of the piece in the limit theorems (that is what makes them cover NaN lengths); "
        "its float evaluation (sqrt, the order of the additions) is only in the driver (model run at Float) and the correspondence",
        "split(track, <index list>) with unsorted / negative / out-of-range indices: modelled (Python indexing, IndexError) and run in the "
        "correspondence, no theorem beyond extract_reversed_empty",
        "a NaN threshold, thresholds_max = None, tuples as feature lists, an empty track (AnalyticalFeatureError) are outside the domain",
    ]
    modelled = ("segmentation.split(track, <feature name>, limit) (begin / extract(begin, i) inclusive / begin moved before the limit test / "
                "the two limit tests `limit > 0 and length < limit` and `limit == 0 or (limit > 0 and length >= limit)` / tail when "
                "begin != 0, the uid numbers count / begin / end of every piece), split(track, <index list>, limit), Track.extract (range(a, b+1) with Python list indexing, a > b gives an "
                "empty track), Track.length (sum of 3D distances, at Float), TrackCollection.segmentation / split_segmentation, and "
                "segmentation.segmentation() as a whole: listify of afs_input / thresholds_max, createAnalyticalFeature(af_output) "
                "(reserved names, empty track, existing feature kept), virtual features x y z, per-observation AND/OR fold of "
                "value <= thresholds_max[index], NaN skipped, the `len(thresholds_max) >= index` guard with its IndexError / "
                "float-max default, marker = not fold written as 1 / 0 into the feature table")
    rule = ("HISTORY: about half of the segmentation cases run on a track whose output feature already exists (left by a previous "
            "segmentation() with other thresholds/mode, created by the user with 0/1/2/0.5/NaN values, or all 1s), or write the marker into one "
            "of the tested features; other features (incl. names like #mark, #0, marker, out), uid, tid, base vary; the model replays the whole "
            "sequence of calls on the feature table and the whole table is compared; the oracle is about the LAST call. "
            "GEOMETRY: tracks with NaN / infinite coordinates (missing elevation), repeated positions, repeated timestamps; every piece is "
            "compared observation by observation (position, timestamp, every feature value) with the source track, which must be left unchanged. "
            "split: ALL 2^n marker vectors for n = 1..10 (quick) / 1..14 (thorough) on tracks whose observations carry unique tags; all marker "
            "vectors n = 1..6 (9) x one observation without elevation at every position; marker features holding values other than 0/1 "
            "(2, 0.5, NaN, 1.0, True); limit = 0 / 0.0 / default and limit > 0 (incl. a limit equal to a piece length) on lattice coordinates; "
            "a virtual feature (x, y, z, idx) as the marker; a few tracks of 60..200 observations; feature cells holding numpy scalars; "
            "index lists (sorted, and a few unsorted / negative / out of range). segmentation: for 1..3 tested features and both modes every "
            "combination of {below, equal, above, NaN} per feature (as one track and as single-observation tracks), random dyadic values with "
            "NaN and +-inf, tested features given as a bare name or a list, thresholds as a bare number or a list, a feature tested twice, "
            "virtual features (x, y, z) as tested features, more thresholds than features, then split on the produced marker; collections of "
            "1..4 tracks through TrackCollection.segmentation / split_segmentation; malformed stream: fewer thresholds than features "
            "(IndexError / float-max default: run on both sides, no claim by the property, not compared). "
            "non-trivial = split with at least one marker on a track of >= 2 observations, or segmentation with at least one non-NaN value")

    def setup(self):
        import importlib
        importlib.import_module("tracklib.algo.segmentation")
        self.S = sys.modules["tracklib.algo.segmentation"]
        from tracklib.core import Obs, ENUCoords, ECEFCoords, ObsTime
        from tracklib.core.track import Track
        from tracklib.core.track_collection import TrackCollection
        self.Obs, self.ENU, self.ECEF, self.T, self.Track, self.TC = Obs, ENUCoords, ECEFCoords, ObsTime, Track, TrackCollection

    # ---------------------------------------------------------------- generators
    def nmax(self, tier):
        return 14 if tier == "thorough" else 10

    def nmax_nan(self, tier):
        return 9 if tier == "thorough" else 6

    def exhaustive_scopes(self, tier):
        return ["split(): all 2^n marker vectors for every track size n = 1..%d" % self.nmax(tier),
                "split(): all 2^n marker vectors for n = 1..%d x one observation without elevation (Z = NaN) at every position" % self.nmax_nan(tier),
                "segmentation(): 1..3 tested features x AND/OR x every combination of {below, equal, above, NaN} per feature, "
                "for 4 threshold vectors, as one track and as single-observation tracks"]

    THS = [["2", "5", "-3/2"], ["0", "0", "0"], ["-1", "1/4", "1024"], ["7/2", "-7/2", "1/1024"]]
    COORDS = ["0", "1", "-1", "0.5", "2", "-2.25", "3", "4", "0.25", "-0.75"]
    LIMITS = ["1", "2", "0.5", "3.5", "1.4142135623730951", "1.0", "5", "0.25", "10"]

    def rand_pts(self, rng, n):
        """lattice coordinates (squares and their sums exact), repeated positions, NaN / infinite coordinates"""
        pn = rng.choice([0.0, 0.0, 0.1, 0.3])
        pts = []
        for i in range(n):
            if pts and rng.random() < 0.2:
                p = list(pts[-1])                           # pause: repeated position
            else:
                p = [rng.choice(self.COORDS), rng.choice(self.COORDS), rng.choice(self.COORDS + ["0", "0"])]
            for c in range(3):
                if rng.random() < pn * (1.5 if c == 2 else 0.4):
                    p[c] = rng.choice(["nan", "nan", "nan", "inf", "-inf"])
            pts.append(p)
        return pts

    def rand_times(self, rng, n):
        r = rng.random()
        if r < 0.6:
            return None
        if r < 0.8:
            return sorted(rng.randrange(0, n + 1) for _ in range(n))          # repeated timestamps
        return [rng.randrange(0, 100000) for _ in range(n)]                    # any order

    def rand_marks(self, rng, n):
        toks = sorted(VALS)
        pm = rng.choice([0.1, 0.3, 0.5, 0.8])
        return [(rng.choice(toks) if rng.random() < 0.15 else ("1" if rng.random() < pm else "0")) for _ in range(n)]

    def rand_splitg(self, rng, long=False):
        n = rng.randrange(60, 200) if long else rng.randrange(1, 10)
        c = {"kind": "splitg", "vals": self.rand_marks(rng, n), "pts": self.rand_pts(rng, n),
             "limit": rng.choice(["default", "default", "0", "0.0"] + ([rng.choice(self.LIMITS)] * 3))}
        if rng.random() < 0.12:
            c["src"] = rng.choice(list(VIRTUAL) + ["idx"])      # split(track, "z"): a virtual feature as the marker
        tm = self.rand_times(rng, n)
        if tm:
            c["times"] = tm
        if rng.random() < 0.5:
            c["env"] = self.rand_env(rng)
        return c

    def rand_splitidx(self, rng):
        n = rng.randrange(1, 10)
        r = rng.random()
        m = rng.randrange(0, 6)
        if r < 0.75:
            idx = sorted(rng.randrange(0, n) for _ in range(m))
        elif r < 0.85:
            idx = [rng.randrange(0, n) for _ in range(m)]
        else:
            idx = [rng.randrange(-n - 1, n + 2) for _ in range(m)]
        c = {"kind": "splitidx", "idx": idx, "pts": self.rand_pts(rng, n),
             "limit": rng.choice(["default", "0"] + [rng.choice(self.LIMITS)] * 2)}
        if rng.random() < 0.3:
            c["env"] = self.rand_env(rng)
        return c

    def cases(self, rng, tier):
        out = []
        quick = tier == "quick"
        for n in range(1, self.nmax(tier) + 1):
            for bits in itertools.product("01", repeat=n):
                out.append({"kind": "split", "m": "".join(bits)})
        for n in range(1, self.nmax_nan(tier) + 1):
            for bits in itertools.product("01", repeat=n):
                for j in range(n):
                    pts = [[str(i), str(2 * i), "0"] for i in range(n)]
                    pts[j][2] = "nan"
                    out.append({"kind": "splitg", "vals": list(bits), "pts": pts, "limit": "default"})
        toks = sorted(VALS)
        for _ in range(300 if quick else 3000):
            n = rng.randrange(1, 9)
            out.append({"kind": "splitv", "vals": [rng.choice(toks) if rng.random() < 0.6 else rng.choice(["0", "1"]) for _ in range(n)]})
            if rng.random() < 0.5:
                out[-1]["env"] = self.rand_env(rng)
        for _ in range(1500 if quick else 60000):
            out.append(self.rand_splitg(rng))
        for _ in range(6 if quick else 60):
            out.append(self.rand_splitg(rng, long=True))
        for _ in range(400 if quick else 15000):
            out.append(self.rand_splitidx(rng))
        # grids
        for ths in self.THS:
            for k in (1, 2, 3):
                th = [Fraction(t) for t in ths[:k]]
                rows = []
                for combo in itertools.product("beaN", repeat=k):
                    d = rng.choice([Fraction(1), Fraction(1, 2), Fraction(1, 1024), Fraction(1000)])
                    rows.append(["nan" if c == "N" else ratstr(th[i] + {"b": -d, "e": 0, "a": d}[c]) for i, c in enumerate(combo)])
                for mode in ("and", "or"):
                    out.append({"kind": "seg", "mode": mode, "ths": ths[:k], "rows": rows, "scalar": False, "split": True})
                    sh = list(rows)
                    rng.shuffle(sh)
                    out.append({"kind": "seg", "mode": mode, "ths": ths[:k], "rows": sh, "scalar": False, "split": True})
                    out.append(self.with_forms(rng, {"kind": "seg", "mode": mode, "ths": ths[:k], "rows": sh, "split": True}))
                    for r in rows:
                        out.append({"kind": "seg", "mode": mode, "ths": ths[:k], "rows": [r], "scalar": (k == 1 and rng.random() < 0.5), "split": True})
                    # the same grid with the output feature already present (stale 1s everywhere / previous call / user values)
                    out.append({"kind": "seg", "mode": mode, "ths": ths[:k], "rows": rows, "scalar": False, "split": True, "pre": {"type": "all1"}})
                    for _ in range(3):
                        out.append(self.with_history(rng, {"kind": "seg", "mode": mode, "ths": ths[:k], "rows": sh, "split": True}, [Fraction(x, 2) for x in range(-6, 7)]))
        # random
        pool = [Fraction(x, 2) for x in range(-6, 7)]
        for _ in range(1500 if quick else 60000):
            k = rng.randrange(1, 4)
            n = rng.randrange(1, 13)
            r = rng.random()
            nth = k if r < 0.75 else (k + rng.randrange(1, 3) if r < 0.88 else rng.randrange(0, k))
            pi = rng.choice([0.0, 0.0, 0.05, 0.2])
            ths = [ratstr(rng.choice(pool)) if rng.random() >= pi * 0.5 else rng.choice(["inf", "-inf"]) for _ in range(nth)]
            pn = rng.choice([0.0, 0.15, 0.4, 0.8])
            rows = [["nan" if rng.random() < pn else (rng.choice(["inf", "-inf"]) if rng.random() < pi else ratstr(rng.choice(pool)))
                     for _ in range(k)] for _ in range(n)]
            c = {"kind": "seg", "mode": rng.choice(["and", "or"]), "ths": ths, "rows": rows,
                 "scalar": (k == 1 and nth == 1 and rng.random() < 0.3), "split": rng.random() < 0.7}
            out.append(c)
            if nth >= k and rng.random() < 0.6:
                out.append(self.with_history(rng, c, pool))
            if rng.random() < 0.5:
                out.append(self.with_forms(rng, c))
        for _ in range(300 if quick else 12000):
            k = rng.randrange(1, 3)
            ths = [ratstr(rng.choice(pool)) for _ in range(k + (1 if rng.random() < 0.2 else 0))]
            tracks = []
            for _t in range(rng.randrange(1, 5)):
                n = rng.randrange(1, 7)
                pn = rng.choice([0.0, 0.2, 0.6])
                hi = rng.random() < 0.25            # a track on which nothing exceeds: it must contribute no piece
                tracks.append([["nan" if rng.random() < pn else ratstr(Fraction(-50) if hi else rng.choice(pool)) for _ in range(k)] for _ in range(n)])
            out.append({"kind": "coll", "mode": rng.choice(["and", "or", "default"]), "ths": ths, "tracks": tracks})
        return out

    TEMP_NAMES = ["#mark", "#0", "#1", "marker", "out", "tag2", "comp", "idx2", "seuil_max"]

    def rand_env(self, rng):
        """hidden state neither function should read: uid/tid/base, other features (incl. names like the code's temporaries)"""
        env = {}
        if rng.random() < 0.5:
            env["uid"] = rng.choice([0, 7, "7", "a.b", "trk-1", 123456, ""])
        if rng.random() < 0.3:
            env["tid"] = rng.choice([0, 1, "t", 42])
        if rng.random() < 0.3:
            env["base"] = rng.choice([[4201575.7, 189856.3, 4779066.0], [0.0, 0.0, 0.0]])
        if rng.random() < 0.25:
            env["numpy"] = True
        if rng.random() < 0.6:
            names = rng.sample(self.TEMP_NAMES, rng.randrange(1, 4))
            env["extra"] = [[nm, rng.choice(["0", "1", "2", "nan", "0.5", "-1"])] for nm in names]
            env["extra_after"] = rng.random() < 0.3      # created after the tested features instead of before
        return env

    def rand_pre(self, rng, k, n, pool):
        """what the output feature holds BEFORE the call whose result is compared"""
        r = rng.random()
        if r < 0.45:   # left by a previous segmentation() with other thresholds / mode
            return {"type": "seg", "mode": rng.choice(["and", "or"]),
                    "ths": [ratstr(rng.choice(pool + [Fraction(-100), Fraction(100)])) for _ in range(k)]}
        if r < 0.85:   # created by the user with arbitrary values
            return {"type": "vals", "vals": [rng.choice(["0", "1", "1", "2", "0.5", "nan", "1.0", "True", "-1"]) for _ in range(n)]}
        return {"type": "all1"}

    def with_history(self, rng, case, pool):
        """variants of a seg case with a pre-existing output feature / output named like a tested feature / other hidden state"""
        k = len(case["rows"][0]) if case["rows"] else 0
        n = len(case["rows"])
        c = dict(case)
        c.pop("scalar", None)
        c["scalar"] = False
        r = rng.random()
        if r < 0.7:
            c["pre"] = self.rand_pre(rng, k, n, pool)
        elif k >= 1:
            c["outname"] = "f%d" % rng.randrange(k)      # the marker overwrites one of the tested features
        c["env"] = self.rand_env(rng)
        c["split"] = True
        return c

    def with_forms(self, rng, case):
        """variants of a seg case in the argument forms and feature names the front end accepts: a bare name / a bare
        threshold, virtual features (coordinates, possibly NaN: a missing elevation) as tested features, a feature tested
        twice, a track with its own geometry and timestamps"""
        c = {k_: (list(v) if isinstance(v, list) else v) for k_, v in case.items()}
        c.pop("scalar", None)
        rows = [list(r) for r in c["rows"]]
        k = len(rows[0])
        n = len(rows)
        names = ["f%d" % j for j in range(k)]
        for j in range(k):
            if rng.random() < 0.35:
                free = [v for v in VIRTUAL if v not in names]
                if free:
                    names[j] = rng.choice(free)
        if k >= 2 and rng.random() < 0.25:
            a, b = rng.sample(range(k), 2)              # the same feature tested against two thresholds
            names[b] = names[a]
            for r in rows:
                r[b] = r[a]
        c["rows"] = rows
        c["names"] = names
        if k == 1:
            c["afs_form"] = rng.choice(["str", "list"])
        c["ths_form"] = "scalar" if (len(c["ths"]) == 1 and rng.random() < 0.5) else "list"
        if rng.random() < 0.6:
            c["pts"] = self.rand_pts(rng, n)
        tm = self.rand_times(rng, n)
        if tm:
            c["times"] = tm
        if rng.random() < 0.5:
            c["env"] = self.rand_env(rng)
        if rng.random() < 0.3 and len(c["ths"]) >= k:
            c["pre"] = self.rand_pre(rng, k, n, [Fraction(x, 2) for x in range(-6, 7)])
        c["split"] = True
        return c

    def in_domain(self, case):
        if case["kind"] == "seg":
            return len(case["ths"]) >= len(case["rows"][0]) if case["rows"] else True
        if case["kind"] == "coll":
            return len(case["ths"]) >= len(case["tracks"][0][0])
        return True

    def describe(self, case):
        t = {"kind": case["kind"]}
        k = case["kind"]
        if k == "split":
            m = case["m"]
            t["n"] = len(m)
            t["shape"] = ("none" if "1" not in m else "") + ("first" if m[0] == "1" else "") + ("last" if m[-1] == "1" else "") + ("adjacent" if "11" in m else "")
        if k in ("splitg", "splitidx"):
            lim = case.get("limit", "default")
            t["limit"] = "0" if lim in ("default", "0", "0.0") else ">0"
            flat = [c for p in case["pts"] for c in p]
            t["coords"] = "nan" if "nan" in flat else "inf" if ("inf" in flat or "-inf" in flat) else "finite"
        if k == "seg":
            t["mode"] = case["mode"]
            t["features"] = len(case["rows"][0])
            t["domain"] = "in" if self.in_domain(case) else "fewer-thresholds"
            t["history"] = (case["pre"]["type"] if case.get("pre") else "out=" + case["outname"][:1] if case.get("outname") else "fresh")
            afs, ths = self.forms(case)
            t["forms"] = afs + "/" + ths
            if any(nm in VIRTUAL for nm in self.names(case)):
                t["virtual"] = "yes"
            flat = [v for r in case["rows"] for v in r] + list(case["ths"])
            if "inf" in flat or "-inf" in flat:
                t["infinite"] = "yes"
        if k == "coll":
            t["tracks"] = len(case["tracks"])
        if case.get("env"):
            t["env"] = "+".join(sorted(k_ for k_ in case["env"] if k_ != "extra_after"))
        return t

    def nontrivial(self, case):
        k = case["kind"]
        if k == "split":
            return len(case["m"]) >= 2 and "1" in case["m"]
        if k in ("splitv", "splitg"):
            return any(self.marks(case))
        if k == "splitidx":
            return len(case["idx"]) >= 2
        if k == "coll":
            return any(v != "nan" for tr in case["tracks"] for r in tr for v in r)
        return any(v != "nan" for r in case["rows"] for v in r)

    # ---------------------------------------------------------------- the track of a case
    @staticmethod
    def names(case):
        return case.get("names") or ["f%d" % j for j in range(len(case["rows"][0]))]

    @staticmethod
    def forms(case):
        sc = bool(case.get("scalar"))
        return case.get("afs_form", "str" if sc else "list"), case.get("ths_form", "scalar" if sc else "list")

    def points(self, case, n):
        """[x, y, z] tokens per observation; a virtual tested feature takes its column from the rows"""
        pts = [list(p) for p in case["pts"]] if case.get("pts") else [[str(i), str(2 * i), "0"] for i in range(n)]
        if case["kind"] == "seg":
            for j, nm in enumerate(self.names(case)):
                if nm in VIRTUAL:
                    for i in range(n):
                        pts[i][VIRTUAL.index(nm)] = repr(fval(case["rows"][i][j]))
        return pts

    def table(self, case, n, offset=0):
        """the analytical-feature table (ordered [name, tokens]) before the first segmentation()/split() call,
        in the order in which impl() creates the features"""
        env = case.get("env") or {}
        tab = [["tag", [str(offset + i) for i in range(n)]]]

        def put(nm, toks):
            for e in tab:
                if e[0] == nm:
                    e[1] = list(toks)
                    return
            tab.append([nm, list(toks)])

        def extras(skip=None):
            for nm, tok in env.get("extra", []):
                if nm != skip:
                    put(nm, [tok] * n)
        k = case["kind"]
        if not env.get("extra_after"):
            extras()
        if k in ("split", "splitv", "splitg"):
            put("marker", list(case["m"]) if k == "split" else case["vals"])
            if env.get("extra_after"):
                extras("marker")
        elif k == "seg":
            outname = case.get("outname", "out")
            for j, nm in enumerate(self.names(case)):
                if nm not in VIRTUAL:
                    put(nm, [r[j] for r in case["rows"]])
            if env.get("extra_after"):
                extras(outname)
            pre = case.get("pre")
            if pre and pre["type"] == "vals":
                put(outname, pre["vals"])
            elif pre and pre["type"] == "all1":
                put(outname, ["1"] * n)
        return tab

    def make_track(self, case, n, offset=0):
        env = case.get("env") or {}
        base = self.ECEF(*env["base"]) if env.get("base") else None
        t = self.Track([], env.get("uid", 7), env.get("tid", 0), base)
        pts = self.points(case, n)
        times = case.get("times") or list(range(n))
        for i in range(n):
            t.addObs(self.Obs(self.ENU(coord(pts[i][0]), coord(pts[i][1]), coord(pts[i][2])), self.T.readUnixTime(times[i])))
        for nm, toks in self.table(case, n, offset):
            vals = [int(x) for x in toks] if nm == "tag" else [tokval(x) for x in toks]
            if env.get("numpy") and nm != "tag":      # cells computed with numpy: np.float64 / np.int64 scalars
                import numpy as np
                vals = [v if isinstance(v, bool) else (np.int64(v) if isinstance(v, int) else np.float64(v)) for v in vals]
            t.createAnalyticalFeature(nm, vals)
        return t

    @staticmethod
    def snapshot(t):
        """everything an observation is: position, timestamp, feature values (as exact tokens), per observation"""
        names = t.getListAnalyticalFeatures()
        snap = []
        for i in range(t.size()):
            o = t.getObs(i)
            snap.append([valtok(o.position.getX()), valtok(o.position.getY()), valtok(o.position.getZ()),
                         valtok(o.timestamp.toAbsTime())] + [valtok(t.getObsAnalyticalFeature(nm, i)) for nm in names])
        return names, snap

    def read_table(self, t):
        return [[nm, [valtok(t.getObsAnalyticalFeature(nm, i)) for i in range(t.size())]] for nm in t.getListAnalyticalFeatures()]

    def pieces_of(self, coll, names, snap):
        """pieces as lists of tags; `content`: first difference between an observation of a piece and the observation of
        the source track carrying the same tag (position, timestamp, every feature value), None when there is none"""
        pieces, uids, content = [], [], None
        for p in coll.getTracks():
            pnames, psnap = self.snapshot(p)
            tags = [int(p.getObsAnalyticalFeature("tag", k)) for k in range(p.size())]
            if content is None and p.size() > 0 and pnames != names:
                content = "a piece has the features %s, the track has %s" % (pnames, names)
            for k, g in enumerate(tags):
                if content is None and pnames == names and (g < 0 or g >= len(snap) or psnap[k] != snap[g]):
                    content = ("observation %d of piece %d (tag %d) is %s, the track's observation is %s  [x, y, z, t, %s]"
                               % (k, len(pieces), g, psnap[k], snap[g] if 0 <= g < len(snap) else None, ", ".join(names)))
            pieces.append(tags)
            uids.append(str(p.uid))
        return pieces, uids, content

    def split_and_read(self, t, source, limit="default"):
        names, snap = self.snapshot(t)
        coll = self.S.split(t, source) if limit == "default" else self.S.split(t, source, limval(limit))
        pieces, uids, content = self.pieces_of(coll, names, snap)
        if content is None and self.snapshot(t) != (names, snap):
            content = "split() modified the source track"
        return {"pieces": pieces, "uids": uids, "content": content}

    # ---------------------------------------------------------------- implementation
    def mode_const(self, m):
        return self.S.MODE_COMPARAISON_AND if m == "and" else self.S.MODE_COMPARAISON_OR

    def impl(self, case):
        k = case["kind"]
        if k in ("split", "splitv", "splitg"):
            n = len(case["m"]) if k == "split" else len(case["vals"])
            t = self.make_track(case, n)
            return self.split_and_read(t, case.get("src", "marker"), case.get("limit", "default"))
        if k == "splitidx":
            t = self.make_track(case, len(case["pts"]))
            return self.split_and_read(t, list(case["idx"]), case.get("limit", "default"))
        if k == "seg":
            rows = case["rows"]
            t = self.make_track(case, len(rows))
            names = self.names(case)
            outname = case.get("outname", "out")
            ths = [fval(x) for x in case["ths"]]
            pre = case.get("pre")
            if pre and pre["type"] == "seg":
                self.S.segmentation(t, names, outname, [fval(x) for x in pre["ths"]], self.mode_const(pre["mode"]))
            afs_form, ths_form = self.forms(case)
            self.S.segmentation(t, names[0] if afs_form == "str" else names, outname,
                                ths[0] if ths_form == "scalar" else ths, self.mode_const(case["mode"]))
            mk = [t.getObsAnalyticalFeature(outname, i) for i in range(t.size())]
            # 1 / 0 by value (1.0 or True would do as well); anything else (stale 0.5, NaN, 2) is shown as '?'
            out = {"markers": "".join("1" if v == 1 else "0" if v == 0 else "?" for v in mk), "table": self.read_table(t)}
            if case.get("split"):
                out.update(self.split_and_read(t, outname))
            return out
        if k == "coll":
            tracks, off = [], 0
            for rows in case["tracks"]:
                tracks.append(self.make_track({"kind": "seg", "rows": rows}, len(rows), off))
                off += len(rows)
            coll = self.TC(tracks)
            names = ["f%d" % j for j in range(len(case["tracks"][0][0]))]
            ths = [fval(x) for x in case["ths"]]
            if case["mode"] == "default":
                coll.segmentation(names, "out", ths)
            else:
                coll.segmentation(names, "out", ths, self.mode_const(case["mode"]))
            marks = []
            allnames, allsnap = None, []
            for t in tracks:
                mk = [t.getObsAnalyticalFeature("out", i) for i in range(t.size())]
                marks.append("".join("1" if v == 1 else "0" if v == 0 else "?" for v in mk))
                nm, sn = self.snapshot(t)
                allnames = nm
                allsnap += sn
            res = coll.split_segmentation("out")
            pieces, uids, content = self.pieces_of(res, allnames, allsnap)
            if content is None and coll.size() != len(tracks):
                content = "split_segmentation() changed the collection it was called on"
            return {"markers": marks, "pieces": pieces, "uids": uids, "content": content}
        raise ValueError(k)

    # ---------------------------------------------------------------- model
    def marks(self, case):
        if case["kind"] == "split":
            return [c == "1" for c in case["m"]]
        src = case.get("src", "marker")
        if src in VIRTUAL:          # the marker is a virtual feature: a coordinate equal to 1
            return [coord(p[VIRTUAL.index(src)]) == 1 for p in case["pts"]]
        if src == "idx":
            return [i == 1 for i in range(len(case["vals"]))]
        return [VALS[v] == 1 for v in case["vals"]]

    @staticmethod
    def pts_tok(pts):
        return ";".join(",".join(fbits(coord(c)) for c in p) for p in pts) or "_"

    @staticmethod
    def limit_tok(case):
        lim = case.get("limit", "default")
        return fbits(0.0 if lim == "default" else float(limval(lim)))

    @staticmethod
    def table_tok(tab):
        return ";".join("%s=%s" % (nm, ",".join(valtok(tokval(x)) for x in toks) or "_") for nm, toks in tab) or "_"

    def requests(self, case):
        k = case["kind"]
        if k in ("split", "splitv"):
            return ["C11.split " + ("".join("1" if b else "0" for b in self.marks(case)) or "_")]
        if k == "splitg":
            return ["C11.splitlim %s %s %s" % (self.limit_tok(case), "".join("1" if b else "0" for b in self.marks(case)) or "_",
                                               self.pts_tok(case["pts"]))]
        if k == "splitidx":
            return ["C11.splitidx %s %s %s" % (self.limit_tok(case), ",".join(str(i) for i in case["idx"]) or "_", self.pts_tok(case["pts"]))]
        if k == "coll":
            return ["C11.collseg %s %s %s" % ("and" if case["mode"] == "default" else case["mode"], ",".join(case["ths"]) or "_",
                                              "|".join(";".join(",".join(r) for r in rows) for rows in case["tracks"]))]
        rows = ";".join(",".join(r) for r in case["rows"])
        n = len(case["rows"])
        lines = ["C11.%s %s %s %s" % ("segsplit" if case.get("split") else "marker", case["mode"], ",".join(case["ths"]) or "_", rows)]
        # the whole sequence of calls on the feature table
        names = self.names(case)
        outname = case.get("outname", "out")
        pts = self.points(case, n)
        virt = ";".join("%s=%s" % (v, ",".join(valtok(coord(p[c])) for p in pts)) for c, v in enumerate(VIRTUAL))
        calls = []
        pre = case.get("pre")
        if pre and pre["type"] == "seg":
            calls += [pre["mode"], "l:" + ",".join(names), outname, "l:" + (",".join(pre["ths"]) or "_")]
        afs_form, ths_form = self.forms(case)
        calls += [case["mode"], ("s:" + names[0]) if afs_form == "str" else "l:" + ",".join(names), outname,
                  ("s:" + case["ths"][0]) if ths_form == "scalar" else "l:" + (",".join(case["ths"]) or "_")]
        lines.append("C11.segseq %d %s %s %s" % (n, virt, self.table_tok(self.table(case, n)), " ".join(calls)))
        return lines

    def decode(self, case, replies):
        k = case["kind"]
        for r in replies:
            if r == "bad-request":
                raise ValueError("bad-request")
        for r in replies:
            if r.startswith("err:"):
                return {"err": r}
        r = replies[0]
        if k == "splitidx":
            return {"pieces": parse_pieces(r), "content": None}
        if k in ("split", "splitv", "splitg"):
            pc, ids = r.split(" ")
            uid = (case.get("env") or {}).get("uid", 7)
            return {"pieces": parse_pieces(pc), "content": None,
                    "uids": [] if ids == "_" else ["%s.%s" % (uid, i) for i in ids.split(";")]}
        if k == "coll":
            mk, pc = r.split(" ")
            return {"markers": ["" if m == "_" else m for m in mk.split("|")], "pieces": parse_pieces(pc), "content": None}
        out = {}
        if case.get("split"):
            mk, pc = r.split(" ")
            out = {"pieces": parse_pieces(pc), "content": None}
        else:
            mk = r
        out["markers"] = "" if mk == "_" else mk
        out["table"] = parse_table(replies[1])
        col = dict((nm, c) for nm, c in out["table"]).get(case.get("outname", "out"))
        if col is None or "".join(col) != out["markers"]:
            raise ValueError("model: output column %s of the table differs from the markers %s" % (col, out["markers"]))
        return out

    def compare(self, case, impl_out, model_out):
        if not self.in_domain(case):
            # fewer thresholds than features: the property promises nothing, so a change of behaviour there
            # (e.g. repairing the `>=` guard) must not be reported; the model's IndexError / float-max branch is
            # still exercised and any crash of the model side would surface as a driver failure
            return None
        if "err" in impl_out or "err" in model_out:
            if impl_out.get("err") == model_out.get("err"):
                return None
            return "impl=%s model=%s" % (impl_out, model_out)
        # canonicalisation: the statement leaves open whether an empty trailing piece is emitted when the last
        # observation is marked. The pieces' uids (<uid>.<count>.<begin>.<end>, modelled by `splitU`) are compared on
        # the split streams; they are not part of the statement, so `spec` never looks at them
        with_uids = case["kind"] in ("split", "splitv", "splitg")
        def canon(o):
            o = {k: v for k, v in o.items() if k != "uids" or with_uids}
            if case["kind"] == "coll":
                o["pieces"] = [p for p in o["pieces"] if p]      # one possible empty trailing piece per track
            elif case["kind"] != "splitidx" and o.get("pieces") and o["pieces"][-1] == []:
                o["pieces"] = o["pieces"][:-1]
                if with_uids:
                    o["uids"] = o["uids"][:-1]
            return o
        return Prop.compare(self, case, canon(impl_out), canon(model_out))

    # ---------------------------------------------------------------- oracle (transfer)
    def spec(self, case, out):
        if not self.in_domain(case):
            return None
        k = case["kind"]
        if "err" in out:
            if k == "splitidx":
                return None         # an index outside the track: no claim
            return "raised %s (%s)" % (out["err"], out.get("detail"))
        if out.get("content"):
            return out["content"]
        if k in ("split", "splitv"):
            return oracle_split(self.marks(case), out["pieces"])
        if k == "splitg":
            if case.get("limit", "default") in ("default", "0", "0.0"):
                return oracle_split(self.marks(case), out["pieces"])
            return oracle_kept(self.marks(case), out["pieces"])
        if k == "splitidx":
            return None             # the statement is about marker features; the pieces' content was checked above
        if k == "coll":
            ths = [exact(x) for x in case["ths"]]
            want = [oracle_markers("and" if case["mode"] == "default" else case["mode"], ths,
                                   [[exact(v) for v in r] for r in rows]) for rows in case["tracks"]]
            if out["markers"] != want:
                return "markers %s of the tracks of the collection, expected %s (thresholds %s, %s mode)" % (out["markers"], want, case["ths"], case["mode"])
            # every track is split on its own; a track without a marked observation yields nothing
            bounds, off = [], 0
            for w in want:
                bounds.append((off, off + len(w)))
                off += len(w)
            groups = [[] for _ in want]
            cur = 0
            for p in out["pieces"]:
                if p:
                    owner = [j for j, (a, b) in enumerate(bounds) if a <= p[0] < b]
                    if not owner or any(not (bounds[owner[0]][0] <= g < bounds[owner[0]][1]) for g in p):
                        return "piece %s mixes observations of several tracks" % p
                    cur = owner[0]      # (the order of the tracks among themselves is not in the statement: correspondence only)
                groups[cur].append([g - bounds[cur][0] for g in p])
            for j, w in enumerate(want):
                if "1" not in w and groups[j] == [list(range(len(w)))]:
                    # the statement is about split() on one track; whether the collection front end leaves out a track
                    # that has no marked observation (what it does) or keeps it whole (what its docstring suggests) is
                    # not fixed by it: both are accepted here, the correspondence pins the current behaviour
                    continue
                e = oracle_split([c == "1" for c in w], groups[j])
                if e:
                    return "track %d of the collection: %s" % (j, e)
            return None
        ths = [exact(x) for x in case["ths"]]
        rows = [[exact(v) for v in r] for r in case["rows"]]
        want = oracle_markers(case["mode"], ths, rows)
        if out["markers"] != want:
            bad = [i for i in range(len(want)) if i >= len(out["markers"]) or out["markers"][i] != want[i]][0]
            return ("marker %s, expected %s: observation %d with tested values %s against thresholds %s in %s mode"
                    % (out["markers"], want, bad, case["rows"][bad], case["ths"], case["mode"].upper()))
        if case.get("split"):
            return oracle_split([c == "1" for c in want], out["pieces"])
        return None

    # ---------------------------------------------------------------- shrinking / search
    def shrink(self, case):
        k = case["kind"]
        if k == "split":
            m = case["m"]
            for i in range(len(m)):
                if len(m) > 1:
                    yield {"kind": "split", "m": m[:i] + m[i + 1:]}
            for i in range(len(m)):
                if m[i] == "1":
                    yield {"kind": "split", "m": m[:i] + "0" + m[i + 1:]}
        elif k == "splitv":
            v = case["vals"]
            for i in range(len(v)):
                if len(v) > 1:
                    yield {"kind": "splitv", "vals": v[:i] + v[i + 1:]}
        elif k in ("splitg", "splitidx"):
            for key in ("env", "times"):
                if case.get(key):
                    yield {k_: v for k_, v in case.items() if k_ != key}
            n = len(case["pts"])
            for i in range(n):
                if n > 1:
                    c = dict(case, pts=case["pts"][:i] + case["pts"][i + 1:])
                    if k == "splitg":
                        c["vals"] = case["vals"][:i] + case["vals"][i + 1:]
                    else:
                        c["idx"] = [j for j in case["idx"] if -n + 1 <= j < n - 1]
                    if case.get("times"):
                        c["times"] = case["times"][:i] + case["times"][i + 1:]
                    yield c
            if k == "splitg":
                for i, v in enumerate(case["vals"]):
                    if v not in ("0", "1"):
                        yield dict(case, vals=case["vals"][:i] + ["1" if VALS[v] == 1 else "0"] + case["vals"][i + 1:])
            else:
                for i in range(len(case["idx"])):
                    yield dict(case, idx=case["idx"][:i] + case["idx"][i + 1:])
            for i in range(n):
                for c_ in range(3):
                    dflt = [str(i), str(2 * i), "0"][c_]
                    if case["pts"][i][c_] != dflt:
                        pts = [list(p) for p in case["pts"]]
                        pts[i][c_] = dflt
                        yield dict(case, pts=pts)
        elif k == "coll":
            tr = case["tracks"]
            for i in range(len(tr)):
                if len(tr) > 1:
                    yield dict(case, tracks=tr[:i] + tr[i + 1:])
            for i in range(len(tr)):
                for j in range(len(tr[i])):
                    if len(tr[i]) > 1:
                        yield dict(case, tracks=tr[:i] + [tr[i][:j] + tr[i][j + 1:]] + tr[i + 1:])
        else:
            rows = case["rows"]
            for key in ("env", "times", "pts"):
                if case.get(key):
                    yield {k_: v for k_, v in case.items() if k_ != key}
            if case.get("names") and not case.get("outname"):
                yield {k_: v for k_, v in case.items() if k_ != "names"}
            if case.get("pre") and case["pre"]["type"] != "all1":
                yield dict(case, pre={"type": "all1"})
            for i in range(len(rows)):
                if len(rows) > 1:
                    c2 = dict(case, rows=rows[:i] + rows[i + 1:])
                    if case.get("pre", {}).get("type") == "vals":
                        v = case["pre"]["vals"]
                        c2["pre"] = {"type": "vals", "vals": v[:i] + v[i + 1:]}
                    for key in ("times", "pts"):
                        if case.get(key):
                            c2[key] = case[key][:i] + case[key][i + 1:]
                    yield c2
            kf = len(rows[0])
            if kf > 1 and len(case["ths"]) >= kf and not case.get("pre") and not case.get("outname"):
                for j in range(kf):
                    c2 = dict(case, rows=[r[:j] + r[j + 1:] for r in rows], ths=case["ths"][:j] + case["ths"][j + 1:], scalar=False)
                    if case.get("names"):
                        c2["names"] = case["names"][:j] + case["names"][j + 1:]
                    c2.pop("afs_form", None)
                    c2.pop("ths_form", None)
                    yield c2
            if case.get("split"):
                yield dict(case, split=False)

    def mutate(self, case, rng):
        k = case["kind"]
        if k == "split":
            m = case["m"]
            for i in range(len(m)):
                yield {"kind": "split", "m": m[:i] + ("0" if m[i] == "1" else "1") + m[i + 1:]}
            yield {"kind": "split", "m": m + "0"}
            yield {"kind": "split", "m": m + "1"}
        elif k == "splitg":
            yield dict(case, limit="default")
            for i in range(len(case["pts"])):
                pts = [list(p) for p in case["pts"]]
                pts[i][2] = "nan"
                yield dict(case, pts=pts, limit="default")
        elif k == "seg":
            for mode in ("and", "or"):
                yield dict(case, mode=mode)
