"""C11 — splitting on a marker partitions the track; markers reflect the thresholds
(tracklib/algo/segmentation.py: segmentation(), split(); tracklib/core/track.py: Track.extract, Track.length,
Track.getObsAnalyticalFeature on the built-in names; tracklib/core/utils.py: isnan; tracklib/core/obs_time.py: the comparison
operators of ObsTime; tracklib/core/track_collection.py: TrackCollection.segmentation, split_segmentation).
Numbers cross the harness with their Python type: 'I<n>' a Python int of any size, 'N<n>' a numpy.int64, 'D<p/q>' a
numpy.float64, any other number token a Python float — segmentation() hands cells and thresholds to `<=` as they are."""
import sys, itertools, math, datetime
from fractions import Fraction
from engine import Prop, ratstr, fbits

# marker / feature cell values: token -> python value ; an observation is marked iff value == 1
VALS = {"0": 0, "1": 1, "2": 2, "1.0": 1.0, "0.5": 0.5, "nan": float("nan"), "True": True, "False": False,
        "-1": -1, "1.5": 1.5, "0.0": 0.0}
INF = float("inf")
VIRTUAL = ("x", "y", "z")          # virtual feature names that can be tested by segmentation()
BUILTIN = ("t", "idx", "timestamp")  # the other built-in names: toAbsTime() (float), the index (int), the ObsTime object
_EPOCH = datetime.datetime(1970, 1, 1)
_OBSTIME = [None]                  # tracklib's ObsTime class (set by P.setup)


def tm_fields(ms):
    """calendar fields of an instant given in integer milliseconds since 1970 (stdlib, not tracklib)"""
    d = _EPOCH + datetime.timedelta(milliseconds=ms)
    return (d.year, d.month, d.day, d.hour, d.minute, d.second, d.microsecond // 1000)


def istime(tok):
    """case token of an ObsTime value: '@<milliseconds since 1970>'"""
    return tok.startswith("@")


def tm_float(ms):
    """what toAbsTime() returns for that instant: whole seconds (an int) + ms / 1000.0"""
    return (ms // 1000) + (ms % 1000) / 1000.0


class Tm:
    """an instant for the oracle: ordered among instants only"""
    __slots__ = ("ms",)

    def __init__(self, ms):
        self.ms = ms

    def __gt__(self, o):
        if not isinstance(o, Tm):
            raise TypeError("an instant and a number are not comparable")
        return self.ms > o.ms


def isint(tok):
    """case token of a number with its Python type: 'I<n>' = the Python int n (any size), 'N<n>' = numpy.int64(n),
    'D<p/q>' = numpy.float64 of that value; every other number token is a Python float"""
    return tok[:1] in ("I", "N", "D")


def numval(tok):
    """token of a number -> the python object given to tracklib"""
    if tok[:1] == "I":
        return int(tok[1:])
    if tok[:1] == "N":
        import numpy as np
        return np.int64(int(tok[1:]))
    if tok[:1] == "D":
        import numpy as np
        return np.float64(fval(tok[1:]))
    return fval(tok)


def flavour(tok, cell=False):
    """(is an integer type, is a numpy scalar) of a number token; an untyped CELL token naming a Python int / bool of
    VALS is that int, every other untyped token a Python float"""
    if tok[:1] in ("I", "N"):
        return True, tok[0] == "N"
    if tok[:1] == "D":
        return False, True
    return (cell and tok in VALS and isinstance(VALS[tok], int)), False


def converts_inexactly(v, th):
    """does Python's `v <= th` on these two number tokens go through numpy's conversion of the integer operand to a
    double, AND does that conversion change the integer? (numpy.int64 against a float, numpy.float64 against a Python int
    beyond 2^53: the comparison is numpy's, not an exact one)"""
    (vi, vn), (ti, tn) = flavour(v, True), flavour(th)
    if not (vn or tn) or vi == ti:
        return False
    tok = v if vi else th
    n = int(VALS[tok]) if tok in VALS else int(exact(tok))
    return int(float(n)) != n


def dbl(n):
    """token of the double nearest to the integer n (what float(n) is)"""
    return ratstr(Fraction(float(n)))


def fval(tok):
    """token of a tested value / threshold -> python float"""
    if tok == "nan":
        return float("nan")
    if tok == "inf":
        return INF
    if tok == "-inf":
        return -INF
    return float(Fraction(tok))


def tokval(tok):
    """token of a feature cell / threshold -> the python value given to tracklib"""
    if istime(tok):
        return _OBSTIME[0](*tm_fields(int(tok[1:])))
    return VALS[tok] if tok in VALS else numval(tok)


def valtok(v):
    """python value read from a track -> exact protocol token (by value: True = 1 = 1.0 = numpy.int64(1))"""
    if isinstance(v, bool):
        return "1" if v else "0"
    if hasattr(v, "year"):          # an ObsTime: its seven fields
        return "@%d.%d.%d.%d.%d.%d.%d" % (v.year, v.month, v.day, v.hour, v.min, v.sec, v.ms)
    if isinstance(v, int) or getattr(getattr(v, "dtype", None), "kind", "") in ("i", "u"):
        return str(int(v))          # an integer of any size, exactly (float() would round it beyond 2^53)
    f = float(v)
    if f != f:
        return "nan"
    if f == INF:
        return "inf"
    if f == -INF:
        return "-inf"
    return ratstr(Fraction(f))      # exact: every value generated here is a double (or an integer below 2^53)


def exact(tok):
    """token -> None (NaN) | Fraction | +-inf, for the oracle (Fraction/float comparisons are exact in Python)"""
    if tok == "nan":
        return None
    if istime(tok):
        return Tm(int(tok[1:]))
    if tok == "inf":
        return INF
    if tok == "-inf":
        return -INF
    return Fraction(tok[1:] if isint(tok) else tok)


def kind(tok):
    return "time" if istime(tok) else "num"


def mtok(tok):
    """case token -> protocol token (an instant is sent as its seven calendar fields)"""
    if isint(tok):
        return tok[1:]              # the model's numbers are exact rationals: a number is itself, whatever its Python type
    return "@%d.%d.%d.%d.%d.%d.%d" % tm_fields(int(tok[1:])) if istime(tok) else tok


def coord(tok):
    return float(tok)               # "nan", "inf", "-inf", decimal


_SAFE = set("abcdefghijklmnopqrstuvwxyzABCDEFGHIJKLMNOPQRSTUVWXYZ0123456789_#")


def enc(name):
    """feature name -> protocol token: every character but ASCII letters, digits, '_', '#' as %<4 hex digits>"""
    return "".join(ch if ch in _SAFE else "%%%04x" % ord(ch) for ch in name)


def dec(tok):
    out, i = [], 0
    while i < len(tok):
        if tok[i] == "%":
            out.append(chr(int(tok[i + 1:i + 5], 16)))
            i += 5
        else:
            out.append(tok[i])
            i += 1
    return "".join(out)


# feature names that Track.__getitem__ would not read as a name: a key holding one of + - / * ^ > < ( ) = ' { is handed to
# the expression evaluator, and the key is strip()ped first. getObsAnalyticalFeature / createAnalyticalFeature take any
# string but the six built-in names. {a}, {b}: names of other features of the same track (or built-in names).
EXOTIC = ["{a}-{b}", "{a}+{b}", "{a}*{b}", "{a}/{b}", "{a}^{b}", "{a}>{b}", "{a}<{b}", "{a}>={b}", "{a}=={b}", "{a}={b}",
          "({a})", "{a}-1", "1-{a}", "{a}+1", "2*{a}", "-{a}", "{a}^2", "'{a}'", "{{{a}}}", "D{{{a}}}", "{a}>>1", "{a}-{a}",
          " {a}", "{a} ", "\t{a}", "{a}\n", " {a} ", "{a} {b}", "{a},{b}", "{a};{b}", "{a}|{b}", "{a}.{b}", "{a}%{b}",
          "{a}\u00e9", "{a}:{b}", "[{a}]", "{a}[0]", "{a} - {b}", "{a}_{b}", "{a}&{b}", "@{a}", "{a}?", "1", "1.0", "-1", " "]


def exotic_name(rng, operands, taken=()):
    for _ in range(20):
        nm = rng.choice(EXOTIC).format(a=rng.choice(operands), b=rng.choice(operands))
        if nm not in taken and nm not in VIRTUAL and nm not in BUILTIN:
            return nm
    return "marker"


def limval(tok):
    """limit token -> the python number passed to split(): int when written without a point"""
    return float(tok) if ("." in tok or "e" in tok) else int(tok)


# ------------------------------------------------------------------------------------------------
# the property's oracle, independent of the implementation
# ------------------------------------------------------------------------------------------------
def expected_pieces(marks):
    """the partition the statement describes, as index lists (without any trailing empty piece)"""
    out, cur = [], []
    for i, m in enumerate(marks):
        cur.append(i)
        if m:
            out.append(cur)
            cur = []
    if cur and out:
        out.append(cur)
    return out


def oracle_split(marks, pieces):
    """marks: list of bool (observation i is marked); pieces: list of lists of observation tags 0..n-1"""
    n = len(marks)
    if not any(marks):
        if pieces != []:
            return "no observation is marked but %d piece(s) were returned: %s" % (len(pieces), pieces)
        return None
    flat = [t for p in pieces for t in p]
    if flat != list(range(n)):
        return "pieces %s taken in order are not the track 0..%d exactly once" % (pieces, n - 1)
    for k, p in enumerate(pieces):
        last = k == len(pieces) - 1
        marked_in = [t for t in p if marks[t]]
        ends_marked = bool(p) and marks[p[-1]]
        if ends_marked:
            if marked_in != [p[-1]]:
                return "piece %d = %s contains a marked observation other than its last (%s)" % (k, p, marked_in)
        elif last:
            if marked_in:
                return "last piece %s does not end at a marked observation but contains marked %s" % (p, marked_in)
        else:
            return "piece %d = %s (not the last) does not end at a marked observation" % (k, p)
    return None


def oracle_kept(marks, pieces):
    """limit > 0: which pieces are kept is the library's documented filter (left to the correspondence); what the
    statement still says of the kept ones: each is one of the pieces of the partition, in order, none twice"""
    want = expected_pieces(marks)
    got = [p for p in pieces if p]          # a trailing empty piece is no observation at all
    j = 0
    for p in got:
        while j < len(want) and want[j] != p:
            j += 1
        if j == len(want):
            return ("kept pieces %s are not a sub-sequence (same order, none twice) of the pieces %s of the partition"
                    % (pieces, want))
        j += 1
    return None


def oracle_markers(mode, ths, rows):
    """expected 0/1 string; ths, rows: exact values (None = NaN)"""
    out = []
    for r in rows:
        ex = [v > ths[i] for i, v in enumerate(r) if v is not None]
        out.append("1" if (any(ex) if mode == "and" else all(ex)) else "0")
    return "".join(out)


def parse_pieces(tok):
    if tok == "_":
        return []
    return [[] if p == "e" else [int(x) for x in p.split(",")] for p in tok.split(";")]


def parse_table(tok):
    if tok == "_":
        return []
    out = []
    for e in tok.split(";"):
        nm, vs = e.split("=")
        out.append([dec(nm), [] if vs == "_" else vs.split(",")])
    return out


class P(Prop):
    id = "C11"
    design_ref = "DESIGN.md section 5, C11"
    M = "TracklibVerif.Props.C11"
    theorems = [
        (M, "TV.C11.split_partition", "with at least one marked observation the pieces, concatenated in order, are exactly the track"),
        (M, "TV.C11.split_none", "with no marked observation the returned collection is empty"),
        (M, "TV.C11.split_ends_marked", "every piece but the last ends at a marked observation and contains no other marked one"),
        (M, "TV.C11.split_tail_unmarked", "the last piece contains no marked observation"),
        (M, "TV.C11.split_only_tail_empty", "only the trailing piece can be empty"),
        (M, "TV.C11.split_tail_empty_iff", "the trailing piece is empty exactly when the last observation is marked"),
        (M, "TV.C11.split_pairs", "split only looks at the markers: pieces of (obs, marker) pairs are the images of the pieces of the self-tagged track"),
        (M, "TV.C11.split_limit_filter", "split(track, name, limit) = the pieces of split(track, name) that pass the filter of their position (loop filter / closing-piece filter), in order"),
        (M, "TV.C11.split_limit_sublist", "the kept pieces are a sub-sequence of the plain pieces and their observations a sub-sequence of the track (order kept, nothing twice)"),
        (M, "TV.C11.split_limit_zero", "limit = 0 is the plain split whatever Track.length returns for the pieces (NaN included)"),
        (M, "TV.C11.split_limit_pos", "limit > 0 with comparable lengths: exactly the plain pieces of length >= limit"),
        (M, "TV.C11.split_uid_pieces", "the loop written with the code's i / begin / count (which yields the uid numbers) returns the same pieces"),
        (M, "TV.C11.split_uid_numbers", "uid <uid>.<count>.<begin>.<end>: the piece is the run begin..end of the track, count numbers the returned pieces 0,1,2,.."),
        (M, "TV.C11.split_uid_extract", "every returned piece is Track.extract(begin, end) of the track for the begin / end of its uid (closing piece after a marked last observation: extract(size, size-1) = empty)"),
        (M, "TV.C11.extract_inclusive", "Track.extract(a, b), 0 <= a <= b < size, is the run a..b with both ends"),
        (M, "TV.C11.extract_reversed_empty", "Track.extract(a, b) with a > b is the empty track, never an error"),
        (M, "TV.C11.split_indices", "split(track, [sorted in-range indices], limit): the runs i_k..i_{k+1} that are not short, len-1 of them when limit = 0"),
        (M, "TV.C11.extract_any", "Track.extract(a, b) for any integers: IndexError iff some index of a..b is outside [-size, size); else b-a+1 observations, the j-th being track[a+j] (Python indexing)"),
        (M, "TV.C11.split_indices_any", "split(track, <any index list>, limit): IndexError iff one of the ranges source[i]..source[i+1] leaves [-size, size); else the extracts that are not short, in order"),
        (M, "TV.C11.split_collection", "split_segmentation: the pieces in order are the tracks having a marked observation, each observation once, in order"),
        (M, "TV.C11.marker_and_ord", "AND mode, any scalar type with a total comparison: call succeeds and marker = 1 iff some tested non-NaN value exceeds its threshold"),
        (M, "TV.C11.marker_or_ord", "OR mode, same generality: marker = 1 iff every tested non-NaN value exceeds its threshold"),
        (M, "TV.C11.markers_each_ord", "segmentation() yields one marker per observation, each the marker of its row"),
        (M, "TV.C11.marker_extra_thresholds", "more thresholds than tested features: the extra ones are never read"),
        (M, "TV.C11.marker_index_error", "fewer thresholds (outside the domain): IndexError as soon as the feature at position len(thresholds) has a non-NaN value"),
        (M, "TV.C11.marker_and", "AND mode on exact rationals (finite doubles)"),
        (M, "TV.C11.marker_or", "OR mode on exact rationals (finite doubles)"),
        (M, "TV.C11.markers_each", "whole track on exact rationals"),
        (M, "TV.C11.marker_and_ext", "AND mode with infinite values / thresholds"),
        (M, "TV.C11.marker_or_ext", "OR mode with infinite values / thresholds"),
        (M, "TV.C11.segmentation_track", "a call in the domain succeeds; the output feature holds the markers of the rows read from the tested features (virtual ones included); every other feature, the names and their order are unchanged"),
        (M, "TV.C11.segmentation_history", "what an already existing output feature held before the call has no influence on the result"),
        (M, "TV.C11.segmentation_collection", "TrackCollection.segmentation = segmentation() on every track in turn"),
        (M, "TV.C11.listify_one", "a bare feature name / threshold is the one-element list"),
        (M, "TV.C11.marker_and_typed", "AND mode with isnan / <= as the operator calls they are, any kind of value: where <= answers 'not exceeds' on the pairs compared, no exception and marker = 1 iff some tested value that isnan does not skip exceeds its threshold"),
        (M, "TV.C11.marker_or_typed", "OR mode, same generality: marker = 1 iff every tested value that is not skipped exceeds its threshold"),
        (M, "TV.C11.markers_each_typed", "whole track, operator-call model: one marker per observation, each the marker of its row"),
        (M, "TV.C11.segmentation_total", "the numeric model is the special case 'nothing but NaN is NaN, <= always answers' of the operator-call model"),
        (M, "TV.C11.marker_first_raises", "outside the domain: the first tested non-NaN value is always compared; if <= raises there the call raises"),
        (M, "TV.C11.marker_decided_first", "evaluation order of `comp and ...` / `comp or ...`: once the first tested value has decided the marker the others are not compared, no exception whatever they are"),
        (M, "TV.C11.val_never_nan", "utils.isnan (v != v) is False for every number and every ObsTime: a tested timestamp is never skipped"),
        (M, "TV.C11.marker_and_val", "AND mode on numbers and ObsTime objects (each tested feature of the kind of its threshold, kinds may differ between features): marker = 1 iff some tested non-NaN value exceeds its threshold"),
        (M, "TV.C11.marker_or_val", "OR mode on numbers and ObsTime objects: marker = 1 iff every tested non-NaN value exceeds its threshold"),
        (M, "TV.C11.val_gt_time", "'exceeds' between two well-formed ObsTime objects (ObsTime.__gt__) is 'strictly later' in milliseconds"),
        (M, "TV.C11.val_gt_num", "'exceeds' between two numbers is >"),
        (M, "TV.C11.val_mixed_raises", "outside the domain: a number compared with an ObsTime (either way) is the AttributeError of ObsTime.__gt__ / __lt__"),
        (M, "TV.C11.builtin_features", "getObsAnalyticalFeature on the built-in names: 'timestamp' reads the ObsTime objects, 'idx' 0,1,2,.., 't' toAbsTime() of every timestamp, whatever the feature table holds"),
        (M, "TV.C11.segmentation_track_typed", "segmentation_track for the operator-call model: tested features of any kind (built-in 'timestamp' included), typed against their thresholds"),
        (M, "TV.C11.segmentation_track_val", "the same on numbers and ObsTime objects: every tested feature holding values of the kind of its threshold (e.g. ['speed', 'timestamp'] against [5.0, ObsTime])"),
        (M, "TV.C11.segmentation_history_typed", "segmentation_history for the operator-call model, exceptions included"),
        (M, "TV.C11.split_reads_named_column", "getObsAnalyticalFeature(source, i) finds the column stored under the whole string `source` (not stripped, not parsed), whatever other features exist and whatever their names are"),
        (M, "TV.C11.split_track_frame", "split(track, source[, limit]) depends on the track only through its size and the column read under the name `source`"),
        (M, "TV.C11.split_track_property", "for a track having a feature `source`: split(track, source) succeeds; no cell equal to 1 -> empty; else the pieces are 0..size-1 once and in order, each but the last ending at a cell equal to 1 and holding no other, the last holding none"),
        (M, "TV.C11.split_track_uid", "the same front end with a limit: the pieces of split_limit_filter with the uid numbers, on the markers read under the name"),
        (M, "TV.C11.split_track_unknown", "outside the domain: an unknown name is AnalyticalFeatureError on a non-empty track, the empty collection on an empty one"),
        (M, "TV.C11.segmentation_then_split", "segmentation(track, afs, out, ths, mode) then split(track, out): both succeed and the result is the split on the markers of the rows (the 1 / 0 column is read back under the same name with == 1), any kind of value"),
        (M, "TV.C11.segmentation_then_split_val", "the same on numbers and ObsTime objects with Python's == 1 (1, 1.0, True are marked; NaN, other numbers, an ObsTime are not)"),
        (M, "TV.C11.num_le_python", "`a <= b` between a Python int / float and a Python int / float, any pairing, any size: the exact comparison of the values (the int is not converted to a float)"),
        (M, "TV.C11.num_le_small", "numpy scalars: where numpy converts an integer operand to a double (integer against float) an integer below 2^53 is unchanged, the comparison is still exact"),
        (M, "TV.C11.marker_and_num", "AND mode on numbers with their Python types (ints beyond 2^53 / int64, floats, numpy scalars; no pair that numpy converts): marker = 1 iff some tested non-NaN value EXACTLY exceeds its threshold — no threshold is rounded"),
        (M, "TV.C11.marker_or_num", "OR mode, same: marker = 1 iff every tested non-NaN value exactly exceeds its threshold"),
    ]
    partial = []
    open_statements = [
        "Track.length is an uninterpreted function of the piece in the limit theorems (that is what makes them cover NaN lengths); "
        "its float evaluation (sqrt, the order of the additions) is only in the driver (model run at Float) and the correspondence",
        "Track.__getitem__ (track[name]: strip() of the key, a key holding one of + - / * ^ > < ( ) = ' { handed to the expression "
        "evaluator of C02) is not on the call path of split() / segmentation(), which go through getObsAnalyticalFeature / "
        "setObsAnalyticalFeature / createAnalyticalFeature; it is not modelled here: the model's lookup is by the exact string "
        "(split_reads_named_column) and the correspondence runs names on which the two would differ",
        "a NaN threshold, thresholds_max = None, tuples as feature lists, an empty track (AnalyticalFeatureError) are outside the domain",
        "a numpy scalar compared with a number of the other sort (numpy.int64 against a float, numpy.float64 against a Python int) "
        "beyond 2^53: numpy converts the integer operand to the nearest double before comparing, so `exceeds` is numpy's and not the "
        "exact one; modelled (PNum.le?, roundInt) and compared on every such case, not judged by the oracle; theorems marker_and_num / "
        "marker_or_num assume no such pair, num_le_small shows the conversion is harmless below 2^53; no theorem yet that roundInt is "
        "monotone (which would give `marker = 1 iff some value exceeds its threshold after rounding the integers`); strings as thresholds "
        "('35': TypeError against a number) are outside the domain",
        "a number tested against an ObsTime threshold or the reverse (AttributeError unless the marker is already decided: `False and ...`, "
        "`True or ...`) is outside the domain: modelled (Val.le?, the evaluation order in foldCmpG), theorems marker_first_raises / "
        "marker_decided_first for the first tested value only; run on both sides, not compared (the property promises nothing there)",
        "toAbsTime() (the built-in feature 't') is a parameter of the theorems (C03's object); the driver evaluates `seconds + ms / 1000.0` "
        "at Float on TV.ObsTime.toAbsSec; values of other classes with their own __le__ / __ne__ (strings, user classes) are covered by "
        "marker_and_typed / marker_or_typed as hypotheses on the operators, not generated",
    ]
    modelled = ("segmentation.split(track, <feature name>, limit) as a whole: the marker read through getObsAnalyticalFeature(name, i) "
                "(the six built-in names first, then the feature dictionary by the exact string), `== 1` by value (1, 1.0, True; not NaN, "
                "not an ObsTime), AnalyticalFeatureError for an unknown name unless the track is empty; the loop (begin / extract(begin, i) inclusive / begin moved before the limit test / "
                "the two limit tests `limit > 0 and length < limit` and `limit == 0 or (limit > 0 and length >= limit)` / tail when "
                "begin != 0, the uid numbers count / begin / end of every piece), split(track, <index list>, limit), Track.extract (range(a, b+1) with Python list indexing, a > b gives an "
                "empty track), Track.length (sum of 3D distances, at Float), TrackCollection.segmentation / split_segmentation, and "
                "segmentation.segmentation() as a whole: listify of afs_input / thresholds_max, createAnalyticalFeature(af_output) "
                "(reserved names, empty track, existing feature kept), virtual features x y z, per-observation AND/OR fold of "
                "value <= thresholds_max[index], NaN skipped, the `len(thresholds_max) >= index` guard with its IndexError / "
                "float-max default, marker = not fold written as 1 / 0 into the feature table; the same loops with utils.isnan (v != v) and "
                "`v <= threshold` as Python operator calls on numbers and ObsTime objects (ObsTime.__ne__ / __le__ / __gt__ of core/obs_time.py, "
                "the AttributeError of a number against an ObsTime, the evaluation order of `comp and (...)` / `comp or (...)`); "
                "Track.getObsAnalyticalFeature for the built-in names x y z t timestamp idx; `<=` on numbers with their Python types "
                "(Python int of any size / float / numpy.int64 / numpy.float64: exact, except numpy's conversion of the integer operand of "
                "an integer-float pair to the nearest double, ties to even — PNum.le?, roundInt of Model/SplitNum.lean); segmentation() "
                "itself converts neither cell nor threshold")
    rule = ("EXACT INTEGERS: tested features holding Python ints of any size (epoch nanoseconds, counters, 64-bit identifiers, beyond int64) "
            "and numpy.int64 cells, against Python-int / numpy.int64 / float thresholds around 0, 1000, +-2^53, 2^54, 10^16, 2^60, 1.7e18, "
            "+-2^62, 2^64, 3e20: thresholds that are NOT doubles, values equal to the threshold, next to it, at / next to the double nearest "
            "to it, half a spacing of the doubles away; int and float cells in one column; for every base a grid of 1..2 features x AND/OR x "
            "{below, equal, above, NaN} by 1 and by half / one spacing; bare / list forms, history, output = tested feature, then split. "
            "Thresholds and cells reach tracklib as the Python objects the tokens name (an int stays an int). The oracle compares exact "
            "rationals. Every such case also runs on the typed-number model (markerp / segsplitp), which must agree with the exact model "
            "unless numpy converts an integer beyond 2^53 (numpy.int64 against a float, numpy.float64 against a Python int: ~1 in 6 of "
            "the numpy cases; compared with the typed model, not judged by the oracle). mutate(): an integer-valued case moved by one "
            "of the bases, as Python ints. "
            "NAMES: feature names are arbitrary strings (any but x y z t timestamp idx): the marker of split(), the tested and output "
            "features of segmentation() (also through TrackCollection) are also given names that are not identifiers — reading like an "
            "expression over OTHER features of the same track, which exist with per-observation values 0..3 / NaN (`speed-limit` next to "
            "`speed` and `limit`, `a>=b`, `2*a`, `(a)`, `D{a}`, `a=b`), differing from another feature's name by surrounding blanks / tab / "
            "newline (` a` next to `a`), holding separators, quotes, braces, brackets, non-ASCII letters, or looking like a number; every "
            "marker vector n = 1..4 (6) x every such form; split() on a name the track does not have (outside the domain: run, not compared). "
            "The oracle finds the marker cells in the case's own data by the exact name. Every split() case also runs on the model's "
            "track (splitTrackU: the name looked up in the table, == 1 on the cell) and must agree with the loop on the marker vector; "
            "every segmentation()+split() case runs segseqsplitv (split reading the written column back by name). "
            "SESSIONS: every split() is called twice on the same track (the oracle judges the second result too when it differs); with a "
            "previous segmentation() the track is also split on the earlier marker before the call under test. "
            "HISTORY: about half of the segmentation cases run on a track whose output feature already exists (left by a previous "
            "segmentation() with other thresholds/mode, created by the user with 0/1/2/0.5/NaN values, or all 1s), or write the marker into one "
            "of the tested features; other features (incl. names like #mark, #0, marker, out), uid, tid, base vary; the model replays the whole "
            "sequence of calls on the feature table and the whole table is compared; the oracle is about the LAST call. "
            "GEOMETRY: tracks with NaN / infinite coordinates (missing elevation), repeated positions, repeated timestamps; every piece is "
            "compared observation by observation (position, timestamp, every feature value) with the source track, which must be left unchanged. "
            "split: ALL 2^n marker vectors for n = 1..10 (quick) / 1..14 (thorough) on tracks whose observations carry unique tags; all marker "
            "vectors n = 1..6 (9) x one observation without elevation at every position; marker features holding values other than 0/1 "
            "(2, 0.5, NaN, 1.0, True); limit = 0 / 0.0 / default and limit > 0 (incl. a limit equal to a piece length) on lattice coordinates; "
            "a virtual feature (x, y, z, idx) as the marker; a few tracks of 60..200 observations; feature cells holding numpy scalars; "
            "index lists (sorted, and a few unsorted / negative / out of range). segmentation: for 1..3 tested features and both modes every "
            "combination of {below, equal, above, NaN} per feature (as one track and as single-observation tracks), random dyadic values with "
            "NaN and +-inf, tested features given as a bare name or a list, thresholds as a bare number or a list, a feature tested twice, "
            "virtual features (x, y, z) as tested features, more thresholds than features, then split on the produced marker; collections of "
            "1..4 tracks through TrackCollection.segmentation / split_segmentation; malformed stream: fewer thresholds than features "
            "(IndexError / float-max default: run on both sides, no claim by the property, not compared). "
            "BUILT-IN FEATURES / OBSTIME VALUES: tested features 'timestamp' (ObsTime objects against an ObsTime threshold), 't' (float seconds), "
            "'idx' (int) and feature columns holding ObsTime objects (with NaN cells), alone or mixed with numeric features and x y z, "
            "1..3 features, both modes; timestamps 1 ms .. 1 month apart around month / leap-day / year ends, increasing with repetitions or "
            "in any order; thresholds equal to an observation's instant, 1 ms / 0.5 s / 1 s off, in the middle, before / after all; bare name / "
            "bare ObsTime threshold, extra thresholds, history, then split on the marker; the oracle compares instants as integer "
            "milliseconds (stdlib datetime builds the calendar fields); every case runs on the operator-call model and, when no ObsTime is in "
            "sight, on the numeric model as well (their replies must be identical); malformed stream: a number against an ObsTime threshold or "
            "the reverse (AttributeError / short-circuit: run on both sides, not compared). "
            "non-trivial = split with at least one marker on a track of >= 2 observations, or segmentation with at least one non-NaN value")

    def setup(self):
        import importlib
        importlib.import_module("tracklib.algo.segmentation")
        self.S = sys.modules["tracklib.algo.segmentation"]
        from tracklib.core import Obs, ENUCoords, ECEFCoords, ObsTime
        from tracklib.core.track import Track
        from tracklib.core.track_collection import TrackCollection
        self.Obs, self.ENU, self.ECEF, self.T, self.Track, self.TC = Obs, ENUCoords, ECEFCoords, ObsTime, Track, TrackCollection
        _OBSTIME[0] = ObsTime

    # ---------------------------------------------------------------- generators
    def nmax(self, tier):
        return 14 if tier == "thorough" else 10

    def nmax_nan(self, tier):
        return 9 if tier == "thorough" else 6

    def exhaustive_scopes(self, tier):
        return ["split(): all 2^n marker vectors for every track size n = 1..%d" % self.nmax(tier),
                "split(): all 2^n marker vectors for n = 1..%d x one observation without elevation (Z = NaN) at every position" % self.nmax_nan(tier),
                "segmentation(): 1..3 tested features x AND/OR x every combination of {below, equal, above, NaN} per feature, "
                "for 4 threshold vectors, as one track and as single-observation tracks",
                "split(): all 2^n marker vectors for n = 1..%d x %d forms of marker-feature name that are not identifiers (expression-like over "
                "the features a and b of the same track, surrounding blanks, separators, quotes, braces, digits)" % (4 if tier == "quick" else 6, len(EXOTIC)),
                "segmentation(): %d magnitudes (0 .. 2^53 .. 2^64 .. 3e20) x 1..2 integer features x integer (not a double) / float threshold x "
                "AND/OR x every combination of {below, equal, above, NaN} per feature, as one track and as single-observation tracks" % len(self.BIG),
                "segmentation(): 1..2 tested features, each numeric or ObsTime-valued (ObsTime threshold) x AND/OR x every combination "
                "of {earlier/below, equal, later/above, NaN} per feature, as feature columns and with the built-in 'timestamp' first"]

    THS = [["2", "5", "-3/2"], ["0", "0", "0"], ["-1", "1/4", "1024"], ["7/2", "-7/2", "1/1024"]]
    COORDS = ["0", "1", "-1", "0.5", "2", "-2.25", "3", "4", "0.25", "-0.75"]
    LIMITS = ["1", "2", "0.5", "3.5", "1.4142135623730951", "1.0", "5", "0.25", "10"]

    def rand_pts(self, rng, n):
        """lattice coordinates (squares and their sums exact), repeated positions, NaN / infinite coordinates"""
        pn = rng.choice([0.0, 0.0, 0.1, 0.3])
        pts = []
        for i in range(n):
            if pts and rng.random() < 0.2:
                p = list(pts[-1])                           # pause: repeated position
            else:
                p = [rng.choice(self.COORDS), rng.choice(self.COORDS), rng.choice(self.COORDS + ["0", "0"])]
            for c in range(3):
                if rng.random() < pn * (1.5 if c == 2 else 0.4):
                    p[c] = rng.choice(["nan", "nan", "nan", "inf", "-inf"])
            pts.append(p)
        return pts

    def rand_times(self, rng, n):
        r = rng.random()
        if r < 0.6:
            return None
        if r < 0.8:
            return sorted(rng.randrange(0, n + 1) for _ in range(n))          # repeated timestamps
        return [rng.randrange(0, 100000) for _ in range(n)]                    # any order

    def rand_marks(self, rng, n):
        toks = sorted(VALS)
        pm = rng.choice([0.1, 0.3, 0.5, 0.8])
        return [(rng.choice(toks) if rng.random() < 0.15 else ("1" if rng.random() < pm else "0")) for _ in range(n)]

    def rand_splitg(self, rng, long=False):
        n = rng.randrange(60, 200) if long else rng.randrange(1, 10)
        c = {"kind": "splitg", "vals": self.rand_marks(rng, n), "pts": self.rand_pts(rng, n),
             "limit": rng.choice(["default", "default", "0", "0.0"] + ([rng.choice(self.LIMITS)] * 3))}
        if rng.random() < 0.12:
            c["src"] = rng.choice(list(VIRTUAL) + ["idx", "t", "timestamp"])      # split(track, "z"): a virtual feature as the marker
        tm = self.rand_times(rng, n)
        if tm:
            c["times"] = tm
        if rng.random() < 0.5:
            c["env"] = self.rand_env(rng)
        return c

    OPERANDS = ["speed", "limit", "a", "b", "v", "vmax", "f0", "f1", "s", "cut"]
    OPVALS = ["0", "1", "1", "2", "2", "3", "3", "-1", "0.5", "nan"]

    def rand_cols(self, rng, n, names):
        return [[nm, [rng.choice(self.OPVALS) for _ in range(n)]] for nm in names]

    def rand_splitn(self, rng):
        """split() on a marker feature whose NAME is not an identifier: it reads like an expression over other features of
        the same track (`speed-limit` next to `speed` and `limit`), differs from another feature's name by surrounding
        blanks, holds separators / quotes / braces / non-ASCII characters, or looks like a number. Any string but the six
        built-in names is a feature name for createAnalyticalFeature / getObsAnalyticalFeature."""
        c = self.rand_splitg(rng)
        c.pop("src", None)
        n = len(c["vals"])
        ops = rng.sample(self.OPERANDS, rng.randrange(1, 3))
        c["cols"] = self.rand_cols(rng, n, ops)
        if rng.random() < 0.4:
            c["cols_after"] = True
        c["mname"] = exotic_name(rng, ops + ([rng.choice(["x", "y", "z", "idx", "t"])] if rng.random() < 0.2 else []), taken=ops)
        r = rng.random()
        if r < 0.08:
            c["src"] = rng.choice(ops)                    # split on the other feature: its own cells decide
        elif r < 0.14:
            c["src"] = rng.choice([c["mname"].strip(), c["mname"] + " ", "no such feature"]) or "no such feature"   # mostly unknown: outside the domain
        return c

    def name_grid(self, rng, nmax):
        """all marker vectors n = 1..nmax x every exotic name form, the operand features `a` and `b` being present"""
        out = []
        for n in range(1, nmax + 1):
            for bits in itertools.product("01", repeat=n):
                for form in EXOTIC:
                    out.append({"kind": "splitv", "vals": list(bits), "mname": form.format(a="a", b="b"),
                                "cols": self.rand_cols(rng, n, ["a", "b"]), "cols_after": rng.random() < 0.5})
        return out

    def with_names(self, rng, case):
        """variant of a seg case (as made by with_forms) whose tested features / output feature have exotic names"""
        c = {k_: (list(v) if isinstance(v, list) else v) for k_, v in case.items()}
        names = list(self.names(c))
        n = len(c["rows"])
        plain = [nm for nm in names if nm not in VIRTUAL and nm not in BUILTIN]
        extra = rng.sample(self.OPERANDS, rng.randrange(0, 2))
        extra = [nm for nm in extra if nm not in names]
        operands = sorted(set(plain + extra + [nm for nm in names if nm in VIRTUAL or nm in ("t", "idx")])) or ["a"]
        ren = {}
        for nm in sorted(set(plain)):
            if rng.random() < 0.5:
                ren[nm] = exotic_name(rng, operands, taken=names + list(ren.values()))
        names = [ren.get(nm, nm) for nm in names]
        c["names"] = names
        if c.get("outname") in ren:
            c["outname"] = ren[c["outname"]]
        elif not c.get("outname") and rng.random() < 0.7:
            c["outname"] = exotic_name(rng, operands + names, taken=names + extra)
        if extra:
            c["cols"] = self.rand_cols(rng, n, extra)
            c["cols_after"] = rng.random() < 0.5
        if len(names) != 1:
            c.pop("afs_form", None)
        c.pop("scalar", None)
        c["split"] = True
        return c

    def rand_splitidx(self, rng):
        n = rng.randrange(1, 10)
        r = rng.random()
        m = rng.randrange(0, 6)
        if r < 0.75:
            idx = sorted(rng.randrange(0, n) for _ in range(m))
        elif r < 0.85:
            idx = [rng.randrange(0, n) for _ in range(m)]
        else:
            idx = [rng.randrange(-n - 1, n + 2) for _ in range(m)]
        c = {"kind": "splitidx", "idx": idx, "pts": self.rand_pts(rng, n),
             "limit": rng.choice(["default", "0"] + [rng.choice(self.LIMITS)] * 2)}
        if rng.random() < 0.3:
            c["env"] = self.rand_env(rng)
        return c

    # ---- tested values that are not plain feature cells: the built-in names, ObsTime values
    @staticmethod
    def _ms(*f):
        return int((datetime.datetime(*f) - _EPOCH).total_seconds()) * 1000

    def tm_bases(self):
        return [0, 5000, self._ms(2000, 2, 28, 23, 59, 57), self._ms(2019, 12, 31, 23, 59, 58), self._ms(2024, 2, 29, 12, 0, 0),
                self._ms(2038, 1, 19, 3, 14, 5), self._ms(1999, 12, 31, 23, 59, 59), self._ms(2021, 6, 30, 10, 59, 30)]

    def rand_tms(self, rng, n):
        """instants (integer ms): increasing with repetitions, or in any order; steps from 1 ms to a month, so that the
        comparison is decided by any of the seven fields of ObsTime"""
        base = rng.choice(self.tm_bases()) + rng.choice([0, 0, 1, 250, 999])
        step = rng.choice([1, 250, 500, 1000, 1000, 60000, 3600000, 86400000, 31 * 86400000])
        if rng.random() < 0.6:
            out, cur = [], base
            for _ in range(n):
                out.append(cur)
                cur += rng.randrange(0, 3) * step
            return out
        return [base + rng.randrange(0, 3 * n + 1) * step for _ in range(n)]

    @staticmethod
    def pick_instant(rng, tms):
        """a threshold instant: equal to an observation's, 1 ms / half a second off, in the middle, before or after all"""
        r = rng.random()
        m = rng.choice(tms)
        if r < 0.35:
            return m
        if r < 0.6:
            return max(0, m + rng.choice([-1, 1, -500, 500, -1000, 1000]))
        if r < 0.8:
            return (min(tms) + max(tms)) // 2
        return rng.choice([max(0, min(tms) - 1), max(tms) + 1, 0])

    def rand_segb(self, rng):
        """segmentation() on the built-in features 't' (float seconds), 'idx' (int), 'timestamp' (the ObsTime objects,
        against an ObsTime threshold) and on feature columns holding ObsTime values, alone or mixed with numeric features"""
        n = rng.randrange(1, 11)
        k = rng.randrange(1, 4)
        tms = self.rand_tms(rng, n)
        pool = [Fraction(x, 2) for x in range(-6, 7)]
        pn = rng.choice([0.0, 0.0, 0.2, 0.5])
        names, cols, kinds = [], [], []
        for j in range(k):
            kd = rng.choice(["timestamp", "timestamp", "t", "idx", "tf", "num", "virt"] if j else ["timestamp", "timestamp", "timestamp", "t", "idx", "tf"])
            if kd == "virt":
                free = [v for v in VIRTUAL if v not in names]
                if not free:
                    kd = "num"
            if kd in BUILTIN:
                names.append(kd)
                cols.append(self.builtin_col({"tms": tms}, kd, n))
            elif kd == "tf":          # a feature whose cells are ObsTime objects (some missing: NaN)
                names.append("f%d" % j)
                cols.append(["nan" if rng.random() < pn else "@%d" % self.pick_instant(rng, tms) for _ in range(n)])
            else:
                names.append(rng.choice(free) if kd == "virt" else "f%d" % j)
                cols.append(["nan" if rng.random() < pn else ratstr(rng.choice(pool)) for _ in range(n)])
            kinds.append(kd)

        def th_for(kd):
            if kd in ("timestamp", "tf"):
                return "@%d" % self.pick_instant(rng, tms)
            if kd == "t":
                # snapped to a multiple of 125 ms: such an instant is a double whatever way toAbsTime() is computed, every
                # other instant is at least 1 ms away from it, so the oracle does not depend on the last bit of 't'
                m = self.pick_instant(rng, tms)
                return ratstr(Fraction(m if m % 125 == 0 else (m // 250) * 250 + 125, 1000))
            if kd == "idx":
                return rng.choice([str(i) for i in range(-1, n + 1)] + ["1/2", "5/2"])
            return ratstr(rng.choice(pool))
        ths = [th_for(kd) for kd in kinds]
        r = rng.random()
        if r < 0.12:
            ths += [th_for(rng.choice(["timestamp", "num"])) for _ in range(rng.randrange(1, 3))]     # extra thresholds: never read
        elif r < 0.18:
            ths = ths[:rng.randrange(0, k)]                                                        # fewer: outside the domain
        elif r < 0.26 and ths:
            j = rng.randrange(k)                                                                    # a number against an ObsTime: outside the domain
            ths[j] = th_for("num") if istime(ths[j]) else th_for("timestamp")
        c = {"kind": "seg", "mode": rng.choice(["and", "or"]), "ths": ths, "rows": [[cols[j][i] for j in range(k)] for i in range(n)],
             "names": names, "tms": tms, "split": True}
        if k == 1:
            c["afs_form"] = rng.choice(["str", "list"])
        c["ths_form"] = "scalar" if (len(ths) == 1 and rng.random() < 0.5) else "list"
        if rng.random() < 0.5:
            c["pts"] = self.rand_pts(rng, n)
        if rng.random() < 0.5:
            c["env"] = self.rand_env(rng)
        if rng.random() < 0.3 and len(ths) >= k and all(kind(ths[j]) == ("time" if kinds[j] in ("timestamp", "tf") else "num") for j in range(k)):
            r = rng.random()
            if r < 0.5:        # left by a previous segmentation() with other thresholds of the same kinds / mode
                c["pre"] = {"type": "seg", "mode": rng.choice(["and", "or"]), "ths": [th_for(kd) for kd in kinds]}
            elif r < 0.85:
                c["pre"] = {"type": "vals", "vals": [rng.choice(["0", "1", "1", "2", "0.5", "nan", "1.0", "True", "-1"]) for _ in range(n)]}
            else:
                c["pre"] = {"type": "all1"}
        return c

    def kind_grid(self, rng):
        """1..2 tested features, each numeric or ObsTime-valued, every combination of {below, equal, above, NaN} per
        feature, both modes; the same with the first feature being the built-in 'timestamp' (which has no NaN)"""
        out = []
        t0 = self._ms(2020, 2, 29, 23, 59, 59) + 500
        for k in (1, 2):
            for kinds in itertools.product(("num", "time"), repeat=k):
                ths = ["2" if kd == "num" else "@%d" % (t0 + 1000 * j) for j, kd in enumerate(kinds)]
                for builtin in (False, True):
                    if builtin and kinds[0] != "time":
                        continue
                    rows, tms = [], []
                    for combo in itertools.product("bea" if builtin else "beaN", *(["beaN"] * (k - 1))):
                        row = []
                        for j, ch in enumerate(combo):
                            if ch == "N":
                                row.append("nan")
                            elif kinds[j] == "num":
                                d = rng.choice([Fraction(1), Fraction(1, 2), Fraction(1, 1024)])
                                row.append(ratstr(Fraction(ths[j]) + {"b": -d, "e": 0, "a": d}[ch]))
                            else:
                                d = rng.choice([1, 500, 1000, 60000, 86400000, 366 * 86400000])
                                row.append("@%d" % (int(ths[j][1:]) + {"b": -d, "e": 0, "a": d}[ch]))
                        rows.append(row)
                        if builtin:
                            tms.append(int(row[0][1:]))
                    names = [("timestamp" if (builtin and j == 0) else "f%d" % j) for j in range(k)]
                    for mode in ("and", "or"):
                        c = {"kind": "seg", "mode": mode, "ths": ths, "rows": rows, "names": names, "split": True}
                        if builtin:
                            c["tms"] = tms
                        out.append(c)
                        for r, row in enumerate(rows):
                            c1 = dict(c, rows=[row])
                            if builtin:
                                c1["tms"] = [tms[r]]
                            out.append(c1)
        return out

    # ---- exact integers: Python ints of any size (epoch nanoseconds, counters, 64-bit identifiers), numpy.int64 cells
    # Python compares int with int and int with float EXACTLY (the int is not converted), so a tested value and a
    # threshold that differ by 1 beyond 2^53 are told apart; numpy.int64 against a Python int / numpy.int64 as well.
    # (numpy.int64 against a float, numpy.float64 against a Python int: numpy converts the integer to a double first;
    # those pairs are generated below 2^53 only, where the conversion is exact.)
    BIG = [2 ** 53, -2 ** 53, 2 ** 60, 1_700_000_000_000_000_000, 2 ** 62, -2 ** 62 - 2 ** 20, 10 ** 16, 2 ** 54,
           2 ** 53 - 6, 0, 1000, 2 ** 64, 3 * 10 ** 20]

    @staticmethod
    def ulp(n):
        """spacing of the doubles around the integer n"""
        return max(1, 2 ** (abs(n).bit_length() - 53))

    def int_threshold(self, rng, base, u):
        """an integer threshold around `base`: mostly NOT a double (so that float(threshold) != threshold)"""
        r = rng.random()
        if r < 0.6:
            return base + rng.randrange(-3 * u, 3 * u + 1)
        if r < 0.8:
            return base + rng.choice([-1, 1, u // 2, -(u // 2), u // 2 + 1, u + 1, u - 1])
        return base + rng.randrange(-3, 4) * u            # a double

    def int_value(self, rng, T, u):
        """an integer near the threshold T: equal, next to it, at / next to the double nearest to T, half a spacing away"""
        R = int(float(T)) if abs(T) < 2 ** 1000 else T
        return rng.choice([T, T, T - 1, T + 1, R, R - 1, R + 1, (T + R) // 2, T + u // 2, T - u // 2, T + u, T - u,
                           R + u, R - u, T + rng.randrange(-3 * u, 3 * u + 1)])

    def rand_segi(self, rng, base=None):
        """segmentation() on features holding exact integers against integer / float thresholds around `base`"""
        k = rng.randrange(1, 4)
        n = rng.randrange(1, 9)
        base = rng.choice(self.BIG) if base is None else base
        u = self.ulp(base)
        pn = rng.choice([0.0, 0.0, 0.15, 0.4])
        small = abs(base) + 8 * u < 2 ** 53                # every integer in sight is a double: any pairing is exact
        in64 = abs(base) + 8 * u < 2 ** 63
        # `free`: any pairing of Python / numpy integers and floats, also where numpy converts the integer operand to a
        # double beyond 2^53 (outside what the oracle judges: compared with the typed model only)
        free = in64 and rng.random() < 0.2
        ths, cols = [], []
        for j in range(k):
            ck = rng.choice(["int", "int", "float", "mixed"] + (["npint"] if in64 else []) + (["npfloat", "any", "npint"] if free else []))
            T = self.int_threshold(rng, base, u)
            if free:
                tk = rng.choice(["I", "N", "F", "D"])
            elif ck == "npint":
                tk = rng.choice(["I", "I", "N"] + (["F"] if small else []))
            else:
                tk = rng.choice(["I", "I", "I", "F"] + (["N"] if (in64 and (small or ck == "int")) else []))
            if tk in ("F", "D"):
                ths.append(("D" if tk == "D" else "") + dbl(T))      # a float threshold (the double nearest to T)
                T = int(exact(ths[-1]))
            else:
                ths.append(tk + str(T))
            col = []
            for i in range(n):
                if rng.random() < pn:
                    col.append("nan")
                    continue
                v = self.int_value(rng, T, u)
                c_ = ck if ck not in ("mixed", "any") else rng.choice(["int", "float"] if ck == "mixed" else ["int", "float", "npint", "npfloat"])
                if tk == "N" and c_ == "float" and not small and not free:
                    c_ = "int"                               # a float against numpy.int64: numpy's conversion
                col.append({"float": "", "npfloat": "D"}[c_] + dbl(v) if c_ in ("float", "npfloat") else ("N" if c_ == "npint" else "I") + str(v))
            cols.append(col)
        r = rng.random()
        if r < 0.1:
            ths.append("I" + str(base + 1))                  # an extra threshold: never read
        c = {"kind": "seg", "mode": rng.choice(["and", "or"]), "ths": ths, "rows": [[cols[j][i] for j in range(k)] for i in range(n)],
             "split": rng.random() < 0.8}
        if k == 1:
            c["afs_form"] = rng.choice(["str", "list"])
        c["ths_form"] = "scalar" if (len(ths) == 1 and rng.random() < 0.5) else "list"
        if rng.random() < 0.25:
            c["pre"] = {"type": "seg", "mode": rng.choice(["and", "or"]), "ths": ["I" + str(self.int_threshold(rng, base, u)) for _ in range(k)]}
        elif rng.random() < 0.15:
            c["outname"] = "f%d" % rng.randrange(k)          # the marker overwrites one of the tested features
        return c

    def int_grid(self, rng):
        """for every base of BIG: 1..2 tested integer features x AND/OR x every combination of {below, equal, above, NaN}
        by 1 and by half / one spacing of the doubles, against an integer threshold that is not a double (where there
        are such) and against the double next to it"""
        out = []
        for base in self.BIG:
            u = self.ulp(base)
            for k in (1, 2):
                Ts = [base + (u // 2 + 1 if u > 1 else 1) + 2 * j * u + j for j in range(k)]
                for form in ("I", "F"):
                    ths = [("I" + str(T)) if form == "I" else dbl(T) for T in Ts]
                    Te = [int(exact(t)) for t in ths]
                    rows = []
                    for combo in itertools.product("beaN", repeat=k):
                        d = rng.choice([1, 1, max(1, u // 2), u])
                        rows.append(["nan" if ch == "N" else "I" + str(Te[i] + {"b": -d, "e": 0, "a": d}[ch]) for i, ch in enumerate(combo)])
                    for mode in ("and", "or"):
                        out.append({"kind": "seg", "mode": mode, "ths": ths, "rows": rows, "split": True})
                        for r in rows:
                            out.append({"kind": "seg", "mode": mode, "ths": ths, "rows": [r], "split": False,
                                        "ths_form": "scalar" if (k == 1 and rng.random() < 0.5) else "list"})
        return out

    def cases(self, rng, tier):
        out = []
        quick = tier == "quick"
        for n in range(1, self.nmax(tier) + 1):
            for bits in itertools.product("01", repeat=n):
                out.append({"kind": "split", "m": "".join(bits)})
        for n in range(1, self.nmax_nan(tier) + 1):
            for bits in itertools.product("01", repeat=n):
                for j in range(n):
                    pts = [[str(i), str(2 * i), "0"] for i in range(n)]
                    pts[j][2] = "nan"
                    out.append({"kind": "splitg", "vals": list(bits), "pts": pts, "limit": "default"})
        toks = sorted(VALS)
        for _ in range(300 if quick else 3000):
            n = rng.randrange(1, 9)
            out.append({"kind": "splitv", "vals": [rng.choice(toks) if rng.random() < 0.6 else rng.choice(["0", "1"]) for _ in range(n)]})
            if rng.random() < 0.5:
                out[-1]["env"] = self.rand_env(rng)
        for _ in range(1500 if quick else 60000):
            out.append(self.rand_splitg(rng))
        for _ in range(6 if quick else 60):
            out.append(self.rand_splitg(rng, long=True))
        out += self.name_grid(rng, 4 if quick else 6)
        for _ in range(1200 if quick else 40000):
            out.append(self.rand_splitn(rng))
        for _ in range(400 if quick else 15000):
            out.append(self.rand_splitidx(rng))
        # grids
        for ths in self.THS:
            for k in (1, 2, 3):
                th = [Fraction(t) for t in ths[:k]]
                rows = []
                for combo in itertools.product("beaN", repeat=k):
                    d = rng.choice([Fraction(1), Fraction(1, 2), Fraction(1, 1024), Fraction(1000)])
                    rows.append(["nan" if c == "N" else ratstr(th[i] + {"b": -d, "e": 0, "a": d}[c]) for i, c in enumerate(combo)])
                for mode in ("and", "or"):
                    out.append({"kind": "seg", "mode": mode, "ths": ths[:k], "rows": rows, "scalar": False, "split": True})
                    sh = list(rows)
                    rng.shuffle(sh)
                    out.append({"kind": "seg", "mode": mode, "ths": ths[:k], "rows": sh, "scalar": False, "split": True})
                    out.append(self.with_forms(rng, {"kind": "seg", "mode": mode, "ths": ths[:k], "rows": sh, "split": True}))
                    for r in rows:
                        out.append({"kind": "seg", "mode": mode, "ths": ths[:k], "rows": [r], "scalar": (k == 1 and rng.random() < 0.5), "split": True})
                    # the same grid with the output feature already present (stale 1s everywhere / previous call / user values)
                    out.append({"kind": "seg", "mode": mode, "ths": ths[:k], "rows": rows, "scalar": False, "split": True, "pre": {"type": "all1"}})
                    for _ in range(3):
                        out.append(self.with_history(rng, {"kind": "seg", "mode": mode, "ths": ths[:k], "rows": sh, "split": True}, [Fraction(x, 2) for x in range(-6, 7)]))
        # random
        pool = [Fraction(x, 2) for x in range(-6, 7)]
        for _ in range(1500 if quick else 60000):
            k = rng.randrange(1, 4)
            n = rng.randrange(1, 13)
            r = rng.random()
            nth = k if r < 0.75 else (k + rng.randrange(1, 3) if r < 0.88 else rng.randrange(0, k))
            pi = rng.choice([0.0, 0.0, 0.05, 0.2])
            ths = [ratstr(rng.choice(pool)) if rng.random() >= pi * 0.5 else rng.choice(["inf", "-inf"]) for _ in range(nth)]
            pn = rng.choice([0.0, 0.15, 0.4, 0.8])
            rows = [["nan" if rng.random() < pn else (rng.choice(["inf", "-inf"]) if rng.random() < pi else ratstr(rng.choice(pool)))
                     for _ in range(k)] for _ in range(n)]
            c = {"kind": "seg", "mode": rng.choice(["and", "or"]), "ths": ths, "rows": rows,
                 "scalar": (k == 1 and nth == 1 and rng.random() < 0.3), "split": rng.random() < 0.7}
            out.append(c)
            if nth >= k and rng.random() < 0.6:
                out.append(self.with_history(rng, c, pool))
            if rng.random() < 0.5:
                out.append(self.with_forms(rng, c))
            if nth >= k and rng.random() < 0.4:
                out.append(self.with_names(rng, self.with_forms(rng, c)))
        out += self.kind_grid(rng)
        out += self.int_grid(rng)
        for _ in range(1500 if quick else 40000):
            out.append(self.rand_segi(rng))
        for _ in range(1500 if quick else 40000):
            out.append(self.rand_segb(rng))
            if rng.random() < 0.25 and self.in_domain(out[-1]):
                out.append(self.with_names(rng, out[-1]))
        for _ in range(300 if quick else 12000):
            k = rng.randrange(1, 3)
            ths = [ratstr(rng.choice(pool)) for _ in range(k + (1 if rng.random() < 0.2 else 0))]
            tracks = []
            for _t in range(rng.randrange(1, 5)):
                n = rng.randrange(1, 7)
                pn = rng.choice([0.0, 0.2, 0.6])
                hi = rng.random() < 0.25            # a track on which nothing exceeds: it must contribute no piece
                tracks.append([["nan" if rng.random() < pn else ratstr(Fraction(-50) if hi else rng.choice(pool)) for _ in range(k)] for _ in range(n)])
            out.append({"kind": "coll", "mode": rng.choice(["and", "or", "default"]), "ths": ths, "tracks": tracks})
            if rng.random() < 0.3:       # tested / output features with names that are not identifiers
                nms = ["f%d" % j for j in range(k)]
                for j in range(k):
                    if rng.random() < 0.6:
                        nms[j] = exotic_name(rng, ["f%d" % i for i in range(k)], taken=nms)
                out[-1]["names"] = nms
                out[-1]["outname"] = exotic_name(rng, nms, taken=nms)
        return out

    TEMP_NAMES = ["#mark", "#0", "#1", "marker", "out", "tag2", "comp", "idx2", "seuil_max"]

    def rand_env(self, rng):
        """hidden state neither function should read: uid/tid/base, other features (incl. names like the code's temporaries)"""
        env = {}
        if rng.random() < 0.5:
            env["uid"] = rng.choice([0, 7, "7", "a.b", "trk-1", 123456, ""])
        if rng.random() < 0.3:
            env["tid"] = rng.choice([0, 1, "t", 42])
        if rng.random() < 0.3:
            env["base"] = rng.choice([[4201575.7, 189856.3, 4779066.0], [0.0, 0.0, 0.0]])
        if rng.random() < 0.25:
            env["numpy"] = True
        if rng.random() < 0.6:
            names = rng.sample(self.TEMP_NAMES, rng.randrange(1, 4))
            env["extra"] = [[nm, rng.choice(["0", "1", "2", "nan", "0.5", "-1"])] for nm in names]
            env["extra_after"] = rng.random() < 0.3      # created after the tested features instead of before
        return env

    def rand_pre(self, rng, k, n, pool):
        """what the output feature holds BEFORE the call whose result is compared"""
        r = rng.random()
        if r < 0.45:   # left by a previous segmentation() with other thresholds / mode
            return {"type": "seg", "mode": rng.choice(["and", "or"]),
                    "ths": [ratstr(rng.choice(pool + [Fraction(-100), Fraction(100)])) for _ in range(k)]}
        if r < 0.85:   # created by the user with arbitrary values
            return {"type": "vals", "vals": [rng.choice(["0", "1", "1", "2", "0.5", "nan", "1.0", "True", "-1"]) for _ in range(n)]}
        return {"type": "all1"}

    def with_history(self, rng, case, pool):
        """variants of a seg case with a pre-existing output feature / output named like a tested feature / other hidden state"""
        k = len(case["rows"][0]) if case["rows"] else 0
        n = len(case["rows"])
        c = dict(case)
        c.pop("scalar", None)
        c["scalar"] = False
        r = rng.random()
        if r < 0.7:
            c["pre"] = self.rand_pre(rng, k, n, pool)
        elif k >= 1:
            c["outname"] = "f%d" % rng.randrange(k)      # the marker overwrites one of the tested features
        c["env"] = self.rand_env(rng)
        c["split"] = True
        return c

    def with_forms(self, rng, case):
        """variants of a seg case in the argument forms and feature names the front end accepts: a bare name / a bare
        threshold, virtual features (coordinates, possibly NaN: a missing elevation) as tested features, a feature tested
        twice, a track with its own geometry and timestamps"""
        c = {k_: (list(v) if isinstance(v, list) else v) for k_, v in case.items()}
        c.pop("scalar", None)
        rows = [list(r) for r in c["rows"]]
        k = len(rows[0])
        n = len(rows)
        names = ["f%d" % j for j in range(k)]
        for j in range(k):
            if rng.random() < 0.35:
                free = [v for v in VIRTUAL if v not in names]
                if free:
                    names[j] = rng.choice(free)
        if k >= 2 and rng.random() < 0.25:
            a, b = rng.sample(range(k), 2)              # the same feature tested against two thresholds
            names[b] = names[a]
            for r in rows:
                r[b] = r[a]
        c["rows"] = rows
        c["names"] = names
        if k == 1:
            c["afs_form"] = rng.choice(["str", "list"])
        c["ths_form"] = "scalar" if (len(c["ths"]) == 1 and rng.random() < 0.5) else "list"
        if rng.random() < 0.6:
            c["pts"] = self.rand_pts(rng, n)
        tm = self.rand_times(rng, n)
        if tm:
            c["times"] = tm
        if rng.random() < 0.5:
            c["env"] = self.rand_env(rng)
        if rng.random() < 0.3 and len(c["ths"]) >= k:
            c["pre"] = self.rand_pre(rng, k, n, [Fraction(x, 2) for x in range(-6, 7)])
        c["split"] = True
        return c

    def has_types(self, case):
        return case["kind"] == "seg" and any(isint(x) for x in list(case["ths"]) + [v for r in case["rows"] for v in r])

    def npconv(self, case):
        """a compared pair for which numpy rounds the integer operand to a double before comparing: what `exceeds` means there
        is numpy's business; run on both sides and compared with the model (PNum.le?), not judged by the oracle"""
        if not self.has_types(case):
            return False
        ths = case["ths"]
        return any(v != "nan" and j < len(ths) and not istime(v) and not istime(ths[j]) and ths[j] != "nan" and converts_inexactly(v, ths[j])
                   for r in case["rows"] for j, v in enumerate(r))

    def in_domain(self, case):
        return self.in_domain0(case) and not self.npconv(case)

    def in_domain0(self, case):
        if case["kind"] == "seg":
            if not case["rows"]:
                return True
            if len(case["ths"]) < len(case["rows"][0]):
                return False
            # a number against an ObsTime threshold (or the reverse) is not comparable: no claim
            return all(v == "nan" or kind(v) == kind(case["ths"][j]) for r in self.eff_rows(case) for j, v in enumerate(r))
        if case["kind"] == "coll":
            return len(case["ths"]) >= len(case["tracks"][0][0])
        if case["kind"] in ("split", "splitv", "splitg"):
            return self.marks(case) is not None      # split() on a name the track does not have: no claim
        return True

    def describe(self, case):
        t = {"kind": case["kind"]}
        k = case["kind"]
        if k == "split":
            m = case["m"]
            t["n"] = len(m)
            t["shape"] = ("none" if "1" not in m else "") + ("first" if m[0] == "1" else "") + ("last" if m[-1] == "1" else "") + ("adjacent" if "11" in m else "")
        if k in ("split", "splitv", "splitg"):
            src = self.source(case)
            if enc(src) != src:
                t["names"] = "exotic"
            if self.marks(case) is None:
                t["domain"] = "unknown-name"
        if k in ("splitg", "splitidx"):
            lim = case.get("limit", "default")
            t["limit"] = "0" if lim in ("default", "0", "0.0") else ">0"
            flat = [c for p in case["pts"] for c in p]
            t["coords"] = "nan" if "nan" in flat else "inf" if ("inf" in flat or "-inf" in flat) else "finite"
        if k == "seg":
            t["mode"] = case["mode"]
            t["features"] = len(case["rows"][0])
            t["domain"] = "in" if len(case["ths"]) >= len(case["rows"][0]) else "fewer-thresholds"
            t["history"] = (case["pre"]["type"] if case.get("pre") else "out=tested" if case.get("outname") in self.names(case) else "fresh")
            if any(enc(nm) != nm for nm in self.names(case) + [case.get("outname", "out")]):
                t["names"] = "exotic"
            afs, ths = self.forms(case)
            t["forms"] = afs + "/" + ths
            if any(nm in VIRTUAL for nm in self.names(case)):
                t["virtual"] = "yes"
            bi = sorted(set(nm for nm in self.names(case) if nm in BUILTIN))
            if bi:
                t["builtin"] = "+".join(bi)
            kds = set(kind(v) for r in self.eff_rows(case) for v in r if v != "nan")
            t["values"] = "mixed" if len(kds) == 2 else "ObsTime" if kds == {"time"} else "numbers"
            if t["domain"] == "in" and not self.in_domain0(case):
                t["domain"] = "number-vs-ObsTime"
            flat = [v for r in case["rows"] for v in r] + list(case["ths"])
            if "inf" in flat or "-inf" in flat:
                t["infinite"] = "yes"
            ints = [x for x in flat if x[:1] in ("I", "N")]
            if ints:
                big = any(abs(int(x[1:])) > 2 ** 53 for x in ints)
                t["integers"] = ("beyond-2^53" if big else "small") + ("+numpy" if any(x[0] in "ND" for x in flat if isint(x)) else "") + \
                                ("+floats" if any(x[:1] not in ("I", "N") and x != "nan" for x in flat) else "")
            if t["domain"] == "in" and self.npconv(case):
                t["domain"] = "numpy-converts-an-integer"
        if k == "coll":
            t["tracks"] = len(case["tracks"])
            if case.get("names"):
                t["names"] = "exotic"
        if case.get("env"):
            t["env"] = "+".join(sorted(k_ for k_ in case["env"] if k_ != "extra_after"))
        return t

    def nontrivial(self, case):
        k = case["kind"]
        if k == "split":
            return len(case["m"]) >= 2 and "1" in case["m"]
        if k in ("splitv", "splitg"):
            return any(self.marks(case) or [])
        if k == "splitidx":
            return len(case["idx"]) >= 2
        if k == "coll":
            return any(v != "nan" for tr in case["tracks"] for r in tr for v in r)
        return any(v != "nan" for r in case["rows"] for v in r)

    # ---------------------------------------------------------------- the track of a case
    @staticmethod
    def names(case):
        return case.get("names") or ["f%d" % j for j in range(len(case["rows"][0]))]

    @staticmethod
    def times_ms(case, n):
        """timestamps of the observations in integer milliseconds"""
        if case.get("tms"):
            return list(case["tms"])
        return [1000 * s_ for s_ in (case.get("times") or list(range(n)))]

    def builtin_col(self, case, name, n):
        """tokens of the column a built-in name ('t', 'idx', 'timestamp') reads, from the case's timestamps"""
        tms = self.times_ms(case, n)
        if name == "idx":
            return [str(i) for i in range(n)]
        if name == "t":
            return [ratstr(Fraction(tm_float(m))) for m in tms]
        return ["@%d" % m for m in tms]

    def eff_rows(self, case):
        """the tested values per observation: as written in the case, the columns of built-in names being derived
        from the track's timestamps / indices"""
        rows = case["rows"]
        if not rows or not case.get("names") or not any(nm in BUILTIN for nm in case["names"]):
            return rows
        rows = [list(r) for r in rows]
        for j, nm in enumerate(case["names"]):
            if nm in BUILTIN:
                col = self.builtin_col(case, nm, len(rows))
                for i in range(len(rows)):
                    rows[i][j] = col[i]
        return rows

    @staticmethod
    def forms(case):
        sc = bool(case.get("scalar"))
        return case.get("afs_form", "str" if sc else "list"), case.get("ths_form", "scalar" if sc else "list")

    def points(self, case, n):
        """[x, y, z] tokens per observation; a virtual tested feature takes its column from the rows"""
        pts = [list(p) for p in case["pts"]] if case.get("pts") else [[str(i), str(2 * i), "0"] for i in range(n)]
        if case["kind"] == "seg":
            for j, nm in enumerate(self.names(case)):
                if nm in VIRTUAL:
                    for i in range(n):
                        pts[i][VIRTUAL.index(nm)] = repr(fval(case["rows"][i][j]))
        return pts

    def table(self, case, n, offset=0):
        """the analytical-feature table (ordered [name, tokens]) before the first segmentation()/split() call,
        in the order in which impl() creates the features"""
        env = case.get("env") or {}
        tab = [["tag", [str(offset + i) for i in range(n)]]]

        def put(nm, toks):
            for e in tab:
                if e[0] == nm:
                    e[1] = list(toks)
                    return
            tab.append([nm, list(toks)])

        def extras(skip=None):
            for nm, tok in env.get("extra", []):
                if nm != skip:
                    put(nm, [tok] * n)
        k = case["kind"]
        if not env.get("extra_after"):
            extras()

        def cols():          # other features with one value per observation (the operands an exotic name seems to mention)
            for nm, toks in case.get("cols") or []:
                put(nm, toks)
        if not case.get("cols_after"):
            cols()
        if k in ("split", "splitv", "splitg"):
            mname = case.get("mname", "marker")
            put(mname, list(case["m"]) if k == "split" else case["vals"])
            if env.get("extra_after"):
                extras(mname)
        elif k == "seg":
            outname = case.get("outname", "out")
            for j, nm in enumerate(self.names(case)):
                if nm not in VIRTUAL and nm not in BUILTIN:
                    put(nm, [r[j] for r in case["rows"]])
            if env.get("extra_after"):
                extras(outname)
        if case.get("cols_after"):
            cols()
        if k == "seg":
            pre = case.get("pre")
            if pre and pre["type"] == "vals":
                put(outname, pre["vals"])
            elif pre and pre["type"] == "all1":
                put(outname, ["1"] * n)
        return tab

    def make_track(self, case, n, offset=0):
        env = case.get("env") or {}
        base = self.ECEF(*env["base"]) if env.get("base") else None
        t = self.Track([], env.get("uid", 7), env.get("tid", 0), base)
        pts = self.points(case, n)
        times = case.get("times") or list(range(n))
        for i in range(n):
            # "tms": instants in integer milliseconds, the ObsTime being built from its calendar fields
            ts = self.T(*tm_fields(case["tms"][i])) if case.get("tms") else self.T.readUnixTime(times[i])
            t.addObs(self.Obs(self.ENU(coord(pts[i][0]), coord(pts[i][1]), coord(pts[i][2])), ts))
        for nm, toks in self.table(case, n, offset):
            vals = [int(x) for x in toks] if nm == "tag" else [tokval(x) for x in toks]
            if env.get("numpy") and nm != "tag":      # cells computed with numpy: np.float64 / np.int64 scalars
                import numpy as np
                vals = [v if isinstance(v, bool) or hasattr(v, "year") or isint(x) else (np.int64(v) if isinstance(v, int) else np.float64(v))
                        for v, x in zip(vals, toks)]        # ('I<n>' / 'N<n>' cells say themselves what they are)
            t.createAnalyticalFeature(nm, vals)
        return t

    @staticmethod
    def snapshot(t):
        """everything an observation is: position, timestamp, feature values (as exact tokens), per observation"""
        names = t.getListAnalyticalFeatures()
        snap = []
        for i in range(t.size()):
            o = t.getObs(i)
            snap.append([valtok(o.position.getX()), valtok(o.position.getY()), valtok(o.position.getZ()),
                         valtok(o.timestamp.toAbsTime())] + [valtok(t.getObsAnalyticalFeature(nm, i)) for nm in names])
        return names, snap

    def read_table(self, t):
        return [[nm, [valtok(t.getObsAnalyticalFeature(nm, i)) for i in range(t.size())]] for nm in t.getListAnalyticalFeatures()]

    def pieces_of(self, coll, names, snap):
        """pieces as lists of tags; `content`: first difference between an observation of a piece and the observation of
        the source track carrying the same tag (position, timestamp, every feature value), None when there is none"""
        pieces, uids, content = [], [], None
        for p in coll.getTracks():
            pnames, psnap = self.snapshot(p)
            tags = [int(p.getObsAnalyticalFeature("tag", k)) for k in range(p.size())]
            if content is None and p.size() > 0 and pnames != names:
                content = "a piece has the features %s, the track has %s" % (pnames, names)
            for k, g in enumerate(tags):
                if content is None and pnames == names and (g < 0 or g >= len(snap) or psnap[k] != snap[g]):
                    content = ("observation %d of piece %d (tag %d) is %s, the track's observation is %s  [x, y, z, t, %s]"
                               % (k, len(pieces), g, psnap[k], snap[g] if 0 <= g < len(snap) else None, ", ".join(names)))
            pieces.append(tags)
            uids.append(str(p.uid))
        return pieces, uids, content

    def split_and_read(self, t, source, limit="default"):
        names, snap = self.snapshot(t)
        coll = self.S.split(t, source) if limit == "default" else self.S.split(t, source, limval(limit))
        pieces, uids, content = self.pieces_of(coll, names, snap)
        if content is None and self.snapshot(t) != (names, snap):
            content = "split() modified the source track"
        out = {"pieces": pieces, "uids": uids, "content": content}
        # the same call once more on the same track (state left by the first call on the track, its observations or the
        # module): the statement holds for every call, so the oracle is run on the second result too when it differs
        coll2 = self.S.split(t, source) if limit == "default" else self.S.split(t, source, limval(limit))
        pieces2, _u, content2 = self.pieces_of(coll2, names, snap)
        if pieces2 != pieces or content2 != content:
            out["again"] = {"pieces": pieces2, "content": content2}
        return out

    # ---------------------------------------------------------------- implementation
    def mode_const(self, m):
        return self.S.MODE_COMPARAISON_AND if m == "and" else self.S.MODE_COMPARAISON_OR

    def impl(self, case):
        k = case["kind"]
        if k in ("split", "splitv", "splitg"):
            n = len(case["m"]) if k == "split" else len(case["vals"])
            t = self.make_track(case, n)
            return self.split_and_read(t, self.source(case), case.get("limit", "default"))
        if k == "splitidx":
            t = self.make_track(case, len(case["pts"]))
            return self.split_and_read(t, list(case["idx"]), case.get("limit", "default"))
        if k == "seg":
            rows = case["rows"]
            t = self.make_track(case, len(rows))
            names = self.names(case)
            outname = case.get("outname", "out")
            ths = [tokval(x) if istime(x) else numval(x) for x in case["ths"]]
            pre = case.get("pre")
            if pre and pre["type"] == "seg":
                self.S.segmentation(t, names, outname, [tokval(x) if istime(x) else numval(x) for x in pre["ths"]], self.mode_const(pre["mode"]))
                if case.get("split"):
                    self.S.split(t, outname)        # a split() on the earlier marker, result dropped: it must leave nothing behind
            afs_form, ths_form = self.forms(case)
            self.S.segmentation(t, names[0] if afs_form == "str" else names, outname,
                                ths[0] if ths_form == "scalar" else ths, self.mode_const(case["mode"]))
            mk = [t.getObsAnalyticalFeature(outname, i) for i in range(t.size())]
            # 1 / 0 by value (1.0 or True would do as well); anything else (stale 0.5, NaN, 2) is shown as '?'
            out = {"markers": "".join("1" if v == 1 else "0" if v == 0 else "?" for v in mk), "table": self.read_table(t)}
            if case.get("split"):
                out.update(self.split_and_read(t, outname))
            return out
        if k == "coll":
            tracks, off = [], 0
            names = case.get("names") or ["f%d" % j for j in range(len(case["tracks"][0][0]))]
            outname = case.get("outname", "out")
            for rows in case["tracks"]:
                tracks.append(self.make_track({"kind": "seg", "rows": rows, "names": names}, len(rows), off))
                off += len(rows)
            coll = self.TC(tracks)
            ths = [numval(x) for x in case["ths"]]
            if case["mode"] == "default":
                coll.segmentation(names, outname, ths)
            else:
                coll.segmentation(names, outname, ths, self.mode_const(case["mode"]))
            marks = []
            allnames, allsnap = None, []
            for t in tracks:
                mk = [t.getObsAnalyticalFeature(outname, i) for i in range(t.size())]
                marks.append("".join("1" if v == 1 else "0" if v == 0 else "?" for v in mk))
                nm, sn = self.snapshot(t)
                allnames = nm
                allsnap += sn
            res = coll.split_segmentation(outname)
            pieces, uids, content = self.pieces_of(res, allnames, allsnap)
            if content is None and coll.size() != len(tracks):
                content = "split_segmentation() changed the collection it was called on"
            return {"markers": marks, "pieces": pieces, "uids": uids, "content": content}
        raise ValueError(k)

    # ---------------------------------------------------------------- model
    @staticmethod
    def source(case):
        """the feature name handed to split(): the name of the marker feature unless the case says otherwise"""
        return case.get("src", case.get("mname", "marker"))

    def marks(self, case):
        """which observations are marked: the cells of the feature called `source` that equal 1 (the case's own data,
        looked up by the exact name); None when the track has no feature of that name"""
        n = len(case["m"]) if case["kind"] == "split" else len(case["vals"])
        src = self.source(case)
        if src in VIRTUAL:          # the marker is a virtual feature: a coordinate equal to 1
            return [coord(p[VIRTUAL.index(src)]) == 1 for p in self.points(case, n)]
        if src == "idx":
            return [i == 1 for i in range(n)]
        if src == "t":              # toAbsTime() == 1
            return [m == 1000 for m in self.times_ms(case, n)]
        if src == "timestamp":      # an ObsTime is never equal to 1
            return [False] * n
        col = dict((nm, toks) for nm, toks in self.table(case, n)).get(src)
        if col is None:
            return None
        return [bool(tokval(v) == 1) for v in col]

    @staticmethod
    def pts_tok(pts):
        return ";".join(",".join(fbits(coord(c)) for c in p) for p in pts) or "_"

    @staticmethod
    def limit_tok(case):
        lim = case.get("limit", "default")
        return fbits(0.0 if lim == "default" else float(limval(lim)))

    @staticmethod
    def table_tok(tab):
        return ";".join("%s=%s" % (enc(nm), ",".join(valtok(tokval(x)) for x in toks) or "_") for nm, toks in tab) or "_"

    def requests(self, case):
        k = case["kind"]
        if k in ("split", "splitv", "splitg"):
            # (a) the loop of split() on the marker vector worked out by the harness from the case's data;
            # (b) the whole call on the model's track: the model looks the name up in the feature table and tests `== 1`
            n = len(case["m"]) if k == "split" else len(case["vals"])
            mk = self.marks(case)
            pts = self.points(case, n)
            xyz = ["%s=%s" % (v, ",".join(valtok(coord(p[c])) for p in pts) or "_") for c, v in enumerate(VIRTUAL)]
            stamps = ",".join(mtok(x) for x in self.builtin_col(case, "timestamp", n)) or "_"
            byname = "C11.splitname %s %s %s %s %s %s" % (self.limit_tok(case), enc(self.source(case)), ";".join(xyz), stamps,
                                                          self.table_tok(self.table(case, n)), self.pts_tok(pts))
            if mk is None:
                return [byname]
            mks = "".join("1" if b else "0" for b in mk) or "_"
            if k == "splitg":
                return ["C11.splitlim %s %s %s" % (self.limit_tok(case), mks, self.pts_tok(pts)), byname]
            return ["C11.split " + mks, byname]
        if k == "splitidx":
            return ["C11.splitidx %s %s %s" % (self.limit_tok(case), ",".join(str(i) for i in case["idx"]) or "_", self.pts_tok(case["pts"]))]
        if k == "coll":
            return ["C11.collseg %s %s %s" % ("and" if case["mode"] == "default" else case["mode"], ",".join(mtok(x) for x in case["ths"]) or "_",
                                              "|".join(";".join(",".join(mtok(v) for v in r) for r in rows) for rows in case["tracks"]))]
        erows = self.eff_rows(case)
        rows = ";".join(",".join(mtok(v) for v in r) for r in erows)
        n = len(erows)
        cmd = "segsplit" if case.get("split") else "marker"
        ths = ",".join(mtok(x) for x in case["ths"]) or "_"
        # the whole sequence of calls on the feature table
        names = self.names(case)
        outname = case.get("outname", "out")
        pts = self.points(case, n)
        xyz = ["%s=%s" % (v, ",".join(valtok(coord(p[c])) for p in pts)) for c, v in enumerate(VIRTUAL)]
        # the numeric model is handed the columns of 't' and 'idx'; the operator-call model computes them (and
        # 'timestamp') from the timestamps of the observations
        virt = xyz + ["%s=%s" % (nm, ",".join(self.builtin_col(case, nm, n))) for nm in ("t", "idx")]
        stamps = ",".join(mtok(x) for x in self.builtin_col(case, "timestamp", n)) or "_"
        calls = []
        pre = case.get("pre")
        enames = [enc(nm) for nm in names]
        if pre and pre["type"] == "seg":
            calls += [pre["mode"], "l:" + ",".join(enames), enc(outname), "l:" + (",".join(mtok(x) for x in pre["ths"]) or "_")]
        afs_form, ths_form = self.forms(case)
        calls += [case["mode"], ("s:" + enames[0]) if afs_form == "str" else "l:" + ",".join(enames), enc(outname),
                  ("s:" + mtok(case["ths"][0])) if ths_form == "scalar" else "l:" + ths]
        tab = self.table_tok(self.table(case, n))
        # the operator-call model (values: numbers or ObsTime objects): the loops on the rows worked out by the harness, and the
        # whole sequence of calls on the model's track (with split(): the marker is read back from the table by its name) ...
        lines = ["C11.%sv %s %s %s" % (cmd, case["mode"], ths, rows),
                 "C11.%s %s %s %s %s" % ("segseqsplitv" if case.get("split") else "segseqv", ";".join(xyz), stamps, tab, " ".join(calls))]
        # ... and, when every value in sight is a number, the numeric model as well: the two must answer the same
        if self.numeric(case):
            lines += ["C11.%s %s %s %s" % (cmd, case["mode"], ths, rows),
                      "C11.segseq %d %s %s %s" % (n, ";".join(virt), tab, " ".join(calls))]
        # ... and, when a number says which Python type it has (int of any size, numpy scalar), the loops on numbers WITH their
        # types (PNum: exact unless numpy converts the integer operand of an integer / float pair)
        if self.pline(case):
            lines.append("C11.%sp %s %s %s" % (cmd, case["mode"], ",".join(self.ptok(x) for x in case["ths"]) or "_",
                                               ";".join(",".join(self.ptok(v, True) for v in r) for r in erows)))
        return lines

    def pline(self, case):
        return (self.has_types(case) and self.numeric(case) and not (case.get("env") or {}).get("numpy")
                and not any(nm in VIRTUAL or nm in BUILTIN for nm in self.names(case)))

    @staticmethod
    def ptok(tok, cell=False):
        if tok == "nan" or isint(tok):
            return tok
        if cell and tok in VALS:
            v = VALS[tok]
            return "I%d" % int(v) if isinstance(v, int) else valtok(v)
        return tok

    def numeric(self, case):
        """no ObsTime anywhere: neither tested ('timestamp'), nor as a cell of the feature table, nor as a threshold"""
        if "timestamp" in self.names(case):
            return False
        toks = list(case["ths"]) + [v for r in case["rows"] for v in r]
        pre = case.get("pre") or {}
        toks += list(pre.get("ths", [])) + list(pre.get("vals", []))
        return not any(istime(x) for x in toks)

    def decode(self, case, replies):
        k = case["kind"]
        for r in replies:
            if r == "bad-request":
                raise ValueError("bad-request")
        pl = None
        if k == "seg":
            replies = list(replies)
            if self.pline(case):
                pl = replies.pop()
            if case.get("split") and " " in replies[1]:
                # `<table> <pieces>`: the pieces of split() reading the marker back from the table by name must be those of
                # split() on the marker vector of the rows
                tab, pc = replies[1].split(" ")
                if " " not in replies[0] or replies[0].split(" ")[1] != pc:
                    raise ValueError("model: split() on the table by name gives %s, on the markers %s" % (pc, replies[0]))
                replies[1] = tab
            if len(replies) == 4:
                if replies[2:] != replies[:2]:
                    raise ValueError("model: the numeric model answers %s, the operator-call model %s" % (replies[2:], replies[:2]))
                replies = replies[:2]
        if k in ("split", "splitv", "splitg") and len(replies) == 2:
            if replies[0] != replies[1]:
                raise ValueError("model: split() reading the marker by name answers %s, the loop on the marker vector %s" % (replies[1], replies[0]))
            replies = replies[:1]
        if pl is not None and self.npconv(case):
            # numpy converts an integer operand somewhere: the model is the typed one; markers (and pieces) only
            if pl.startswith("err:"):
                return {"err": pl}
            parts = pl.split(" ")
            out = {"markers": "" if parts[0] == "_" else parts[0], "npconv": True}
            if case.get("split"):
                out.update({"pieces": parse_pieces(parts[1]), "content": None})
            return out
        if pl is not None and pl != replies[0]:
            raise ValueError("model: on numbers with their Python types the loops answer %s, on exact values %s" % (pl, replies[0]))
        for r in replies:
            if r.startswith("err:"):
                return {"err": r}
        r = replies[0]
        if k == "splitidx":
            return {"pieces": parse_pieces(r), "content": None}
        if k in ("split", "splitv", "splitg"):
            pc, ids = r.split(" ")
            uid = (case.get("env") or {}).get("uid", 7)
            return {"pieces": parse_pieces(pc), "content": None,
                    "uids": [] if ids == "_" else ["%s.%s" % (uid, i) for i in ids.split(";")]}
        if k == "coll":
            mk, pc = r.split(" ")
            return {"markers": ["" if m == "_" else m for m in mk.split("|")], "pieces": parse_pieces(pc), "content": None}
        out = {}
        if case.get("split"):
            mk, pc = r.split(" ")
            out = {"pieces": parse_pieces(pc), "content": None}
        else:
            mk = r
        out["markers"] = "" if mk == "_" else mk
        out["table"] = parse_table(replies[1])
        col = dict((nm, c) for nm, c in out["table"]).get(case.get("outname", "out"))
        if col is None or "".join(col) != out["markers"]:
            raise ValueError("model: output column %s of the table differs from the markers %s" % (col, out["markers"]))
        return out

    def compare(self, case, impl_out, model_out):
        if not self.in_domain0(case):
            # fewer thresholds than features: the property promises nothing, so a change of behaviour there
            # (e.g. repairing the `>=` guard) must not be reported; the model's IndexError / float-max branch is
            # still exercised and any crash of the model side would surface as a driver failure
            return None
        if "err" in impl_out or "err" in model_out:
            if impl_out.get("err") == model_out.get("err"):
                return None
            return "impl=%s model=%s" % (impl_out, model_out)
        # canonicalisation: the statement leaves open whether an empty trailing piece is emitted when the last
        # observation is marked. The pieces' uids (<uid>.<count>.<begin>.<end>, modelled by `splitU`) are compared on
        # the split streams; they are not part of the statement, so `spec` never looks at them
        with_uids = case["kind"] in ("split", "splitv", "splitg")
        drop = ("table", "npconv") if model_out.get("npconv") else ()      # (numbers typed model: markers and pieces only)
        def canon(o):
            o = {k: v for k, v in o.items() if (k != "uids" or with_uids) and k not in drop}
            if case["kind"] == "coll":
                o["pieces"] = [p for p in o["pieces"] if p]      # one possible empty trailing piece per track
            elif case["kind"] != "splitidx" and o.get("pieces") and o["pieces"][-1] == []:
                o["pieces"] = o["pieces"][:-1]
                if with_uids:
                    o["uids"] = o["uids"][:-1]
            return o
        return Prop.compare(self, case, canon(impl_out), canon(model_out))

    # ---------------------------------------------------------------- oracle (transfer)
    def spec(self, case, out):
        e = self.spec1(case, out)
        if e is None and isinstance(out, dict) and out.get("again"):
            e = self.spec1(case, dict(out, pieces=out["again"]["pieces"], content=out["again"]["content"], again=None))
            if e:
                return "second split() of the same track: " + e
        return e

    def spec1(self, case, out):
        if not self.in_domain(case):
            return None
        k = case["kind"]
        if "err" in out:
            if k == "splitidx":
                return None         # an index outside the track: no claim
            return "raised %s (%s)" % (out["err"], out.get("detail"))
        if out.get("content"):
            return out["content"]
        if k in ("split", "splitv"):
            return oracle_split(self.marks(case), out["pieces"])
        if k == "splitg":
            if case.get("limit", "default") in ("default", "0", "0.0"):
                return oracle_split(self.marks(case), out["pieces"])
            return oracle_kept(self.marks(case), out["pieces"])
        if k == "splitidx":
            return None             # the statement is about marker features; the pieces' content was checked above
        if k == "coll":
            ths = [exact(x) for x in case["ths"]]
            want = [oracle_markers("and" if case["mode"] == "default" else case["mode"], ths,
                                   [[exact(v) for v in r] for r in rows]) for rows in case["tracks"]]
            if out["markers"] != want:
                return "markers %s of the tracks of the collection, expected %s (thresholds %s, %s mode)" % (out["markers"], want, case["ths"], case["mode"])
            # every track is split on its own; a track without a marked observation yields nothing
            bounds, off = [], 0
            for w in want:
                bounds.append((off, off + len(w)))
                off += len(w)
            groups = [[] for _ in want]
            cur = 0
            for p in out["pieces"]:
                if p:
                    owner = [j for j, (a, b) in enumerate(bounds) if a <= p[0] < b]
                    if not owner or any(not (bounds[owner[0]][0] <= g < bounds[owner[0]][1]) for g in p):
                        return "piece %s mixes observations of several tracks" % p
                    cur = owner[0]      # (the order of the tracks among themselves is not in the statement: correspondence only)
                groups[cur].append([g - bounds[cur][0] for g in p])
            for j, w in enumerate(want):
                if "1" not in w and groups[j] == [list(range(len(w)))]:
                    # the statement is about split() on one track; whether the collection front end leaves out a track
                    # that has no marked observation (what it does) or keeps it whole (what its docstring suggests) is
                    # not fixed by it: both are accepted here, the correspondence pins the current behaviour
                    continue
                e = oracle_split([c == "1" for c in w], groups[j])
                if e:
                    return "track %d of the collection: %s" % (j, e)
            return None
        ths = [exact(x) for x in case["ths"]]
        erows = self.eff_rows(case)
        rows = [[exact(v) for v in r] for r in erows]
        want = oracle_markers(case["mode"], ths, rows)
        if out["markers"] != want:
            bad = [i for i in range(len(want)) if i >= len(out["markers"]) or out["markers"][i] != want[i]][0]
            return ("marker %s, expected %s: observation %d with tested values %s (features %s) against thresholds %s in %s mode "
                    "[@n = the instant n milliseconds after 1970-01-01; I<n> = the Python int n, N<n> = numpy.int64(n), other numbers are floats]"
                    % (out["markers"], want, bad, erows[bad], self.names(case), case["ths"], case["mode"].upper()))
        if case.get("split"):
            return oracle_split([c == "1" for c in want], out["pieces"])
        return None

    # ---------------------------------------------------------------- shrinking / search
    def shrink(self, case):
        k = case["kind"]
        if k == "split":
            m = case["m"]
            for i in range(len(m)):
                if len(m) > 1:
                    yield {"kind": "split", "m": m[:i] + m[i + 1:]}
            for i in range(len(m)):
                if m[i] == "1":
                    yield {"kind": "split", "m": m[:i] + "0" + m[i + 1:]}
        elif k == "splitv":
            v = case["vals"]
            for i in range(len(v)):
                if len(v) > 1:
                    c = dict(case, vals=v[:i] + v[i + 1:])
                    if case.get("cols"):
                        c["cols"] = [[nm, toks[:i] + toks[i + 1:]] for nm, toks in case["cols"]]
                    yield c
            for key in ("env", "cols"):
                if case.get(key):
                    yield {k_: v_ for k_, v_ in case.items() if k_ != key}
        elif k in ("splitg", "splitidx"):
            for key in ("env", "times"):
                if case.get(key):
                    yield {k_: v for k_, v in case.items() if k_ != key}
            n = len(case["pts"])
            if case.get("cols"):
                for j in range(len(case["cols"])):
                    yield dict(case, cols=case["cols"][:j] + case["cols"][j + 1:])
            for i in range(n):
                if n > 1:
                    c = dict(case, pts=case["pts"][:i] + case["pts"][i + 1:])
                    if case.get("cols"):
                        c["cols"] = [[nm, toks[:i] + toks[i + 1:]] for nm, toks in case["cols"]]
                    if k == "splitg":
                        c["vals"] = case["vals"][:i] + case["vals"][i + 1:]
                    else:
                        c["idx"] = [j for j in case["idx"] if -n + 1 <= j < n - 1]
                    if case.get("times"):
                        c["times"] = case["times"][:i] + case["times"][i + 1:]
                    yield c
            if k == "splitg":
                for i, v in enumerate(case["vals"]):
                    if v not in ("0", "1"):
                        yield dict(case, vals=case["vals"][:i] + ["1" if VALS[v] == 1 else "0"] + case["vals"][i + 1:])
            else:
                for i in range(len(case["idx"])):
                    yield dict(case, idx=case["idx"][:i] + case["idx"][i + 1:])
            for i in range(n):
                for c_ in range(3):
                    dflt = [str(i), str(2 * i), "0"][c_]
                    if case["pts"][i][c_] != dflt:
                        pts = [list(p) for p in case["pts"]]
                        pts[i][c_] = dflt
                        yield dict(case, pts=pts)
        elif k == "coll":
            tr = case["tracks"]
            for i in range(len(tr)):
                if len(tr) > 1:
                    yield dict(case, tracks=tr[:i] + tr[i + 1:])
            for i in range(len(tr)):
                for j in range(len(tr[i])):
                    if len(tr[i]) > 1:
                        yield dict(case, tracks=tr[:i] + [tr[i][:j] + tr[i][j + 1:]] + tr[i + 1:])
        else:
            rows = case["rows"]
            for key in ("env", "times", "pts", "cols"):
                if case.get(key):
                    yield {k_: v for k_, v in case.items() if k_ != key}
            if case.get("names") and not case.get("outname") and not any(nm in BUILTIN for nm in case["names"]):
                yield {k_: v for k_, v in case.items() if k_ != "names"}
            if case.get("pre") and case["pre"]["type"] != "all1":
                yield dict(case, pre={"type": "all1"})
            for i in range(len(rows)):
                if len(rows) > 1:
                    c2 = dict(case, rows=rows[:i] + rows[i + 1:])
                    if case.get("pre", {}).get("type") == "vals":
                        v = case["pre"]["vals"]
                        c2["pre"] = {"type": "vals", "vals": v[:i] + v[i + 1:]}
                    for key in ("times", "pts", "tms"):
                        if case.get(key):
                            c2[key] = case[key][:i] + case[key][i + 1:]
                    if case.get("cols"):
                        c2["cols"] = [[nm, toks[:i] + toks[i + 1:]] for nm, toks in case["cols"]]
                    yield c2
            kf = len(rows[0])
            if kf > 1 and len(case["ths"]) >= kf and not case.get("pre") and not case.get("outname"):
                for j in range(kf):
                    c2 = dict(case, rows=[r[:j] + r[j + 1:] for r in rows], ths=case["ths"][:j] + case["ths"][j + 1:], scalar=False)
                    if case.get("names"):
                        c2["names"] = case["names"][:j] + case["names"][j + 1:]
                    c2.pop("afs_form", None)
                    c2.pop("ths_form", None)
                    yield c2
            if case.get("split"):
                yield dict(case, split=False)

    def mutate(self, case, rng):
        k = case["kind"]
        if k == "split":
            m = case["m"]
            for i in range(len(m)):
                yield {"kind": "split", "m": m[:i] + ("0" if m[i] == "1" else "1") + m[i + 1:]}
            yield {"kind": "split", "m": m + "0"}
            yield {"kind": "split", "m": m + "1"}
        elif k == "splitg":
            yield dict(case, limit="default")
            for i in range(len(case["pts"])):
                pts = [list(p) for p in case["pts"]]
                pts[i][2] = "nan"
                yield dict(case, pts=pts, limit="default")
        elif k == "seg":
            for mode in ("and", "or"):
                yield dict(case, mode=mode)
            if self.in_domain(case) and case["rows"]:
                for _ in range(3):
                    yield self.with_names(rng, dict(case, names=list(self.names(case))))
            # the same comparison pattern on exact integers beyond 2^53: every (integer-valued) tested value and threshold
            # moved by the same amount, as Python ints
            toks = list(case["ths"]) + [v for r in case["rows"] for v in r] + list((case.get("pre") or {}).get("ths", []))
            if (self.in_domain(case) and case["rows"] and self.numeric(case) and not case.get("names")
                    and all(x == "nan" or (x not in ("inf", "-inf") and exact(x).denominator == 1) for x in toks)):
                sh = lambda x, b: x if x == "nan" else "I" + str(int(exact(x)) + b)
                for b in rng.sample(self.BIG, 3):
                    c = {k_: v for k_, v in case.items() if k_ != "env"}
                    c["ths"] = [sh(x, b) for x in case["ths"]]
                    c["rows"] = [[sh(x, b) for x in r] for r in case["rows"]]
                    if case.get("pre") and case["pre"]["type"] == "seg":
                        c["pre"] = dict(case["pre"], ths=[sh(x, b) for x in case["pre"]["ths"]])
                    yield c
        if k in ("split", "splitv", "splitg") and "src" not in case:
            # the same marker under a name that is not an identifier, next to the features the name seems to mention
            n = len(case["m"]) if k == "split" else len(case["vals"])
            for _ in range(4):
                ops = rng.sample(self.OPERANDS, 2)
                yield dict(case, mname=exotic_name(rng, ops, taken=ops), cols=self.rand_cols(rng, n, ops))
