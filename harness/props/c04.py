"""C04 — sequence operations on a track select exactly the designated observations (tracklib/core/track.py)."""
import itertools, math
from engine import Prop, err_kind

BASE = 946684800 + 12345      # 2000-01-01 03:25:45
STEP = 3607                   # one time unit = 3607 s (crosses minutes, hours and days)
NEW_TAG = 100000            # tag of the inserted observation (never the tag of an existing one)
V4 = [1, 3, 5, 7]             # the four timestamp values of the enumerated scopes (instants 0..8 around them)


def feats(tag, names):
    return [10 * tag + k for k in range(len(names))]


def obs_rows(times, names, tag0=0):
    """what the observations of the track built from `times` must look like: [tag, time, feat...]"""
    return [[tag0 + i, t] + feats(tag0 + i, names) for i, t in enumerate(times)]


def nondecreasing(ts):
    return all(ts[i] <= ts[i + 1] for i in range(len(ts) - 1))


def is_subsequence(a, b):
    it = iter(b)
    return all(any(x == y for y in it) for x in a)


class P(Prop):
    id = "C04"
    design_ref = "DESIGN.md section 5, C04 and appendix A.5"
    M = "TracklibVerif.Props.C04"
    theorems = [
        (M, "TV.C04.dichotomy_in_range", "T1: for any timestamps and any first step 2^j with 2*2^j <= N the search loop, run with an access that fails on every index outside 0..N-1, ends within fuel j+N+3 at an index 0..N-1"),
        (M, "TV.C04.insertionIndex_no_index_error", "T1 whole function: on every list __getInsertionIndex returns an index 0..N without reading outside 0..N-1 (no IndexError, no negative wrap); the model as run gives the same"),
        (M, "TV.C04.insertionIndexFrom_spec", "T2: on sorted timestamps (N>=2), any first step 2^j with 2*2^j<=N: result = number of timestamps <= ts"),
        (M, "TV.C04.insertionIndex_spec", "T2 with the code's first step: countP(<= ts); for a single observation countP(< ts)"),
        (M, "TV.C04.insert_total", "insertObs(obs) on any track = the old observations in order with the new one at some position r <= N, names unchanged"),
        (M, "TV.C04.insert_sorted", "T3: insertion into a time-sorted track: permutation of new::old, still non-decreasing in time"),
        (M, "TV.C04.extract_spec", "extract(a,b) = exactly the observations a..b (both ends included), feature names carried"),
        (M, "TV.C04.extractSpanTime_spec", "extractSpanTime = exactly the observations in the closed span, bounds in either order"),
        (M, "TV.C04.concat_spec", "t1 + t2 = observations of t1 then of t2; a common feature-name table is carried"),
        (M, "TV.C04.decimateStep_spec", "track % n = sub-sequence at the positions = 0 mod n (i-th result = (i*n)-th source)"),
        (M, "TV.C04.decimatePattern_spec", "track % pattern = sub-sequence at the positions j with pattern[j mod len] true"),
        (M, "TV.C04.dropFirst_spec", "track > n = all but the first n observations"),
        (M, "TV.C04.dropLast_spec", "track < n = all but the last n observations (empty when n >= size)"),
        (M, "TV.C04.removeByIdx_spec", "removeObsList(distinct valid indices, any order) leaves exactly the other observations, returns the count"),
        (M, "TV.C04.removeByIdx_refuses_duplicates", "an index list with a repeated index removes nothing and returns 0"),
        (M, "TV.C04.sort_spec", "sort with ANY sorting permutation from argsort: same records (permutation), non-decreasing times, names unchanged"),
        (M, "TV.C04.argsort_isArgsort", "the model's argsort satisfies the sorting-permutation contract"),
        (M, "TV.C04.sortByTime_spec", "sort as run by the driver: permutation of the records, non-decreasing times"),
    ]
    partial = []
    open_statements = [
        "'without modifying the source track' cannot be stated about a purely functional model: it is checked on the real code by the oracle (the source is dumped after every operator)",
        "(int)(math.log(N)/math.log(2)) = floor(log2 N) is a float computation outside the theorems: T1/T2 hold for any first step 2^j with 2*2^j <= N; the 'ilog' stream checks the expression for every N <= 2^16 (2^21 thorough) and around every 2^k, k < 40",
        "arguments with no designated observation (negative indices / counts, index >= size, zero step, empty pattern) are modelled and compared with the code but are outside the property's oracle",
    ]
    modelled = ("Track.__getInsertionIndex (dichotomy + two fix-up loops), insertObs/insertObsInChronoOrder, sort (np.argsort = trusted call "
                "with the contract 'sorting permutation'), removeObsList/__removeObsListById/__removeObsById, extract, extractSpanTime, "
                "__add__, __mod__ (int and list), __gt__/__lt__ with an integer, __transmitAF; timestamps as integers (C03 proves the "
                "field-wise order is the epoch order)")
    trusted = ["numpy argsort on an object array: only 'returns a sorting permutation' is assumed (it is not stable for ties); "
               "CPython list.insert / del / slices / negative indices modelled as documented",
               "(int)(math.log(N)/math.log(2)) modelled as floor(log2 N); the theorems hold for any first step 2^j with 2*2^j <= N"]
    rule = ("every track of size 0..6 (0..7 thorough) over the time values {1,3,5,7} x every instant 0..8 (before / equal / between / after) for "
            "insertion and for sort; every sorted track of sizes 0..70 x every instant for the insertion index; random sorted tracks with ties of "
            "sizes 2^k, 2^k+-1 up to 1025; all index pairs -1..n / spans 0..8 (reversed, empty) / steps -2..n+2 / patterns of length <= 4 / "
            "trims -2..n+2 / index lists of length <= 3 over -1..n and all subsets, on sizes <= 6; the float expression of the first step for every N <= 2^16 (2^21 thorough). "
            "non-trivial = the track has at least 2 observations (so a loop of the operation runs)")

    # ---------------------------------------------------------------- setup / construction
    def setup(self):
        from tracklib.core.obs_time import ObsTime
        from tracklib.core.obs import Obs
        from tracklib.core import ENUCoords
        from tracklib.core.track import Track
        self.ObsTime, self.Obs, self.ENU, self.Track = ObsTime, Obs, ENUCoords, Track
        self._fields = {}

    def TS(self, v):
        f = self._fields.get(v)
        if f is None:
            t = self.ObsTime.readUnixTime(BASE + v * STEP)
            f = (t.year, t.month, t.day, t.hour, t.min, t.sec, t.ms)
            self._fields[v] = f
        return self.ObsTime(*f)

    def mk_obs(self, tag, v, names):
        o = self.Obs(self.ENU(float(tag), 2.0 * tag + 0.5, -float(tag)), self.TS(v))
        o.features = list(feats(tag, names))
        return o

    def mk(self, times, names, tag0=0):
        tr = self.Track([self.mk_obs(tag0 + i, v, names) for i, v in enumerate(times)])
        # the name table is the private dict name -> column (createAnalyticalFeature refuses an empty track)
        tr._Track__analyticalFeaturesDico = {nm: k for k, nm in enumerate(names)}
        return tr

    def dump(self, tr):
        rows = []
        for o in [tr.getObs(i) for i in range(tr.size())]:
            x, y, z = o.position.getX(), o.position.getY(), o.position.getZ()
            tag = int(x) if (x == int(x) and y == 2.0 * x + 0.5 and z == -x) else "bad-position:%r,%r,%r" % (x, y, z)
            ms = round(o.timestamp.toAbsTime() * 1000)
            d = ms - BASE * 1000
            t = d // (STEP * 1000) if d % (STEP * 1000) == 0 else "bad-time:%d" % ms
            rows.append([tag, t] + list(o.features))
        return {"pts": rows, "names": list(tr.getListAnalyticalFeatures())}

    # ---------------------------------------------------------------- generators
    def exhaustive_scopes(self, tier):
        n = 7 if tier == "thorough" else 6
        return ["insertion (without index) of every instant 0..8 into every track (sorted or not) of size 0..%d over the time values {1,3,5,7}" % n,
                "sort of every track of size 0..%d over the time values {1,3,5,7}" % n,
                "insertion index of every instant into the sorted tracks 1,3,..,2N-1 and (ties) 1,1,3,3,.. of every size N <= 70",
                "extract(a,b) for all a,b in -1..n; extractSpanTime for all bounds 0..8 x 0..8 on every track of size <= 3; "
                "% n for n in -2..n+2; % pattern for every pattern of length 0..4; > n and < n for n in -2..n+2; on sizes 0..6",
                "removeObsList for every index list of length <= 3 over -1..n (duplicates and out-of-range included) on sizes 0..5, "
                "and every subset of the indices on sizes <= 6",
                "+ for sizes 0..3 x 0..3 x equal / different / missing feature tables"]

    def cases(self, rng, tier):
        out = []
        nmax = 7 if tier == "thorough" else 6
        F = ["f"]
        # ---- insertion and sort: all tracks over 4 time values
        for n in range(0, nmax + 1):
            for times in itertools.product(V4, repeat=n):
                times = list(times)
                for ts in range(0, 9):
                    out.append({"kind": "insert", "times": times, "names": F, "ts": ts})
                out.append({"kind": "sort", "times": times, "names": F})
        # ---- insertion index, every size up to 70, every instant
        for n in range(0, 71):
            out.append({"kind": "index", "times": [2 * i + 1 for i in range(n)], "tss": list(range(0, 2 * n + 2))})
            out.append({"kind": "index", "times": [2 * (i // 2) + 1 for i in range(n)], "tss": list(range(0, n + 3))})
            out.append({"kind": "index", "times": [5] * n, "tss": [4, 5, 6]})
        # ---- random sorted tracks with ties around the powers of two
        reps = 2 if tier == "quick" else 12
        for k in range(1, 11):
            for n in (2 ** k - 1, 2 ** k, 2 ** k + 1):
                for _ in range(reps):
                    spread = rng.choice([2, max(2, n // 4), n, 3 * n])
                    times = sorted(2 * rng.randrange(spread) + 1 for _ in range(n))
                    pool = [times[0] - 1, times[0], times[-1], times[-1] + 1, times[n // 2], times[n // 2] - 1, times[n // 2] + 1]
                    tss = pool + [rng.randrange(0, 2 * spread + 2) for _ in range(12)]
                    out.append({"kind": "index", "times": times, "tss": tss})
                    out.append({"kind": "insert", "times": times, "names": F, "ts": rng.choice(tss)})
                # unsorted tracks: nothing is promised, but the code must behave as the model says (no index error)
                times = [rng.randrange(8) for _ in range(n)]
                out.append({"kind": "index", "times": times, "tss": [rng.randrange(-1, 9) for _ in range(8)]})
                # sort with many ties (numpy's introsort is not stable beyond 16 elements)
                for _ in range(reps):
                    out.append({"kind": "sort", "times": [rng.randrange(rng.choice([2, 4, n + 1])) for _ in range(n)], "names": rng.choice([[], F, ["f", "g"]])})
        # ---- the float expression of the first step, (int)(math.log(N)/math.log(2)), against the model's floor(log2 N)
        top = 2 ** 16 if tier == "quick" else 2 ** 21
        for lo in range(1, top + 2, 4096):
            out.append({"kind": "ilog", "times": [], "lo": lo, "hi": min(lo + 4096, top + 2)})
        for k in range(17 if tier == "quick" else 22, 40):
            out.append({"kind": "ilog", "times": [], "lo": 2 ** k - 2, "hi": 2 ** k + 3})
        # ---- slicing operators on sizes 0..6
        for n in range(0, 7):
            tvs = [list(range(1, 2 * n + 1, 2)), [rng.choice(V4) for _ in range(n)]]
            for times in tvs:
                names = rng.choice([[], F, ["f", "g"]])
                for a in range(-1, n + 1):
                    for b in range(-1, n + 1):
                        out.append({"kind": "extract", "times": times, "names": names, "a": a, "b": b})
                for k in range(-2, n + 3):
                    out.append({"kind": "step", "times": times, "names": names, "n": k})
                    out.append({"kind": "gt", "times": times, "names": names, "n": k})
                    out.append({"kind": "lt", "times": times, "names": names, "n": k})
                for L in range(0, 5):
                    for pat in itertools.product([0, 1], repeat=L):
                        out.append({"kind": "pattern", "times": times, "names": names, "pat": list(pat)})
                for sub in range(1 << n):
                    idx = [i for i in range(n) if sub >> i & 1]
                    rng.shuffle(idx)
                    out.append({"kind": "remove", "times": times, "names": names, "idx": idx})
            if n <= 5:
                for L in range(0, 4):
                    for idx in itertools.product(range(-1, n + 1), repeat=L):
                        out.append({"kind": "remove", "times": tvs[0], "names": F, "idx": list(idx)})
        for n in range(0, 4):
            for times in itertools.product(V4, repeat=n):
                for t1 in range(0, 9):
                    for t2 in range(0, 9):
                        out.append({"kind": "span", "times": list(times), "names": F, "t1": t1, "t2": t2})
        for _ in range(300 if tier == "quick" else 3000):
            n = rng.randrange(4, 8)
            out.append({"kind": "span", "times": [rng.choice(V4) for _ in range(n)], "names": rng.choice([[], F]), "t1": rng.randrange(9), "t2": rng.randrange(9)})
        for n1 in range(0, 4):
            for n2 in range(0, 4):
                for nm1, nm2 in ((F, F), (F, ["g"]), (F, []), ([], F), ([], []), (["f", "g"], ["f", "g"]), (["f", "g"], ["g", "f"]), (["f", "g"], ["f"])):
                    out.append({"kind": "concat", "times": [rng.choice(V4) for _ in range(n1)], "names": nm1,
                                "times2": [rng.choice(V4) for _ in range(n2)], "names2": nm2})
        # ---- random larger instances of the slicing operators
        for _ in range(400 if tier == "quick" else 4000):
            n = rng.choice([rng.randrange(7, 40), 2 ** rng.randrange(3, 7), 2 ** rng.randrange(3, 7) + 1])
            times = [rng.randrange(12) for _ in range(n)]
            names = rng.choice([[], F, ["f", "g"]])
            k = rng.choice(["extract", "step", "gt", "lt", "pattern", "remove", "span"])
            c = {"kind": k, "times": times, "names": names}
            if k == "extract":
                c["a"], c["b"] = rng.randrange(0, n), rng.randrange(0, n)
            elif k in ("step", "gt", "lt"):
                c["n"] = rng.randrange(0, n + 3)
            elif k == "pattern":
                c["pat"] = [rng.randrange(2) for _ in range(rng.randrange(1, 7))]
            elif k == "remove":
                c["idx"] = rng.sample(range(n), rng.randrange(0, n + 1))
            else:
                c["t1"], c["t2"] = rng.randrange(-1, 13), rng.randrange(-1, 13)
            out.append(c)
        return out

    def describe(self, case):
        t = {"kind": case["kind"]}
        n = len(case["times"])
        t["size"] = n if n <= 8 else ("2^k" if n & (n - 1) == 0 else "2^k-1" if (n + 1) & n == 0 else "2^k+1" if (n - 1) & (n - 2) == 0 else ">8")
        if case["kind"] in ("insert", "sort"):
            t["sorted"] = nondecreasing(case["times"])
            t["ties"] = len(set(case["times"])) < n
        if case["kind"] == "insert" and n:
            ts, tm = case["ts"], case["times"]
            t["instant"] = "before" if ts < min(tm) else "after" if ts > max(tm) else "equal" if ts in tm else "between"
        return t

    def nontrivial(self, case):
        return len(case["times"]) >= 2 or case["kind"] == "ilog"

    # ---------------------------------------------------------------- implementation
    def impl(self, case):
        k = case["kind"]
        names = case.get("names", [])
        if k == "ilog":
            # the expression of Track.__getInsertionIndex, evaluated by the same CPython / libm (trusted-contract check)
            return {"j": [(int)(math.log(N) / math.log(2)) for N in range(case["lo"], case["hi"])]}
        tr = self.mk(case["times"], names)
        if k == "index":
            res = []
            for ts in case["tss"]:
                try:
                    res.append(int(tr._Track__getInsertionIndex(self.TS(ts))))
                except BaseException as e:
                    res.append(err_kind(e))
            return {"ids": res, "src": self.dump(tr)}
        out = {}
        try:
            if k == "insert":
                tr.insertObs(self.mk_obs(NEW_TAG, case["ts"], names))
            elif k == "sort":
                tr.sort()
            elif k == "remove":
                out["ret"] = tr.removeObsList(list(case["idx"]))
            elif k == "extract":
                out["out"] = self.dump(tr.extract(case["a"], case["b"]))
            elif k == "span":
                out["out"] = self.dump(tr.extractSpanTime(self.TS(case["t1"]), self.TS(case["t2"])))
            elif k == "concat":
                tr2 = self.mk(case["times2"], case["names2"], tag0=50)
                out["out"] = self.dump(tr + tr2)
                out["src2"] = self.dump(tr2)
            elif k == "step":
                out["out"] = self.dump(tr % case["n"])
            elif k == "pattern":
                out["out"] = self.dump(tr % [bool(b) for b in case["pat"]])
            elif k == "gt":
                out["out"] = self.dump(tr > case["n"])
            elif k == "lt":
                out["out"] = self.dump(tr < case["n"])
            else:
                raise ValueError(k)
        except BaseException as e:
            if isinstance(e, KeyboardInterrupt):
                raise
            out = {"err": err_kind(e)}
        out["src"] = self.dump(tr)     # the track itself afterwards (in-place operations: the result)
        return out

    # ---------------------------------------------------------------- model
    @staticmethod
    def tok_pts(rows):
        return ",".join(":".join(str(x) for x in r) for r in rows) if rows else "_"

    @staticmethod
    def tok_names(names):
        return ",".join(names) if names else "_"

    @staticmethod
    def untrack(p, n):
        pts = [] if p == "_" else [[int(x) for x in o.split(":")] for o in p.split(",")]
        return {"pts": pts, "names": [] if n == "_" else n.split(",")}

    def requests(self, case):
        k = case["kind"]
        names = case.get("names", [])
        p = self.tok_pts(obs_rows(case["times"], names))
        nm = self.tok_names(names)
        if k == "ilog":
            return ["C04.ilog2 %d %d" % (case["lo"], case["hi"])]
        if k == "index":
            T = ",".join(map(str, case["times"])) if case["times"] else "_"
            return ["C04.index %s %d" % (T, ts) for ts in case["tss"]]
        if k == "insert":
            return ["C04.insert %s %s %s" % (p, nm, ":".join(map(str, [NEW_TAG, case["ts"]] + feats(NEW_TAG, names))))]
        if k == "sort":
            return ["C04.sort %s %s" % (p, nm)]
        if k == "remove":
            return ["C04.remove %s %s" % (p, ",".join(map(str, case["idx"])) if case["idx"] else "_")]
        if k == "extract":
            return ["C04.extract %s %s %d %d" % (p, nm, case["a"], case["b"])]
        if k == "span":
            return ["C04.span %s %s %d %d" % (p, nm, case["t1"], case["t2"])]
        if k == "concat":
            p2 = self.tok_pts(obs_rows(case["times2"], case["names2"], 50))
            return ["C04.concat %s %s %s %s" % (p, nm, p2, self.tok_names(case["names2"]))]
        if k == "step":
            return ["C04.step %s %s %d" % (p, nm, case["n"])]
        if k == "pattern":
            return ["C04.pattern %s %s %s" % (p, nm, "".join(map(str, case["pat"])) if case["pat"] else "_")]
        if k in ("gt", "lt"):
            return ["C04.%s %s %s %d" % (k, p, nm, case["n"])]
        raise ValueError(k)

    def decode(self, case, replies):
        k = case["kind"]
        names = case.get("names", [])
        src = {"pts": obs_rows(case["times"], names), "names": list(names)}
        if k == "ilog":
            return {"j": [int(x) for x in replies[0].split(",")]}
        if k == "index":
            ids = []
            for r in replies:
                if r.startswith("ok "):
                    ids.append(int(r[3:]))
                elif r.startswith("err:"):
                    ids.append(r)
                else:
                    raise ValueError(r)       # `fuel` / bad-request: never a default value
            return {"ids": ids, "src": src}
        r = replies[0]
        if r == "bad-request" or r == "fuel":
            raise ValueError(r)
        if k in ("insert", "sort"):
            if r.startswith("err:"):
                return {"err": r, "src": src}
            return {"src": self.untrack(*r.split(" "))}
        if k == "remove":
            p, ret = r.split(" ")
            after = {"pts": self.untrack(p, "_")["pts"], "names": list(names)}
            if ret.startswith("err:"):
                return {"err": ret, "src": after}
            return {"ret": int(ret), "src": after}
        if r.startswith("err:"):
            return {"err": r, "src": src}
        out = {"out": self.untrack(*r.split(" ")), "src": src}
        if k == "concat":
            out["src2"] = {"pts": obs_rows(case["times2"], case["names2"], 50), "names": list(case["names2"])}
        return out

    def compare(self, case, impl_out, model_out):
        if impl_out == model_out:
            return None
        k = case["kind"]
        # freedom left by the property: the place of the new observation among EQUAL timestamps, the order of equal
        # timestamps after sort -> the implementation's answer is validated by the spec, not required to equal the model's
        if k == "sort" and "err" not in impl_out and len(set(case["times"])) < len(case["times"]):
            if self.spec(case, impl_out) is None:
                return None
        if k == "insert" and "err" not in impl_out and nondecreasing(case["times"]) and case["ts"] in case["times"]:
            if self.spec(case, impl_out) is None:
                return None
        if k == "index" and nondecreasing(case["times"]) and impl_out.get("src") == model_out.get("src"):
            bad = [i for i, (a, b) in enumerate(zip(impl_out["ids"], model_out["ids"])) if a != b and case["tss"][i] not in case["times"]]
            if not bad and self.spec(case, impl_out) is None:
                return None
        return "impl=%s model=%s" % (str(impl_out)[:300], str(model_out)[:300])

    # ---------------------------------------------------------------- oracle (transfer)
    def spec(self, case, out):
        k = case["kind"]
        if k == "ilog":
            if "err" in out:
                return "log expression raised %s" % out["err"]
            for N, j in zip(range(case["lo"], case["hi"]), out["j"]):
                if N >= 2 and not (j >= 1 and 2 ** j <= N):
                    return "(int)(log(%d)/log(2)) = %d: the first step 2^(j-1) does not satisfy 2*2^(j-1) <= N" % (N, j)
            return None
        names = list(case.get("names", []))
        rows = obs_rows(case["times"], names)
        n = len(rows)
        src = out.get("src")
        inplace = k in ("insert", "sort", "remove")
        if src is None:
            return "raised %s" % out.get("err")
        if src["names"] != names:
            return "feature-name table of the track changed from %s to %s" % (names, src["names"])
        if not inplace and src["pts"] != rows:
            return "the source track was modified: %s became %s" % (rows, src["pts"])
        if k == "index":
            for ts, r in zip(case["tss"], out["ids"]):
                if not isinstance(r, int):
                    return "__getInsertionIndex(%d) on times %s raised %s" % (ts, case["times"], r)
                if not 0 <= r <= n:
                    return "__getInsertionIndex(%d) on %d observations returned %d" % (ts, n, r)
                if nondecreasing(case["times"]):
                    lo = sum(1 for t in case["times"] if t < ts)
                    hi = sum(1 for t in case["times"] if t <= ts)
                    if not lo <= r <= hi:
                        return "__getInsertionIndex(%d) on sorted times %s returned %d, a sorted insertion needs %d..%d" % (ts, case["times"], r, lo, hi)
            return None
        if k == "insert":
            if "err" in out:
                return "insertObs(t=%d) on times %s raised %s" % (case["ts"], case["times"], out["err"])
            new = [NEW_TAG, case["ts"]] + feats(NEW_TAG, names)
            got = src["pts"]
            if got.count(new) != 1 or [r for r in got if r != new] != rows or len(got) != n + 1:
                return "insertObs(t=%d) on %s gives %s: not the old observations in order plus the new one" % (case["ts"], rows, got)
            if nondecreasing(case["times"]) and not nondecreasing([r[1] for r in got]):
                return "insertObs(t=%d) into the sorted track %s gives the unsorted times %s" % (case["ts"], case["times"], [r[1] for r in got])
            return None
        if k == "sort":
            if "err" in out:
                return "sort raised %s" % out["err"]
            got = src["pts"]
            if sorted(got) != sorted(rows):
                return "sort of %s gives %s: not the same observations" % (rows, got)
            if not nondecreasing([r[1] for r in got]):
                return "sort of times %s gives %s" % (case["times"], [r[1] for r in got])
            return None
        if k == "remove":
            idx = case["idx"]
            got = src["pts"]
            if any(not 0 <= i < n for i in idx):
                # outside the property's scope (no such observation): only require that nothing is corrupted
                return None if is_subsequence(got, rows) else "removeObsList(%s) on %s leaves %s" % (idx, rows, got)
            if "err" in out:
                return "removeObsList(%s) on %d observations raised %s" % (idx, n, out["err"])
            want = [r for i, r in enumerate(rows) if i not in idx]
            if len(set(idx)) < len(idx):
                # a repeated index is refused by the code (nothing removed, 0 returned); removing the designated ones is fine too
                if (got == rows and out.get("ret") == 0) or got == want:
                    return None
                return "removeObsList(%s) on %s leaves %s" % (idx, rows, got)
            if got != want:
                return "removeObsList(%s) on %s leaves %s, the other observations are %s" % (idx, rows, got, want)
            if out.get("ret") != len(idx):
                return "removeObsList(%s) returned %s" % (idx, out.get("ret"))
            return None
        # ---- operators returning a new track
        want = None
        if k == "extract":
            a, b = case["a"], case["b"]
            if 0 <= a and b < n:
                want = rows[a:b + 1] if a <= b else []
            what = "extract(%d,%d)" % (a, b)
        elif k == "span":
            lo, hi = min(case["t1"], case["t2"]), max(case["t1"], case["t2"])
            want = [r for r in rows if lo <= r[1] <= hi]
            what = "extractSpanTime(%d,%d)" % (case["t1"], case["t2"])
        elif k == "concat":
            rows2 = obs_rows(case["times2"], case["names2"], 50)
            want = rows + rows2
            what = "+"
            s2 = out.get("src2")
            if s2 is not None and (s2["pts"] != rows2 or s2["names"] != list(case["names2"])):
                return "+ modified its right operand: %s" % s2
        elif k == "step":
            if case["n"] >= 1:
                want = [r for i, r in enumerate(rows) if i % case["n"] == 0]
            what = "%% %d" % case["n"]
        elif k == "pattern":
            pat = case["pat"]
            if pat:
                want = [r for i, r in enumerate(rows) if pat[i % len(pat)]]
            elif n == 0:
                want = []
            what = "%% %s" % pat
        elif k == "gt":
            if case["n"] >= 0:
                want = rows[case["n"]:]
            what = "> %d" % case["n"]
        elif k == "lt":
            if case["n"] >= 0:
                want = rows[:max(0, n - case["n"])]
            what = "< %d" % case["n"]
        if want is None:
            return None               # argument outside the property's scope (negative count, index of no observation, zero step)
        if "err" in out:
            return "%s on %d observations raised %s" % (what, n, out["err"])
        got = out["out"]
        if got["pts"] != want:
            return "%s on %s returns %s, designated: %s" % (what, rows, got["pts"], want)
        if k == "concat" and names != list(case["names2"]):
            return None               # different feature tables: which table the sum carries is not specified
        if got["names"] != names:
            return "%s returns the feature-name table %s instead of %s" % (what, got["names"], names)
        return None

    # ---------------------------------------------------------------- shrinking / search
    def shrink(self, case):
        if case["kind"] == "ilog":
            if case["hi"] - case["lo"] > 1:
                mid = (case["lo"] + case["hi"]) // 2
                yield dict(case, hi=mid)
                yield dict(case, lo=mid)
            return
        times = case["times"]
        n = len(times)
        k = case["kind"]
        if k == "index" and len(case["tss"]) > 1:
            for ts in case["tss"]:
                yield dict(case, tss=[ts])
        for i in range(n):
            c = dict(case, times=times[:i] + times[i + 1:])
            if k == "remove":
                c["idx"] = [j - (j > i) for j in case["idx"] if j != i]
            if k == "extract":
                c["a"] = case["a"] - (case["a"] > i)
                c["b"] = case["b"] - (case["b"] >= i and case["b"] > 0)
            yield c
        if k == "remove":
            for i in range(len(case["idx"])):
                yield dict(case, idx=case["idx"][:i] + case["idx"][i + 1:])
        if k == "pattern" and len(case["pat"]) > 1:
            for i in range(len(case["pat"])):
                yield dict(case, pat=case["pat"][:i] + case["pat"][i + 1:])
        if k in ("step", "gt", "lt") and case["n"] > 1:
            yield dict(case, n=case["n"] - 1)
        if case.get("names"):
            yield dict(case, names=[], **({"names2": []} if k == "concat" else {}))
        vals = sorted(set(times))
        if vals and vals != list(range(1, 2 * len(vals), 2)):
            m = {v: 2 * i + 1 for i, v in enumerate(vals)}   # compress the time values, keeping room for 'between'
            c = dict(case, times=[m[v] for v in times])
            if k in ("insert", "index", "span"):
                def sq(ts):
                    below = [v for v in vals if v <= ts]
                    return 0 if not below else (m[below[-1]] if below[-1] == ts else m[below[-1]] + 1)
                if k == "insert":
                    c["ts"] = sq(case["ts"])
                elif k == "index":
                    c["tss"] = [sq(t) for t in case["tss"]]
                else:
                    c["t1"], c["t2"] = sq(case["t1"]), sq(case["t2"])
            yield c

    def mutate(self, case, rng):
        k = case["kind"]
        times = case["times"]
        if k in ("insert", "index"):
            st = sorted(times)
            tss = sorted(set([t + d for t in st for d in (-1, 0, 1)] + [0]))
            yield {"kind": "index", "times": st, "tss": tss}
            for ts in tss[:40]:
                yield {"kind": "insert", "times": st, "names": ["f"], "ts": ts}
        if k == "sort":
            for _ in range(20):
                t = list(times)
                rng.shuffle(t)
                yield dict(case, times=t)
        if k in ("step", "gt", "lt"):
            for d in range(0, len(times) + 3):
                yield dict(case, n=d)
        if k == "extract":
            for a in range(len(times)):
                for b in range(len(times)):
                    yield dict(case, a=a, b=b)
