"""C04 — sequence operations on a track select exactly the designated observations (tracklib/core/track.py)."""
import itertools, math
from engine import Prop, err_kind

BASE = 946684800 + 12345      # 2000-01-01 03:25:45
STEP = 3607                   # one time unit = 3607 s (crosses minutes, hours and days)
NEW_TAG = 100000            # tag of the inserted observation (never the tag of an existing one)
V4 = [1, 3, 5, 7]             # the four timestamp values of the enumerated scopes (instants 0..8 around them)


def feats(tag, names):
    return [10 * tag + k for k in range(len(names))]


def obs_rows(times, names, tag0=0):
    """what the observations of the track built from `times` must look like: [tag, time, feat...]"""
    return [[tag0 + i, t] + feats(tag0 + i, names) for i, t in enumerate(times)]


def nondecreasing(ts):
    return all(ts[i] <= ts[i + 1] for i in range(len(ts) - 1))


def is_subsequence(a, b):
    it = iter(b)
    return all(any(x == y for y in it) for x in a)


# ---- sessions (operators applied in sequence to a pool of tracks)
NAMES = ["f", "g", "h"]          # the feature names of the sessions


def s_tag(k, i):
    """tag of observation i of the k-th initial track of a session"""
    return 100 * k + i


def s_val(tag, nm, gen=0):
    """the value observation `tag` holds for feature `nm` (gen = how many features its track had created before)"""
    return tag * 100 + NAMES.index(nm) * 10 + gen


def s_layout(hist):
    """names (in column order) and generation of each after a creation / removal history"""
    names, gen, n = [], {}, 0
    for a, nm in hist:
        if a == "c":
            if nm not in names:
                names.append(nm)
                gen[nm] = n
            n += 1
        elif nm in names:
            names.remove(nm)
    return names, gen


NEW_OPS = ("extract", "span", "spantrack", "add", "step", "pattern", "gt", "lt", "slice")   # return a new track
INPLACE_OPS = ("sort", "insert", "insertat", "addobs", "remove", "removeobs", "removefirst", "removelast", "pop")
READ_OPS = ("get", "read", "column")
LATE, LATE_VAL = "w", 7          # a feature created on ONE track after the operators (last operation of a session), same value everywhere


def reads_from_raw(pts, names, cols):
    """what every observation reads under every listed name, from the raw feature lists and the column indices"""
    out = {}
    for nm, c in zip(names, cols):
        out[nm] = [r[2 + c] if 2 + c < len(r) else "I" for r in pts]
    return out


class P(Prop):
    id = "C04"
    design_ref = "DESIGN.md section 5, C04 and appendix A.5"
    M = "TracklibVerif.Props.C04"
    MS = "TracklibVerif.Props.C04Slice"
    MM = "TracklibVerif.Props.C04More"
    theorems = [
        (M, "TV.C04.dichotomy_in_range", "T1: for any timestamps and any first step 2^j with 2*2^j <= N the search loop, run with an access that fails on every index outside 0..N-1, ends within fuel j+N+3 at an index 0..N-1"),
        (M, "TV.C04.insertionIndex_no_index_error", "T1 whole function: on every list __getInsertionIndex returns an index 0..N without reading outside 0..N-1 (no IndexError, no negative wrap); the model as run gives the same"),
        (M, "TV.C04.insertionIndexFrom_spec", "T2: on sorted timestamps (N>=2), any first step 2^j with 2*2^j<=N: result = number of timestamps <= ts"),
        (M, "TV.C04.insertionIndex_spec", "T2 with the code's first step: countP(<= ts); for a single observation countP(< ts)"),
        (M, "TV.C04.insert_total", "insertObs(obs) on any track = the old observations in order with the new one at some position r <= N, feature table unchanged"),
        (M, "TV.C04.insert_sorted", "T3: insertion into a time-sorted track: permutation of new::old, still non-decreasing in time"),
        (M, "TV.C04.extract_spec", "extract(a,b) = exactly the observations a..b (both ends included), feature table (names and columns) carried"),
        (M, "TV.C04.extractSpanTime_spec", "extractSpanTime = exactly the observations in the closed span, bounds in either order"),
        (M, "TV.C04.concat_spec", "t1 + t2 = observations of t1 then of t2; its table is t1's when the two lists of NAMES are equal position by position, the empty table otherwise"),
        (M, "TV.C04.decimateStep_spec", "track % n = sub-sequence at the positions = 0 mod n (i-th result = (i*n)-th source)"),
        (M, "TV.C04.decimatePattern_spec", "track % pattern = sub-sequence at the positions j with pattern[j mod len] true"),
        (M, "TV.C04.dropFirst_spec", "track > n = all but the first n observations"),
        (M, "TV.C04.dropLast_spec", "track < n = all but the last n observations (empty when n >= size)"),
        (M, "TV.C04.removeByIdx_spec", "removeObsList(distinct valid indices, any order) leaves exactly the other observations, returns the count"),
        (M, "TV.C04.removeByIdx_refuses_duplicates", "an index list with a repeated index removes nothing and returns 0"),
        (M, "TV.C04.sort_spec", "sort with ANY sorting permutation from argsort: same records (permutation), non-decreasing times, feature table unchanged"),
        (M, "TV.C04.argsort_isArgsort", "the model's argsort satisfies the sorting-permutation contract"),
        (M, "TV.C04.sortByTime_spec", "sort as run by the driver: permutation of the records, non-decreasing times"),
        # ---- the feature table (names -> columns) is carried over: reads by name
        (M, "TV.C04.extract_carries", "extract(a,b), any integers: the result has the source's table (names and columns), each of its observations is one of the source and reads under every name what it read there"),
        (M, "TV.C04.extractSpanTime_carries", "extractSpanTime: same (Carries)"),
        (M, "TV.C04.extractSpanTrack_spec", "extractSpanTime(track) = the span of the other track's first and last timestamps"),
        (M, "TV.C04.extractSpanTrack_carries", "extractSpanTime(track): Carries"),
        (M, "TV.C04.decimateStep_carries", "track % n (any n != 0): Carries"),
        (M, "TV.C04.decimatePattern_carries", "track % pattern: Carries"),
        (M, "TV.C04.dropFirst_carries", "track > n (any integer): Carries"),
        (M, "TV.C04.dropLast_carries", "track < n (any integer): Carries"),
        (M, "TV.C04.getitemSlice_carries", "track[a:b:c] (any slice): Carries"),
        (M, "TV.C04.sort_carries", "sort() with any permutation from argsort: table unchanged, every observation reads as before"),
        (M, "TV.C04.removeObsList_carries", "removeObsList / removeObs / removeFirstObs / removeLastObs / popObs, any index list: table unchanged, the remaining observations read as before"),
        (M, "TV.C04.insert_carries", "insertObs(obs) / insertObs(obs,i) / addObs(obs): table unchanged, old observations read as before, the new one reads its own value list through the table"),
        (M, "TV.C04.table_wellformed", "the empty table is well-formed (distinct names, column = rank); createAnalyticalFeature and removeAnalyticalFeature keep a table well-formed"),
        (M, "TV.C04.concat_carries", "t1 + t2 with equal name lists and well-formed tables: the sum has that table and EVERY observation, those of t2 too, reads under every name what it read in its own track"),
        (M, "TV.C04.concat_names_differ", "t1 + t2 with different name lists (other set, other order, one side without features): the sum lists no feature, every read by name is an AnalyticalFeatureError"),
        (M, "TV.C04.applyOp_good", "one operation of a session (any operator of the statement, on any tracks of the pool) keeps every track of the pool 'good': well-formed table, every observation reads its OWN value under every listed name"),
        (M, "TV.C04.finalPool_good", "operators applied in sequence (results fed to the next operator): every track of the pool is good at the end"),
        (M, "TV.C04.good_readAF", "on a good track, track[name, i] is the own value of the i-th observation"),
        # ---- the other entry points
        (M, "TV.C04.addObs_spec", "addObs appends"),
        (M, "TV.C04.insertAt_spec", "insertObs(obs, i), 0 <= i <= size: the observation is at position i, the others in order around it"),
        (M, "TV.C04.removeObs_spec", "removeObs(i), valid i: exactly that observation is removed, 1 returned"),
        (M, "TV.C04.removeFirst_spec", "removeFirstObs on a non-empty track: all but the first, 1 returned"),
        (M, "TV.C04.removeLast_spec", "removeLastObs on a non-empty track: all but the last, 1 returned"),
        (M, "TV.C04.popObs_spec", "popObs(i), valid i: returns the i-th observation and removes exactly it"),
        (M, "TV.C04.getitemInt_spec", "track[i] = the i-th observation; track[-(i+1)] = the (size-1-i)-th"),
        (M, "TV.C04.getitemSlice_spec", "track[a:b:c], c >= 1: the positions s, s+c, ... < e with s, e the bounds clamped as Python does (= (track[a:b]) % c), table carried"),
        (M, "TV.C04.getitemSlice_simple", "track[a:b], 0 <= a, b: the positions a <= j < b"),
        (M, "TV.C04.sortRadix_spec", "sortRadix (year buckets ymin..ymax of the track, fix b323645) with the five lower digits inside their buckets and ANY years: no IndexError, a permutation, ordered lexicographically by (year, month, day, hour, min, sec*1000+ms), stable; empty track included"),
        (M, "TV.C04.sortRadix_sorted", "sortRadix: if the lexicographic order of the fields implies the order of the timestamps, the result is non-decreasing in time and a permutation of the records"),
        (M, "TV.C04.lex_stamps", "for two well-formed timestamps (C03's WFs) the lexicographic order of the digits sortRadix reads is the order of the epoch instants (through C03's ltS_iff)"),
        (M, "TV.C04.sortRadix_stamps", "for EVERY track of well-formed timestamps (C03's WFs, no bound on the year) sortRadix is a stable sort by time: no exception, a permutation, non-decreasing epoch milliseconds, equal instants keep their order"),
        # ---- slices with a negative step; the boundary of the oracle's domain (Props/C04Slice.lean)
        (MS, "TV.C04.getitemSlice_neg_spec", "track[a:b:c], c <= -1, EVERY a, b (absent / negative / beyond the ends): with (s, e) the bounds as slice.indices adjusts them (absent start = size-1, absent stop = -1, x >= 0 -> min(x, size-1), x < 0 -> max(x+size, -1)) the result is exactly the observations at s, s-|c|, s-2|c|, ... > e in this reversed order (= every |c|-th of reversed(track[e+1:s+1])), table carried"),
        (MS, "TV.C04.getitemSlice_reversed", "track[::-1] = all the observations, last first, table carried"),
        (MS, "TV.C04.decimateStep_neg_spec", "track % (-d) = track[::-d]: the observations at size-1, size-1-d, ..., last first"),
        (MS, "TV.C04.getitemSlice_raises_iff", "track[a:b:c] raises (ValueError) exactly when c = 0"),
        (MS, "TV.C04.decimateStep_raises_iff", "track % n raises (ValueError) exactly when n = 0"),
        (MS, "TV.C04.decimatePattern_raises_iff", "track % pattern raises (ZeroDivisionError) exactly for the empty pattern on a non-empty track; on the empty track the result is the empty track with the table"),
        (MS, "TV.C04.extract_total", "extract(a,b), EVERY integers: IndexError exactly when a <= b and (a < -size or b >= size); otherwise b+1-a observations, the i-th being track[a+i] with Python indexing (a negative a wraps around the end), table carried"),
        (MS, "TV.C04.dropFirst_neg", "track > -k keeps the LAST k observations (all when k >= size); never raises"),
        (MS, "TV.C04.dropLast_neg", "track < n with n <= 0 returns all the observations; never raises"),
        (MS, "TV.C04.getitemInt_raises_iff", "track[i] raises IndexError exactly when i >= size or i < -size"),
        (MS, "TV.C04.removeObs_total", "removeObs(i): -size <= i < 0 removes the observation size+i (1 returned); i >= size or i < -size raises IndexError and removes nothing"),
        (MS, "TV.C04.removeEnds_empty", "removeFirstObs / removeLastObs on the empty track raise IndexError"),
        (MS, "TV.C04.popObs_total", "popObs(i) outside -size..size-1 raises IndexError and removes nothing; -size <= i < 0 returns and removes the observation size+i"),
        (MS, "TV.C04.insertAt_total", "insertObs(obs, i), EVERY integer i: never raises, the observation goes to the position i clamped as list.insert does (i > size -> size, i < 0 -> max(0, size+i)), the others keep their order"),
        (MS, "TV.C04.removeByIdx_index_error", "removeObsList(distinct indices whose largest is >= size): IndexError at the first deletion, nothing removed"),
        (MS, "TV.C04.delLoop_partial", "the deletion loop of removeObsList on ANY integers (negative, out of range): the first k indices were deleted (a negative one counting from the CURRENT end), one observation each; what is left is that sub-sequence ALSO when IndexError is raised; returns (counter + k) iff k = len, otherwise raises at the k-th index, out of range for the list left"),
        (MS, "TV.C04.removeByIdx_partial", "removeObsList(ANY list of integers): nothing removed and 0 returned (empty list / repeated index), or the loop runs over the indices in decreasing order d and the first k are deleted: returns k = len(tab), or raises IndexError at d[k] with these k deletions done (they stay done)"),
        (MS, "TV.C04.removeByIdx_sublist_any", "removeObsList(ANY list of integers), returning or raising: what is left is a SUB-SEQUENCE of the source (order kept, nothing duplicated or invented); when it returns n, exactly n observations are gone and n is 0 (refused) or len(tab)"),
        (MS, "TV.C04.extractSpanTrack_empty", "extractSpanTime(empty track) raises IndexError"),
        # ---- the remaining list operations (Model/SeqMore.lean, Props/C04More.lean)
        (MM, "TV.C04.reverse_spec", "reverse() = all the observations, last first, with the source's table (= track[::-1]); every observation reads what it read in the source"),
        (MM, "TV.C04.reverse_reverse", "reversing twice gives the track back"),
        (MM, "TV.C04.makeOdd_makeEven_spec", "makeOdd: IndexError exactly on the empty track, otherwise a prefix of odd size (the last observation dropped iff the size was even); makeEven never raises: a prefix of even size"),
        (MM, "TV.C04.setObs_spec", "setObs(i, obs) / track[i] = obs: a valid i (negative from the end) replaces exactly that position, every other position and the size unchanged; IndexError exactly when i >= size or i < -size"),
        (MM, "TV.C04.firstLast_spec", "getFirstObs / getLastObs = first / last observation; IndexError on the empty track"),
        (MM, "TV.C04.splitEven_spec", "track / number (number >= 1, N = size div number): number segments, the i-th exactly the observations i*N .. i*N+N-1 with the source's table (Carries); together the first number*N observations; the last size mod number observations are in no segment"),
        (MM, "TV.C04.splitEven_boundary", "track / 0 raises ZeroDivisionError; a negative number gives no segment"),
        (MM, "TV.C04.removeByTimes_spec", "removeObsList(timestamps): what is left is a sub-sequence of the old observations, the number returned is the number removed; with distinct listed timestamps on a track of distinct timestamps exactly the observations whose timestamp is not listed are left"),
        (MM, "TV.C04.removeByTimes_refuses_duplicates", "removeObsList with a repeated timestamp removes nothing and returns 0"),
    ]
    partial = []
    open_statements = [
        "'without modifying the source track' cannot be stated about a purely functional model (observations are values, tracks share none): it is checked on the real code by the oracle — every track of the pool is dumped after every operation of a session, and a feature created afterwards on one track must not appear in another's table",
        "sortRadix on a timestamp with a non-integer ms (TypeError) is outside the model",
        "CPython's slice.indices (PySlice_AdjustIndices) is a modelled contract (sliceBounds / sliceLen): getitemSlice_spec / getitemSlice_neg_spec are about the model's adjustment; the 'sliceidx' stream compares it with slice(a,b,c).indices(n) and len(range(...)) for every a, b in None, -n-3..n+3, 9 steps, n <= 8, and on random lengths up to 2^39",
        "(int)(size / number) in track / number is a float division: modelled as the integer quotient (exact below 2^53)",
        "(int)(math.log(N)/math.log(2)) = floor(log2 N) is a float computation outside the theorems: T1/T2 hold for any first step 2^j with 2*2^j <= N; the 'ilog' stream checks the expression for every N <= 2^16 (2^21 thorough) and around every 2^k, k < 40",
        "arguments with no designated observation (negative indices / counts, index >= size, zero step, empty pattern) stay outside the property's ORACLE; what the code does there is now proved of the model operator by operator (Props/C04Slice.lean: which arguments raise, which clamped / wrapped selection the others make). removeObsList with a NEGATIVE or out-of-range index in a list of several is now a theorem too (delLoop_partial / removeByIdx_partial: the deletions done before the IndexError stay done, negative indices count from the current end). Still only modelled and compared, without a theorem: a track holding the same observation twice",
    ]
    modelled = ("Track.__getInsertionIndex (dichotomy + two fix-up loops), insertObs (with and without index) / insertObsInChronoOrder / addObs, "
                "sort (np.argsort = trusted call with the contract 'sorting permutation'), sortRadix (the five fixed bucket passes and the year pass over min..max year of the track, on positions), "
                "removeObsList/__removeObsListById/__removeObsById, removeObs / removeFirstObs / removeLastObs / popObs, extract, "
                "extractSpanTime (two instants or a track), __add__, __mod__ (int and list), __gt__/__lt__ with an integer, "
                "__getitem__ (integer, slice with CPython's index adjustment, (name, i) / (i, name), name), __setitem__ with an integer / setObs, reverse, makeOdd / makeEven, "
                "getFirstObs / getLastObs, __truediv__ (even split into a TrackCollection), removeObsList with ObsTimes (__removeObsListByTimestamp / __removeObsByTimestamp), __transmitAF; the feature table "
                "__analyticalFeaturesDico as (name, column) pairs with getObsAnalyticalFeature / getAnalyticalFeature / "
                "createAnalyticalFeature (list or scalar) / removeAnalyticalFeature on non-reserved names; an interpreter applying these "
                "operations in sequence to a pool of tracks. Timestamps as integers (C03 proves the field-wise order is the epoch order)")
    trusted = ["sessions: a new observation's feature list is laid out by the harness following getListAnalyticalFeatures() (column = rank), as a caller has to",
               "numpy argsort on an object array: only 'returns a sorting permutation' is assumed (it is not stable for ties); "
               "CPython list.insert / del / pop / item assignment / slices (PySlice_AdjustIndices) / negative indices modelled as documented; "
               "copy.deepcopy in reverse() = same records; list.sort on ObsTime objects = order of the instants (C03)",
               "(int)(math.log(N)/math.log(2)) modelled as floor(log2 N); the theorems hold for any first step 2^j with 2*2^j <= N"]
    rule = ("every track of size 0..6 (0..7 thorough) over the time values {1,3,5,7} x every instant 0..8 (before / equal / between / after) for "
            "insertion and for sort; every sorted track of sizes 0..70 x every instant for the insertion index; random sorted tracks with ties of "
            "sizes 2^k, 2^k+-1 up to 1025; all index pairs -1..n / spans 0..8 (reversed, empty) / steps -2..n+2 / patterns of length <= 4 / "
            "trims -2..n+2 / index lists of length <= 3 over -1..n and all subsets, on sizes <= 6; the float expression of the first step for every N <= 2^16 (2^21 thorough). "
            "Tracks are built through createAnalyticalFeature (one column per creation) and every dump reads every listed feature BY NAME through "
            "getObsAnalyticalFeature; the oracle requires every observation of every result to read its own value. "
            "Sessions: 1-3 tracks whose features are created / removed / re-created in 11 different histories (column orders f,g / g,f / g,h,f / ...), then "
            "1-7 operators applied in sequence, each on any track of the pool (results included), every track of the pool dumped after every "
            "operation (source-unmodified), optionally a feature created at the end on one track (table aliasing): every slice "
            "(start, stop in None, -n-1..n+1, step in None,1,2,3,-1,-2,0), track[i], insertObs(obs,i), removeObs, popObs, the three read forms, for every i in "
            "-n-2..n+2 on sizes 0..4; every pair of histories x '+' (also with an empty operand that carries a table); every history x every operator followed "
            "by a second operator; 4000 (40000 thorough) random chains. sortRadix: pairs later in one field and earlier in every / one less significant field, "
            "random tracks of 1..40 timestamps (years 1..2500, on both sides of 1970..2069 in one track too). "
            "reverse / makeOdd / makeEven / getFirstObs / getLastObs, setObs(i) and track[i] = obs for i in -n-2..n+2, track / k for k in -2..n+3, removeObsList(timestamps) for every list of <= 2 instants 0..8, on sizes 0..6, "
            "and 300 (3000) random larger ones; slice.indices against the model's bounds (every a, b in None, -n-3..n+3 x 9 steps, n <= 8; random lengths up to 2^39). "
            "non-trivial = a track has at least 2 observations (so a loop of the operation runs)")

    # ---------------------------------------------------------------- setup / construction
    def setup(self):
        from tracklib.core.obs_time import ObsTime
        from tracklib.core.obs import Obs
        from tracklib.core import ENUCoords
        from tracklib.core.track import Track
        from tracklib.util.exceptions import AnalyticalFeatureError
        self.ObsTime, self.Obs, self.ENU, self.Track, self.AFError = ObsTime, Obs, ENUCoords, Track, AnalyticalFeatureError
        self._fields = {}

    def TS(self, v):
        f = self._fields.get(v)
        if f is None:
            t = self.ObsTime.readUnixTime(BASE + v * STEP)
            f = (t.year, t.month, t.day, t.hour, t.min, t.sec, t.ms)
            self._fields[v] = f
        return self.ObsTime(*f)

    def mk_obs(self, tag, v, names):
        o = self.Obs(self.ENU(float(tag), 2.0 * tag + 0.5, -float(tag)), self.TS(v))
        o.features = list(feats(tag, names))
        return o

    def mk(self, times, names, tag0=0):
        if not times:
            # createAnalyticalFeature refuses an empty track: an empty track WITH a table is what `track > n` leaves;
            # here the private dict name -> column is written directly
            tr = self.Track([])
            tr._Track__analyticalFeaturesDico = {nm: k for k, nm in enumerate(names)}
            return tr
        tr = self.Track([self.mk_obs(tag0 + i, v, []) for i, v in enumerate(times)])
        for k, nm in enumerate(names):       # the public way: one column per creation, in this order
            tr.createAnalyticalFeature(nm, [10 * (tag0 + i) + k for i in range(len(times))])
        return tr

    def read(self, tr, nm, i, form="get"):
        """a read by NAME through the public interface: the value, "K" (unknown name), "I" (IndexError) or another error kind"""
        try:
            v = tr.getObsAnalyticalFeature(nm, i) if form == "get" else (tr[nm, i] if form == "ni" else tr[i, nm])
        except self.AFError:
            return "K"
        except IndexError:
            return "I"
        except BaseException as e:
            if isinstance(e, KeyboardInterrupt):
                raise
            return err_kind(e)
        return v

    def dump(self, tr):
        rows = []
        for o in [tr.getObs(i) for i in range(tr.size())]:
            x, y, z = o.position.getX(), o.position.getY(), o.position.getZ()
            tag = int(x) if (x == int(x) and y == 2.0 * x + 0.5 and z == -x) else "bad-position:%r,%r,%r" % (x, y, z)
            ms = round(o.timestamp.toAbsTime() * 1000)
            d = ms - BASE * 1000
            t = d // (STEP * 1000) if d % (STEP * 1000) == 0 else "bad-time:%d" % ms
            rows.append([tag, t] + list(o.features))
        names = list(tr.getListAnalyticalFeatures())
        dico = tr._Track__analyticalFeaturesDico
        return {"pts": rows, "names": names, "cols": [dico[nm] for nm in names],
                "reads": {nm: [self.read(tr, nm, i) for i in range(tr.size())] for nm in names}}

    # ---------------------------------------------------------------- generators
    def exhaustive_scopes(self, tier):
        n = 7 if tier == "thorough" else 6
        return ["insertion (without index) of every instant 0..8 into every track (sorted or not) of size 0..%d over the time values {1,3,5,7}" % n,
                "sort of every track of size 0..%d over the time values {1,3,5,7}" % n,
                "insertion index of every instant into the sorted tracks 1,3,..,2N-1 and (ties) 1,1,3,3,.. of every size N <= 70",
                "extract(a,b) for all a,b in -1..n; extractSpanTime for all bounds 0..8 x 0..8 on every track of size <= 3; "
                "% n for n in -2..n+2; % pattern for every pattern of length 0..4; > n and < n for n in -2..n+2; on sizes 0..6",
                "removeObsList for every index list of length <= 3 over -1..n (duplicates and out-of-range included) on sizes 0..5, "
                "and every subset of the indices on sizes <= 6",
                "+ for sizes 0..3 x 0..3 x equal / different / missing feature tables",
                "one-operation sessions on sizes 0..4: track[a:b:c] for a, b in None, -n-1..n+1 and c in None, 1, 2, 3, -1, -2, 0; track[i], removeObs(i), popObs(i), "
                "insertObs(obs, i) (3 instants), track[name, i] / track[i, name] / getObsAnalyticalFeature for 3 names, for every i in -n-2..n+2; track[name]; "
                "removeFirstObs, removeLastObs, addObs; extractSpanTime(track) for every other track of size 0..2 over {1,3,5,7}",
                "every ordered pair of the 11 feature histories x '+' (two size pairs), the sum fed to a second operator and to '+' again, and '+' with an empty operand carrying a table",
                "reverse, makeOdd, makeEven, getFirstObs, getLastObs; setObs(i, obs) and track[i] = obs for i in -n-2..n+2; track / k for k in -2..n+3; "
                "removeObsList(timestamps) for every list of 0..2 instants over 0..8; on sizes 0..6",
                "slice(a, b, c).indices(n) and the slice length for every a, b in None, -n-3..n+3, c in +-1, +-2, +-3, +-5, 0, n in 0..8, against the model's sliceBounds / sliceLen"]

    def cases(self, rng, tier):
        out = []
        nmax = 7 if tier == "thorough" else 6
        F = ["f"]
        # ---- insertion and sort: all tracks over 4 time values
        for n in range(0, nmax + 1):
            for times in itertools.product(V4, repeat=n):
                times = list(times)
                for ts in range(0, 9):
                    out.append({"kind": "insert", "times": times, "names": F, "ts": ts})
                out.append({"kind": "sort", "times": times, "names": F})
        # ---- insertion index, every size up to 70, every instant
        for n in range(0, 71):
            out.append({"kind": "index", "times": [2 * i + 1 for i in range(n)], "tss": list(range(0, 2 * n + 2))})
            out.append({"kind": "index", "times": [2 * (i // 2) + 1 for i in range(n)], "tss": list(range(0, n + 3))})
            out.append({"kind": "index", "times": [5] * n, "tss": [4, 5, 6]})
        # ---- random sorted tracks with ties around the powers of two
        reps = 2 if tier == "quick" else 12
        for k in range(1, 11):
            for n in (2 ** k - 1, 2 ** k, 2 ** k + 1):
                for _ in range(reps):
                    spread = rng.choice([2, max(2, n // 4), n, 3 * n])
                    times = sorted(2 * rng.randrange(spread) + 1 for _ in range(n))
                    pool = [times[0] - 1, times[0], times[-1], times[-1] + 1, times[n // 2], times[n // 2] - 1, times[n // 2] + 1]
                    tss = pool + [rng.randrange(0, 2 * spread + 2) for _ in range(12)]
                    out.append({"kind": "index", "times": times, "tss": tss})
                    out.append({"kind": "insert", "times": times, "names": F, "ts": rng.choice(tss)})
                # unsorted tracks: nothing is promised, but the code must behave as the model says (no index error)
                times = [rng.randrange(8) for _ in range(n)]
                out.append({"kind": "index", "times": times, "tss": [rng.randrange(-1, 9) for _ in range(8)]})
                # sort with many ties (numpy's introsort is not stable beyond 16 elements)
                for _ in range(reps):
                    out.append({"kind": "sort", "times": [rng.randrange(rng.choice([2, 4, n + 1])) for _ in range(n)], "names": rng.choice([[], F, ["f", "g"]])})
        # ---- the float expression of the first step, (int)(math.log(N)/math.log(2)), against the model's floor(log2 N)
        top = 2 ** 16 if tier == "quick" else 2 ** 21
        for lo in range(1, top + 2, 4096):
            out.append({"kind": "ilog", "times": [], "lo": lo, "hi": min(lo + 4096, top + 2)})
        for k in range(17 if tier == "quick" else 22, 40):
            out.append({"kind": "ilog", "times": [], "lo": 2 ** k - 2, "hi": 2 ** k + 3})
        # ---- slicing operators on sizes 0..6
        for n in range(0, 7):
            tvs = [list(range(1, 2 * n + 1, 2)), [rng.choice(V4) for _ in range(n)]]
            for times in tvs:
                names = rng.choice([[], F, ["f", "g"]])
                for a in range(-1, n + 1):
                    for b in range(-1, n + 1):
                        out.append({"kind": "extract", "times": times, "names": names, "a": a, "b": b})
                for k in range(-2, n + 3):
                    out.append({"kind": "step", "times": times, "names": names, "n": k})
                    out.append({"kind": "gt", "times": times, "names": names, "n": k})
                    out.append({"kind": "lt", "times": times, "names": names, "n": k})
                for L in range(0, 5):
                    for pat in itertools.product([0, 1], repeat=L):
                        out.append({"kind": "pattern", "times": times, "names": names, "pat": list(pat)})
                for sub in range(1 << n):
                    idx = [i for i in range(n) if sub >> i & 1]
                    rng.shuffle(idx)
                    out.append({"kind": "remove", "times": times, "names": names, "idx": idx})
            if n <= 5:
                for L in range(0, 4):
                    for idx in itertools.product(range(-1, n + 1), repeat=L):
                        out.append({"kind": "remove", "times": tvs[0], "names": F, "idx": list(idx)})
        for n in range(0, 4):
            for times in itertools.product(V4, repeat=n):
                for t1 in range(0, 9):
                    for t2 in range(0, 9):
                        out.append({"kind": "span", "times": list(times), "names": F, "t1": t1, "t2": t2})
        for _ in range(300 if tier == "quick" else 3000):
            n = rng.randrange(4, 8)
            out.append({"kind": "span", "times": [rng.choice(V4) for _ in range(n)], "names": rng.choice([[], F]), "t1": rng.randrange(9), "t2": rng.randrange(9)})
        for n1 in range(0, 4):
            for n2 in range(0, 4):
                for nm1, nm2 in ((F, F), (F, ["g"]), (F, []), ([], F), ([], []), (["f", "g"], ["f", "g"]), (["f", "g"], ["g", "f"]), (["f", "g"], ["f"])):
                    out.append({"kind": "concat", "times": [rng.choice(V4) for _ in range(n1)], "names": nm1,
                                "times2": [rng.choice(V4) for _ in range(n2)], "names2": nm2})
        # ---- random larger instances of the slicing operators
        for _ in range(400 if tier == "quick" else 4000):
            n = rng.choice([rng.randrange(7, 40), 2 ** rng.randrange(3, 7), 2 ** rng.randrange(3, 7) + 1])
            times = [rng.randrange(12) for _ in range(n)]
            names = rng.choice([[], F, ["f", "g"]])
            k = rng.choice(["extract", "step", "gt", "lt", "pattern", "remove", "span"])
            c = {"kind": k, "times": times, "names": names}
            if k == "extract":
                c["a"], c["b"] = rng.randrange(0, n), rng.randrange(0, n)
            elif k in ("step", "gt", "lt"):
                c["n"] = rng.randrange(0, n + 3)
            elif k == "pattern":
                c["pat"] = [rng.randrange(2) for _ in range(rng.randrange(1, 7))]
            elif k == "remove":
                c["idx"] = rng.sample(range(n), rng.randrange(0, n + 1))
            else:
                c["t1"], c["t2"] = rng.randrange(-1, 13), rng.randrange(-1, 13)
            out.append(c)
        out += self.more_cases(rng, tier)
        out += self.session_cases(rng, tier)
        # the sortRadix cases are slow (the code allocates 60000 buckets per call): spread them over the engine's shards
        rad = self.radix_cases(rng, tier)
        gap = max(1, len(out) // (len(rad) + 1))
        for i, c in enumerate(rad):
            out.insert(min(len(out), (i + 1) * gap + i), c)
        return out


    # ---------------------------------------------------------------- the remaining list operations, slice.indices
    MORE_KINDS = ("reverse", "makeodd", "makeeven", "setobs", "first", "last", "split", "removets")

    def more_cases(self, rng, tier):
        out = []
        F = ["f"]
        for n in range(0, 7):
            for times in (list(range(1, 2 * n + 1, 2)), [rng.choice(V4) for _ in range(n)]):
                names = rng.choice([[], F, ["f", "g"]])
                for k in ("reverse", "makeodd", "makeeven", "first", "last"):
                    out.append({"kind": k, "times": times, "names": names})
                for i in range(-n - 2, n + 3):
                    for form in ("setObs", "item"):
                        out.append({"kind": "setobs", "times": times, "names": names, "i": i, "ts": rng.randrange(9), "form": form})
                for number in range(-2, n + 4):
                    out.append({"kind": "split", "times": times, "names": names, "n": number})
                for L in range(0, 3):
                    for ts in itertools.product(range(0, 9), repeat=L):
                        out.append({"kind": "removets", "times": times, "names": names, "ts": list(ts)})
        for _ in range(300 if tier == "quick" else 3000):
            n = rng.choice([rng.randrange(7, 40), 2 ** rng.randrange(3, 7), 2 ** rng.randrange(3, 7) + 1])
            times = [rng.randrange(12) for _ in range(n)]
            names = rng.choice([[], F, ["f", "g"]])
            k = rng.choice(self.MORE_KINDS)
            c = {"kind": k, "times": times, "names": names}
            if k == "setobs":
                c.update(i=rng.randrange(-n - 1, n + 1), ts=rng.randrange(12), form=rng.choice(["setObs", "item"]))
            elif k == "split":
                c["n"] = rng.randrange(1, n + 3)
            elif k == "removets":
                c["ts"] = rng.sample(range(-1, 13), rng.randrange(0, 6))
            out.append(c)
        # ---- CPython's slice.indices / len(range(...)) against the model's sliceBounds / sliceLen (the contract of pySlice)
        for n in range(0, 9):
            rg = [None] + list(range(-n - 3, n + 4))
            for a in rg:
                out.append({"kind": "sliceidx", "times": [], "len": n, "args": [[a, b, c] for b in rg for c in (1, 2, 3, 5, -1, -2, -3, -5, 0)]})
        for _ in range(60 if tier == "quick" else 600):
            n = rng.choice([rng.randrange(0, 50), rng.randrange(50, 10 ** 6), 2 ** rng.randrange(1, 40)])
            B = lambda: rng.choice([None, rng.randrange(-2 * n - 2, 2 * n + 3), rng.choice([-n - 1, -n, -n + 1, -1, 0, 1, n - 1, n, n + 1])])
            C = lambda: rng.choice([1, -1, 2, -2, rng.randrange(1, n + 3), -rng.randrange(1, n + 3), 0])
            out.append({"kind": "sliceidx", "times": [], "len": n, "args": [[B(), B(), C()] for _ in range(100)]})
        return out

    # ---------------------------------------------------------------- session generators
    HISTS = [[], [["c", "f"]], [["c", "f"], ["c", "g"]], [["c", "g"], ["c", "f"]],
             [["c", "f"], ["c", "g"], ["d", "f"], ["c", "f"]],            # f removed and re-created: columns g, f
             [["c", "f"], ["c", "g"], ["d", "g"], ["c", "g"]],            # same layout as f, g after a removal
             [["c", "f"], ["c", "g"], ["c", "h"]], [["c", "h"], ["c", "g"], ["c", "f"]],
             [["c", "f"], ["c", "g"], ["c", "h"], ["d", "g"]],            # f, h (h moved from column 2 to 1)
             [["c", "f"], ["c", "g"], ["c", "h"], ["d", "f"], ["c", "f"]],  # g, h, f
             [["c", "g"], ["c", "f"], ["c", "f"]]]                        # a second creation of an existing name changes nothing

    @staticmethod
    def sim_op(pool, op, designate):
        """reference effect of an operator on the generator's view of the pool ({"ids", "names"}); False when the clean code raises /
        the arguments are outside the property's scope (the session ends there)"""
        kind, src = op[0], pool[op[1]]
        ids, n = src["ids"], len(src["ids"])
        if kind in NEW_OPS:
            other = pool[op[2]]["ids"] if kind in ("add", "spantrack") else None
            want = designate(op, ids, other)
            if kind == "slice" and op[4] is not None and op[4] < 0:
                want = ids[slice(op[2], op[3], op[4])]
            if want is None:
                return False
            names = src["names"] if (kind != "add" or src["names"] == pool[op[2]]["names"]) else []
            pool.append({"ids": list(want), "names": list(names)})
            return True
        if kind == "create":
            if n and LATE not in src["names"]:
                src["names"] = src["names"] + [LATE]
            return False            # always the last operation of a session
        if kind in READ_OPS:
            if kind == "get":
                return -n <= op[2] < n
            if kind == "read":
                return op[2] in src["names"] and -n <= op[3] < n
            return op[2] in src["names"]
        if kind == "sort":
            src["ids"] = sorted(ids, key=lambda r: r[1])
        elif kind == "insert":
            new = [op[2], op[3]]
            i = sum(1 for r in ids if r[1] <= op[3]) if nondecreasing([r[1] for r in ids]) else n
            src["ids"] = ids[:i] + [new] + ids[i:]
        elif kind == "insertat":
            l = list(ids)
            l.insert(op[2], [op[3], op[4]])
            src["ids"] = l
        elif kind == "addobs":
            src["ids"] = ids + [[op[2], op[3]]]
        else:
            idx = list(op[2]) if kind == "remove" else [0] if kind == "removefirst" else [n - 1] if kind == "removelast" else [op[2]]
            if any(not -n <= i < n for i in idx) or (kind == "remove" and len(set(idx)) < len(idx)):
                return kind == "remove" and all(0 <= i < n for i in idx)
            idx = [i % n for i in idx]
            src["ids"] = [r for i, r in enumerate(ids) if i not in idx]
        return True

    def random_op(self, rng, pool, newtag, scope=True):
        """a random operator on the (generator's view of the) pool; arguments inside the property's scope unless scope=False"""
        k = rng.randrange(len(pool))
        n = len(pool[k]["ids"])
        kind = rng.choice(NEW_OPS + NEW_OPS + INPLACE_OPS + ("read", "get", "column"))
        lo = 0 if scope else -2
        if kind == "extract":
            if n == 0 and scope:
                return ["gt", k, 0]
            a = rng.randrange(lo, n + (0 if scope else 2))
            return ["extract", k, a, rng.randrange(max(a - 1, lo, 0) if scope else -1, n + (0 if scope else 2))] if n else ["extract", k, 0, -1]
        if kind == "span":
            return ["span", k, rng.randrange(9), rng.randrange(9)]
        if kind in ("spantrack", "add"):
            return [kind, k, rng.randrange(len(pool))]
        if kind == "step":
            return ["step", k, rng.randrange(1 if scope else -1, n + 3)]
        if kind == "pattern":
            return ["pattern", k, [rng.randrange(2) for _ in range(rng.randrange(1 if scope else 0, 5))]]
        if kind in ("gt", "lt"):
            return [kind, k, rng.randrange(lo, n + 3)]
        if kind == "slice":
            c = rng.choice([None, None, 1, 2, 3] + ([] if scope else [-1, -2, 0]))
            return ["slice", k, rng.choice([None] + list(range(-n - 1, n + 2))), rng.choice([None] + list(range(-n - 1, n + 2))), c]
        if kind == "sort":
            return ["sort", k]
        if kind in ("insert", "addobs"):
            return [kind, k, newtag, rng.randrange(9)]
        if kind == "insertat":
            return ["insertat", k, rng.randrange(lo, n + (1 if scope else 3)), newtag, rng.randrange(9)]
        if kind == "remove":
            if scope:
                return ["remove", k, rng.sample(range(n), rng.randrange(0, min(n, 3) + 1))]
            return ["remove", k, [rng.randrange(-1, n + 1) for _ in range(rng.randrange(0, 4))]]
        if kind in ("removeobs", "pop", "get"):
            if n == 0 and scope:
                return ["addobs", k, newtag, rng.randrange(9)]
            return [kind, k, rng.randrange(0 if scope else -n - 1, n + (0 if scope else 1))]
        if kind in ("removefirst", "removelast"):
            if n == 0 and scope:
                return ["addobs", k, newtag, rng.randrange(9)]
            return [kind, k]
        names = pool[k]["names"]
        if kind == "read":
            if not names or n == 0:
                return ["sort", k]
            return ["read", k, rng.choice(names), rng.randrange(0 if scope else -n, n), rng.choice(["get", "ni", "in"])]
        if not names:
            return ["sort", k]
        return ["column", k, rng.choice(names)]

    def session_cases(self, rng, tier):
        out = []
        S = lambda tracks, ops: out.append({"kind": "session", "tracks": tracks, "ops": ops})
        FG = [["c", "f"], ["c", "g"]]
        # ---- (a) the entry points of the statement that the single-operator streams do not reach, one operation, every argument
        for n in range(0, 5):
            for times in ([1, 3, 5, 7][:n], [3, 1, 3, 1][:n]):
                T = [{"times": times, "hist": FG if n else []}]
                rg = [None] + list(range(-n - 1, n + 2))
                if times == [1, 3, 5, 7][:n]:
                    for a in rg:
                        for b in rg:
                            for c in (None, 1, 2, 3, -1, -2, 0):
                                S(T, [["slice", 0, a, b, c]])
                for i in range(-n - 2, n + 3):
                    S(T, [["get", 0, i]])
                    S(T, [["removeobs", 0, i]])
                    S(T, [["pop", 0, i]])
                    for ts in (0, 4, 8):
                        S(T, [["insertat", 0, i, 900, ts]])
                    for nm in NAMES:
                        for form in ("get", "ni", "in"):
                            S(T, [["read", 0, nm, i, form]])
                for nm in NAMES:
                    S(T, [["column", 0, nm]])
                S(T, [["removefirst", 0]])
                S(T, [["removelast", 0]])
                S(T, [["addobs", 0, 900, 0]])
                S(T, [["addobs", 0, 900, 8]])
                for m in range(0, 3):
                    for tm in itertools.product(V4, repeat=m):
                        S(T + [{"times": list(tm), "hist": []}], [["spantrack", 0, 1]])
        # ---- (b) every pair of feature histories x `+`, then a second operator on the sum; every history x every operator
        for h1 in self.HISTS:
            for h2 in self.HISTS:
                for t1, t2 in (([1, 3], [5, 7]), ([5], [3, 3, 1])):
                    T = [{"times": t1, "hist": h1}, {"times": t2, "hist": h2}]
                    S(T, [["add", 0, 1]])
                    S(T, [["add", 1, 0], ["add", 2, 2], ["sort", 3]])
                    S(T, [["add", 0, 1], rng.choice([["gt", 2, 1], ["step", 2, 2], ["slice", 2, 1, None, None], ["extract", 2, 1, 2], ["lt", 2, 1]]), ["add", 3, 1]])
                    # an EMPTY operand that still carries a table (what `>` / `<` / extract leave)
                    S(T, [["gt", 0, 5], ["add", 2, 1]])
                    S(T, [["lt", 1, 9], ["add", 0, 2]])
                    S(T, [["gt", 0, 5], ["lt", 1, 9], ["add", 2, 3]])
        for h in self.HISTS:
            for times in ([5, 1, 3, 3], [1, 3, 5, 7, 7]):
                n = len(times)
                T = [{"times": times, "hist": h}]
                for op in (["extract", 0, 1, 2], ["span", 0, 2, 6], ["step", 0, 2], ["pattern", 0, [1, 0, 1]], ["gt", 0, 1], ["lt", 0, 1],
                           ["slice", 0, 1, None, 2], ["sort", 0], ["insert", 0, 900, 4], ["insertat", 0, 1, 900, 4], ["addobs", 0, 900, 4],
                           ["remove", 0, [2, 0]], ["removeobs", 0, 1], ["removefirst", 0], ["removelast", 0], ["pop", 0, 2]):
                    nxt = 1 if op[0] in NEW_OPS else 0
                    if nxt:
                        # a feature created afterwards on the result / on the source must not appear in the other's table
                        S(T, [op, ["create", 1]])
                        S(T, [op, ["create", 0]])
                    S(T, [op, rng.choice([["gt", nxt, 1], ["step", nxt, 2], ["sort", nxt], ["slice", nxt, None, -1, None], ["insert", nxt, 901, rng.randrange(9)]])])
        # ---- (c) random chains: the result of one operator is an operand of the next
        for _ in range(4000 if tier == "quick" else 40000):
            tracks, pool = [], []
            for k in range(rng.randrange(1, 4)):
                n = rng.choice([0, 1, 2, 3, 3, 4, 5, 6])
                times = sorted(rng.choice(V4) for _ in range(n)) if rng.random() < 0.5 else [rng.choice(V4) for _ in range(n)]
                hist = [list(x) for x in rng.choice(self.HISTS)] if n else []
                tracks.append({"times": times, "hist": hist})
                pool.append({"ids": [[s_tag(k, i), v] for i, v in enumerate(times)], "names": s_layout(hist)[0]})
            ops = []
            alive = True
            for j in range(rng.randrange(2, 8)):
                op = self.random_op(rng, pool, 900 + j, scope=rng.random() < 0.93)
                ops.append(op)
                if not self.sim_op(pool, op, self.designate):
                    alive = False
                    break
            if alive and rng.random() < 0.3:
                # (not on a track holding the same observation twice, e.g. t + t: the one shared object would get the column twice)
                cand = [k for k, t in enumerate(pool) if t["ids"] and len({r[0] for r in t["ids"]}) == len(t["ids"])]
                if cand:
                    ops.append(["create", rng.choice(cand)])
            S(tracks, ops)
        return out

    def radix_cases(self, rng, tier):
        """sortRadix allocates 60000 + 60 + 24 + 31 + 12 buckets (and one per year of the span) per call (70 ms): a few hundred cases"""
        out = []
        R = lambda fs: out.append({"kind": "radix", "times": [0] * len(fs), "fields": [list(f) for f in fs]})
        mid, d = [2001, 6, 15, 12, 30, 30, 500], [1, 5, 10, 11, 29, 29, 499]
        for j in range(7):
            # later in field j, earlier in EVERY less significant field (and the reverse order of presentation)
            a = list(mid)
            b = [mid[i] + d[i] if i == j else (mid[i] - d[i] if i > j else mid[i]) for i in range(7)]
            R([a, b]); R([b, a]); R([b, a, b, a])
            for k in range(j + 1, 7):
                c = [mid[i] + d[i] if i == j else (mid[i] - d[i] if i == k else mid[i]) for i in range(7)]
                R([c, a]); R([a, c])
        for n in range(0, 4):
            R([mid] * n)
        for ys in ([2070, 2000], [1969, 2000, 1971], [2069, 2070], [1970, 1969], [2100, 1900, 2000, 1900], [1869], [2500, 1]):
            R([[y] + mid[1:] for y in ys])
        lo, hi = [mid[i] - d[i] for i in range(7)], [mid[i] + d[i] for i in range(7)]
        for _ in range(120 if tier == "quick" else 2500):
            n = rng.choice([1, 2, 3, 4, 5, 8, 16, 17, 40])
            mode = rng.random()
            fs = []
            for _i in range(n):
                if mode < 0.4:
                    f = [rng.choice([lo[i], hi[i]]) for i in range(7)]
                elif mode < 0.8:
                    f = [rng.choice([1970, 1999, 2000, 2024, 2069]), rng.randrange(1, 13), rng.randrange(1, 29), rng.randrange(24), rng.randrange(60),
                         rng.randrange(60), rng.choice([0, 1, 500, 999])]
                else:
                    f = [2024, 2, rng.choice([28, 29]), rng.choice([0, 23]), rng.choice([0, 59]), rng.choice([0, 59]), rng.choice([0, 999])]
                fs.append(f)
            if mode > 0.8 or rng.random() < 0.15:
                # years on both sides of 1970..2069 (the year buckets once were 1970..2069: fix b323645)
                for _j in range(rng.randrange(1, 3)):
                    fs[rng.randrange(n)][0] = rng.choice([2070, 2100, 1969, 1900, 1869, 1, 2500])
            if rng.random() < 0.3:
                fs = sorted(fs)
            elif rng.random() < 0.15:
                fs = sorted(fs, reverse=True)
            R(fs)
        return out

    def describe(self, case):
        if case["kind"] == "session":
            return {"kind": "session", "operations": len(case["ops"]), "first_op": case["ops"][0][0] if case["ops"] else "-",
                    "tracks": len(case["tracks"])}
        if case["kind"] == "radix":
            n = len(case["fields"])
            return {"kind": "radix", "size": n if n <= 8 else ">8"}
        t = {"kind": case["kind"]}
        n = len(case["times"])
        t["size"] = n if n <= 8 else ("2^k" if n & (n - 1) == 0 else "2^k-1" if (n + 1) & n == 0 else "2^k+1" if (n - 1) & (n - 2) == 0 else ">8")
        if case["kind"] in ("insert", "sort"):
            t["sorted"] = nondecreasing(case["times"])
            t["ties"] = len(set(case["times"])) < n
        if case["kind"] == "insert" and n:
            ts, tm = case["ts"], case["times"]
            t["instant"] = "before" if ts < min(tm) else "after" if ts > max(tm) else "equal" if ts in tm else "between"
        return t

    def nontrivial(self, case):
        if case["kind"] == "session":
            return any(len(t["times"]) >= 2 for t in case["tracks"]) and bool(case["ops"])
        if case["kind"] == "radix":
            return len(case["fields"]) >= 2
        return len(case["times"]) >= 2 or case["kind"] in ("ilog", "sliceidx")

    # ---------------------------------------------------------------- implementation
    def impl(self, case):
        k = case["kind"]
        names = case.get("names", [])
        if k == "ilog":
            # the expression of Track.__getInsertionIndex, evaluated by the same CPython / libm (trusted-contract check)
            return {"j": [(int)(math.log(N) / math.log(2)) for N in range(case["lo"], case["hi"])]}
        if k == "session":
            return self.impl_session(case)
        if k == "radix":
            return self.impl_radix(case)
        if k == "sliceidx":
            # CPython's own index adjustment (trusted-contract check of the model's sliceBounds / sliceLen)
            res = []
            for a, b, c in case["args"]:
                try:
                    ind = slice(a, b, c).indices(case["len"])
                    res.append([ind[0], ind[1], len(range(*ind))])
                except ValueError:
                    res.append("err:value")
            return {"idx": res}
        tr = self.mk(case["times"], names)
        if k == "index":
            res = []
            for ts in case["tss"]:
                try:
                    res.append(int(tr._Track__getInsertionIndex(self.TS(ts))))
                except BaseException as e:
                    res.append(err_kind(e))
            return {"ids": res, "src": self.dump(tr)}
        out = {}
        try:
            if k == "insert":
                tr.insertObs(self.mk_obs(NEW_TAG, case["ts"], names))
            elif k == "sort":
                tr.sort()
            elif k == "remove":
                out["ret"] = tr.removeObsList(list(case["idx"]))
            elif k == "extract":
                out["out"] = self.dump(tr.extract(case["a"], case["b"]))
            elif k == "span":
                out["out"] = self.dump(tr.extractSpanTime(self.TS(case["t1"]), self.TS(case["t2"])))
            elif k == "concat":
                tr2 = self.mk(case["times2"], case["names2"], tag0=50)
                out["out"] = self.dump(tr + tr2)
                out["src2"] = self.dump(tr2)
            elif k == "step":
                out["out"] = self.dump(tr % case["n"])
            elif k == "pattern":
                out["out"] = self.dump(tr % [bool(b) for b in case["pat"]])
            elif k == "gt":
                out["out"] = self.dump(tr > case["n"])
            elif k == "lt":
                out["out"] = self.dump(tr < case["n"])
            elif k == "reverse":
                out["out"] = self.dump(tr.reverse())
            elif k == "makeodd":
                tr.makeOdd()
            elif k == "makeeven":
                tr.makeEven()
            elif k == "setobs":
                o = self.mk_obs(NEW_TAG, case["ts"], names)
                if case["form"] == "item":
                    tr[case["i"]] = o
                else:
                    tr.setObs(case["i"], o)
            elif k == "first":
                out["ret"] = self.obs_tag(tr.getFirstObs())
            elif k == "last":
                out["ret"] = self.obs_tag(tr.getLastObs())
            elif k == "split":
                coll = tr / case["n"]
                out["outs"] = [self.dump(coll.getTrack(i)) for i in range(coll.size())]
            elif k == "removets":
                out["ret"] = tr.removeObsList([self.TS(t) for t in case["ts"]])
            else:
                raise ValueError(k)
        except BaseException as e:
            if isinstance(e, KeyboardInterrupt):
                raise
            out = {"err": err_kind(e)}
        out["src"] = self.dump(tr)     # the track itself afterwards (in-place operations: the result)
        return out

    # ---------------------------------------------------------------- model
    @staticmethod
    def tok_pts(rows):
        return ",".join(":".join(str(x) for x in r) for r in rows) if rows else "_"

    @staticmethod
    def tok_names(names):
        return ",".join(names) if names else "_"

    @staticmethod
    def untrack(p, n):
        pts = [] if p == "_" else [[int(x) for x in o.split(":")] for o in p.split(",")]
        names, cols = [], []
        if n != "_":
            for e in n.split(","):
                nm, c = e.split(":")
                names.append(nm)
                cols.append(int(c))
        return {"pts": pts, "names": names, "cols": cols, "reads": reads_from_raw(pts, names, cols)}

    @staticmethod
    def track_dict(rows, names):
        """the dump of a track whose columns are its names in order (what `mk` builds)"""
        names = list(names)
        cols = list(range(len(names)))
        return {"pts": rows, "names": names, "cols": cols, "reads": reads_from_raw(rows, names, cols)}

    def requests(self, case):
        k = case["kind"]
        names = case.get("names", [])
        if k == "session":
            return self.requests_session(case)
        if k == "radix":
            return ["C04.radix %s" % (";".join(",".join(map(str, self.radix_digits(f))) for f in case["fields"]) or "_")]
        if k == "sliceidx":
            oi = lambda v: "N" if v is None else str(v)
            return ["C04.sliceidx %d %s %s %d" % (case["len"], oi(a), oi(b), c) for a, b, c in case["args"]]
        p = self.tok_pts(obs_rows(case["times"], names))
        nm = self.tok_names(names)
        if k == "ilog":
            return ["C04.ilog2 %d %d" % (case["lo"], case["hi"])]
        if k == "index":
            T = ",".join(map(str, case["times"])) if case["times"] else "_"
            return ["C04.index %s %d" % (T, ts) for ts in case["tss"]]
        if k == "insert":
            return ["C04.insert %s %s %s" % (p, nm, ":".join(map(str, [NEW_TAG, case["ts"]] + feats(NEW_TAG, names))))]
        if k == "sort":
            return ["C04.sort %s %s" % (p, nm)]
        if k == "remove":
            return ["C04.remove %s %s" % (p, ",".join(map(str, case["idx"])) if case["idx"] else "_")]
        if k == "extract":
            return ["C04.extract %s %s %d %d" % (p, nm, case["a"], case["b"])]
        if k == "span":
            return ["C04.span %s %s %d %d" % (p, nm, case["t1"], case["t2"])]
        if k == "concat":
            p2 = self.tok_pts(obs_rows(case["times2"], case["names2"], 50))
            return ["C04.concat %s %s %s %s" % (p, nm, p2, self.tok_names(case["names2"]))]
        if k == "step":
            return ["C04.step %s %s %d" % (p, nm, case["n"])]
        if k == "pattern":
            return ["C04.pattern %s %s %s" % (p, nm, "".join(map(str, case["pat"])) if case["pat"] else "_")]
        if k in ("gt", "lt"):
            return ["C04.%s %s %s %d" % (k, p, nm, case["n"])]
        if k == "reverse":
            return ["C04.reverse %s %s" % (p, nm)]
        if k in ("makeodd", "makeeven", "first", "last"):
            return ["C04.%s %s" % (k, p)]
        if k == "setobs":
            return ["C04.setobs %s %d %s" % (p, case["i"], ":".join(map(str, [NEW_TAG, case["ts"]] + feats(NEW_TAG, names))))]
        if k == "split":
            return ["C04.split %s %s %d" % (p, nm, case["n"])]
        if k == "removets":
            return ["C04.removets %s %s" % (p, ",".join(map(str, case["ts"])) if case["ts"] else "_")]
        raise ValueError(k)

    def decode(self, case, replies):
        k = case["kind"]
        names = case.get("names", [])
        if k == "session":
            return self.decode_session(case, replies)
        if k == "radix":
            r = replies[0]
            if r == "bad-request":
                raise ValueError(r)
            if r.startswith("err:"):
                return {"err": r, "rows": [[i, list(f)] for i, f in enumerate(case["fields"])]}
            order = [] if r == "_" else [int(x) for x in r.split(",")]
            return {"rows": [[i, list(case["fields"][i])] for i in order]}
        if k == "sliceidx":
            res = []
            for r in replies:
                if r == "err:value":
                    res.append(r)
                else:
                    res.append([int(x) for x in r.split(" ")])      # bad-request raises here
                    if len(res[-1]) != 3:
                        raise ValueError(r)
            return {"idx": res}
        src = self.track_dict(obs_rows(case["times"], names), names)
        if k == "ilog":
            return {"j": [int(x) for x in replies[0].split(",")]}
        if k == "index":
            ids = []
            for r in replies:
                if r.startswith("ok "):
                    ids.append(int(r[3:]))
                elif r.startswith("err:"):
                    ids.append(r)
                else:
                    raise ValueError(r)       # `fuel` / bad-request: never a default value
            return {"ids": ids, "src": src}
        r = replies[0]
        if r == "bad-request" or r == "fuel":
            raise ValueError(r)
        if k in ("insert", "sort"):
            if r.startswith("err:"):
                return {"err": r, "src": src}
            return {"src": self.untrack(*r.split(" "))}
        if k in ("makeodd", "makeeven", "setobs"):
            if r.startswith("err:"):
                return {"err": r, "src": src}
            return {"src": self.track_dict(self.untrack(r, "_")["pts"], names)}
        if k in ("first", "last"):
            if r.startswith("err:"):
                return {"err": r, "src": src}
            return {"ret": int(r), "src": src}
        if k == "split":
            if r.startswith("err:"):
                return {"err": r, "src": src}
            segs, tb = r.split(" ")
            return {"outs": [] if segs == "-" else [self.untrack(sg, tb) for sg in segs.split(";")], "src": src}
        if k == "removets":
            p, ret = r.split(" ")
            return {"ret": int(ret), "src": self.track_dict(self.untrack(p, "_")["pts"], names)}
        if k == "remove":
            p, ret = r.split(" ")
            after = self.track_dict(self.untrack(p, "_")["pts"], names)
            if ret.startswith("err:"):
                return {"err": ret, "src": after}
            return {"ret": int(ret), "src": after}
        if r.startswith("err:"):
            return {"err": r, "src": src}
        out = {"out": self.untrack(*r.split(" ")), "src": src}
        if k == "concat":
            out["src2"] = self.track_dict(obs_rows(case["times2"], case["names2"], 50), case["names2"])
        return out

    @staticmethod
    def _late_view(case, out):
        """sessions ending with a late creation: the model has no shared observations, so in that last step the RAW feature lists of
        the other tracks are left out of the comparison (what they read by name is compared)"""
        if not (case["ops"] and case["ops"][-1][0] == "create" and len(out.get("steps", [])) == len(case["ops"])):
            return out
        k = case["ops"][-1][1]
        last = out["steps"][-1]
        pool = [d if i == k else dict(d, pts=[r[:2] for r in d["pts"]]) for i, d in enumerate(last["pool"])]
        return dict(out, steps=out["steps"][:-1] + [dict(last, pool=pool)])

    def compare(self, case, impl_out, model_out):
        if impl_out == model_out:
            return None
        k = case["kind"]
        if k == "session" and "init" in impl_out and self._late_view(case, impl_out) == self._late_view(case, model_out):
            return None
        if k == "session" and "init" in impl_out and impl_out["init"] == model_out.get("init"):
            # freedom left by the property: the order of EQUAL timestamps after sort() (numpy's sort is not stable beyond 16
            # elements, the model's is). When the first difference is such a sort, the implementation's whole session is validated
            # by the oracle instead of being compared with the model's choice.
            for j, (a, b) in enumerate(zip(impl_out["steps"], model_out["steps"])):
                if a != b:
                    op = case["ops"][j]
                    if op[0] == "sort" and a["out"] == b["out"] == "done" and len(a["pool"]) == len(b["pool"]):
                        same_but = all(x == y for i, (x, y) in enumerate(zip(a["pool"], b["pool"])) if i != op[1])
                        ta, tb = a["pool"][op[1]], b["pool"][op[1]]
                        if same_but and sorted(ta["pts"]) == sorted(tb["pts"]) and ta["names"] == tb["names"] and ta["cols"] == tb["cols"] \
                                and len(set(r[1] for r in ta["pts"])) < len(ta["pts"]) and self.spec(case, impl_out) is None:
                            return None
                    break
        # freedom left by the property: the place of the new observation among EQUAL timestamps, the order of equal
        # timestamps after sort -> the implementation's answer is validated by the spec, not required to equal the model's
        if k == "sort" and "err" not in impl_out and len(set(case["times"])) < len(case["times"]):
            if self.spec(case, impl_out) is None:
                return None
        if k == "insert" and "err" not in impl_out and nondecreasing(case["times"]) and case["ts"] in case["times"]:
            if self.spec(case, impl_out) is None:
                return None
        if k == "index" and nondecreasing(case["times"]) and impl_out.get("src") == model_out.get("src"):
            bad = [i for i, (a, b) in enumerate(zip(impl_out["ids"], model_out["ids"])) if a != b and case["tss"][i] not in case["times"]]
            if not bad and self.spec(case, impl_out) is None:
                return None
        return "impl=%s model=%s" % (str(impl_out)[:300], str(model_out)[:300])


    # ================================================================ sessions: operators applied in sequence
    # case = {"kind": "session", "tracks": [{"times": [...], "hist": [["c", "f"], ["d", "f"], ...]}, ...], "ops": [[name, k, args...], ...]}
    # The k-th initial track holds the observations tagged 100k, 100k+1, ...; its features are created / removed in the order
    # of `hist` through createAnalyticalFeature / removeAnalyticalFeature (so the column layout is whatever the code makes it).
    # An operator designates its operand(s) by position in the pool; a track it returns is appended to the pool.
    # The session stops at the first operation that raises.
    def new_obs(self, tr, tag, t):
        """a new observation for `tr`: it holds s_val(tag, nm) for every name, laid out as the track lists its names"""
        o = self.Obs(self.ENU(float(tag), 2.0 * tag + 0.5, -float(tag)), self.TS(t))
        o.features = [s_val(tag, nm) for nm in tr.getListAnalyticalFeatures()]
        return o

    @staticmethod
    def obs_tag(o):
        x = o.position.getX()
        return int(x) if x == int(x) else "bad-position:%r" % x

    def build_session(self, case):
        pool = []
        for k, sp in enumerate(case["tracks"]):
            n = len(sp["times"])
            tr = self.Track([self.mk_obs(s_tag(k, i), v, []) for i, v in enumerate(sp["times"])])
            gen = 0
            for a, nm in sp["hist"]:
                if a == "c":
                    tr.createAnalyticalFeature(nm, [s_val(s_tag(k, i), nm, gen) for i in range(n)])
                    gen += 1
                else:
                    tr.removeAnalyticalFeature(nm)
            pool.append(tr)
        return pool

    def apply_op(self, pool, op):
        kind, tr = op[0], pool[op[1]]
        if kind == "extract":
            pool.append(tr.extract(op[2], op[3]))
        elif kind == "span":
            pool.append(tr.extractSpanTime(self.TS(op[2]), self.TS(op[3])))
        elif kind == "spantrack":
            pool.append(tr.extractSpanTime(pool[op[2]]))
        elif kind == "add":
            pool.append(tr + pool[op[2]])
        elif kind == "step":
            pool.append(tr % op[2])
        elif kind == "pattern":
            pool.append(tr % [bool(b) for b in op[2]])
        elif kind == "gt":
            pool.append(tr > op[2])
        elif kind == "lt":
            pool.append(tr < op[2])
        elif kind == "slice":
            pool.append(tr[slice(op[2], op[3], op[4])])
        elif kind == "sort":
            tr.sort()
        elif kind == "insert":
            tr.insertObs(self.new_obs(tr, op[2], op[3]))
        elif kind == "insertat":
            tr.insertObs(self.new_obs(tr, op[3], op[4]), op[2])
        elif kind == "addobs":
            tr.addObs(self.new_obs(tr, op[2], op[3]))
        elif kind == "remove":
            return ["count", tr.removeObsList(list(op[2]))]
        elif kind == "removeobs":
            return ["count", tr.removeObs(op[2])]
        elif kind == "removefirst":
            return ["count", tr.removeFirstObs()]
        elif kind == "removelast":
            return ["count", tr.removeLastObs()]
        elif kind == "pop":
            return ["obs", self.obs_tag(tr.popObs(op[2]))]
        elif kind == "get":
            return ["obs", self.obs_tag(tr[op[2]])]
        elif kind == "read":
            return ["value", self.read(tr, op[2], op[3], op[4])]
        elif kind == "column":
            return ["values", list(tr[op[2]])]
        elif kind == "create":
            tr.createAnalyticalFeature(LATE, LATE_VAL)
        else:
            raise ValueError(kind)
        return "done"

    def impl_session(self, case):
        pool = self.build_session(case)
        out = {"init": [self.dump(t) for t in pool], "steps": []}
        for op in case["ops"]:
            try:
                o = self.apply_op(pool, op)
            except BaseException as e:
                if isinstance(e, KeyboardInterrupt):
                    raise
                o = err_kind(e)
            out["steps"].append({"out": o, "pool": [self.dump(t) for t in pool]})
            if isinstance(o, str) and o.startswith("err:"):
                break
        return out

    @staticmethod
    def build_ops(case):
        ops = []
        for k, sp in enumerate(case["tracks"]):
            n, gen = len(sp["times"]), 0
            for a, nm in sp["hist"]:
                if a == "c":
                    ops.append("create/%d/%s/%s" % (k, nm, ",".join(str(s_val(s_tag(k, i), nm, gen)) for i in range(n)) or "_"))
                    gen += 1
                else:
                    ops.append("delete/%d/%s" % (k, nm))
        return ops

    @staticmethod
    def enc_op(op):
        kind, k = op[0], op[1]
        oi = lambda v: "N" if v is None else str(v)
        vals = lambda tag: ",".join("%s=%d" % (nm, s_val(tag, nm)) for nm in NAMES)
        if kind in ("extract", "span"):
            return "%s/%d/%d/%d" % (kind, k, op[2], op[3])
        if kind in ("spantrack", "add", "step", "gt", "lt", "removeobs", "pop", "get"):
            return "%s/%d/%d" % (kind, k, op[2])
        if kind == "pattern":
            return "pattern/%d/%s" % (k, "".join(map(str, op[2])) or "_")
        if kind == "slice":
            return "slice/%d/%s/%s/%s" % (k, oi(op[2]), oi(op[3]), oi(op[4]))
        if kind in ("sort", "removefirst", "removelast"):
            return "%s/%d" % (kind, k)
        if kind in ("insert", "addobs"):
            return "%s/%d/%d/%d/%s" % (kind, k, op[2], op[3], vals(op[2]))
        if kind == "insertat":
            return "insertat/%d/%d/%d/%d/%s" % (k, op[2], op[3], op[4], vals(op[3]))
        if kind == "remove":
            return "remove/%d/%s" % (k, ",".join(map(str, op[2])) or "_")
        if kind == "read":
            return "read/%d/%s/%d" % (k, op[2], op[3])
        if kind == "column":
            return "column/%d/%s" % (k, op[2])
        if kind == "create":
            return "create/%d/%s/%s" % (k, LATE, ",".join([str(LATE_VAL)] * 80))
        raise ValueError(kind)

    def requests_session(self, case):
        tracks = ";".join("T" + self.tok_pts([[s_tag(k, i), v] for i, v in enumerate(sp["times"])]) for k, sp in enumerate(case["tracks"]))
        ops = self.build_ops(case) + [self.enc_op(op) for op in case["ops"]]
        return ["C04.session %s %s" % (tracks or "_", ";".join(ops) or "_")]

    def decode_session(self, case, replies):
        r = replies[0]
        if r == "bad-request":
            raise ValueError(r)
        nbuild = len(self.build_ops(case))
        pool = [{"pts": [[s_tag(k, i), v] for i, v in enumerate(sp["times"])], "names": [], "cols": [], "reads": {}} for k, sp in enumerate(case["tracks"])]
        out = {"steps": []}
        steps = [] if r == "_" else r.split(";")
        if len(steps) != nbuild + len(case["ops"]) and not (steps and steps[-1].startswith("err:")):
            raise ValueError("%d steps for %d operations" % (len(steps), nbuild + len(case["ops"])))

        def rd(x):
            return int(x[1:]) if x[0] == "v" else x
        for j, st in enumerate(steps):
            o, k, p, tb, reads = st.split("|")
            if k != "-":
                d = self.untrack(p, tb)
                d["reads"] = {}
                if reads != "_":
                    for part in reads.split("+"):
                        nm, vs = part.split("=")
                        d["reads"][nm] = [] if vs == "_" else [rd(x) for x in vs.split(",")]
                pool = list(pool)
                if int(k) == len(pool):
                    pool.append(d)
                else:
                    pool[int(k)] = d
            if j < nbuild:
                if o != "done":
                    raise ValueError("the model refuses the construction step %d: %s" % (j, o))
                if j == nbuild - 1:
                    out["init"] = pool
                continue
            if o.startswith("count=") or o.startswith("obs="):
                o = [o.split("=")[0], int(o.split("=")[1])]
            elif o.startswith("value="):
                o = ["value", rd(o[6:])]
            elif o.startswith("values="):
                vs = [] if o[7:] == "_" else [rd(x) for x in o[7:].split(",")]
                o = "err:index" if "I" in vs else ["values", vs]
            out["steps"].append({"out": o, "pool": pool})
            if isinstance(o, str) and o.startswith("err:"):
                break
        if nbuild == 0:
            out["init"] = [{"pts": [[s_tag(k, i), v] for i, v in enumerate(sp["times"])], "names": [], "cols": [], "reads": {}} for k, sp in enumerate(case["tracks"])]
        return {"init": out["init"], "steps": out["steps"]}

    # ---- what an operator designates (plain Python on lists: independent of tracklib)
    @staticmethod
    def designate(op, ids, other=None):
        """the observations (as [tag, time]) that the operator's arguments designate on a track holding `ids`, or None when the
        arguments designate nothing the property speaks of (negative counts, an index of no observation, zero step, ...)"""
        kind, n = op[0], len(ids)
        if kind == "extract":
            a, b = op[2], op[3]
            return (ids[a:b + 1] if a <= b else []) if (0 <= a and b < n) else None
        if kind == "span":
            lo, hi = min(op[2], op[3]), max(op[2], op[3])
            return [r for r in ids if lo <= r[1] <= hi]
        if kind == "spantrack":
            if not other:
                return None
            lo, hi = min(other[0][1], other[-1][1]), max(other[0][1], other[-1][1])
            return [r for r in ids if lo <= r[1] <= hi]
        if kind == "add":
            return ids + other
        if kind == "step":
            return [r for i, r in enumerate(ids) if i % op[2] == 0] if op[2] >= 1 else None
        if kind == "pattern":
            pat = op[2]
            return [r for i, r in enumerate(ids) if pat[i % len(pat)]] if pat else ([] if n == 0 else None)
        if kind == "gt":
            return ids[op[2]:] if op[2] >= 0 else None
        if kind == "lt":
            return ids[:max(0, n - op[2])] if op[2] >= 0 else None
        if kind == "slice":
            return ids[slice(op[2], op[3], op[4])] if (op[4] is None or op[4] >= 1) else None
        raise ValueError(kind)

    def spec_session(self, case, out):
        if "init" not in out:
            return "the session raised %s %s" % (out.get("err"), out.get("detail", ""))
        own = {}
        for k, sp in enumerate(case["tracks"]):
            names, gen = s_layout(sp["hist"])
            d = out["init"][k]
            want = [[s_tag(k, i), v] for i, v in enumerate(sp["times"])]
            if [r[:2] for r in d["pts"]] != want or d["names"] != names:
                return "initial track %d (history %s) is %s" % (k, sp["hist"], d)
            for i in range(len(want)):
                own[s_tag(k, i)] = {nm: s_val(s_tag(k, i), nm, gen[nm]) for nm in names}
        for op in case["ops"]:
            tag = {"insert": 2, "addobs": 2, "insertat": 3}.get(op[0])
            if tag is not None:
                own[op[tag]] = {nm: s_val(op[tag], nm) for nm in NAMES}

        def ownf(tag, nm):
            return LATE_VAL if nm == LATE else own.get(tag, {}).get(nm)
        for k, d in enumerate(out["init"]):
            m = self.reads_own(d, ownf, "initial track %d" % k)
            if m:
                return m
        pool = out["init"]
        for j, st in enumerate(out["steps"]):
            m = self.spec_step(case["ops"][j], pool, st, ownf)
            if m:
                return "operation %d %s: %s" % (j, case["ops"][j], m)
            pool = st["pool"]
        return None

    def spec_step(self, op, pre, st, ownf):
        kind, k = op[0], op[1]
        o, post = st["out"], st["pool"]
        src = pre[k]
        ids = [r[:2] for r in src["pts"]]
        n = len(ids)
        err = isinstance(o, str) and o.startswith("err:")

        def unchanged(skip=None):
            for i, d in enumerate(pre):
                if i != skip and (i >= len(post) or post[i] != d):
                    return "track %d of the pool was modified: %s became %s" % (i, d, post[i] if i < len(post) else None)
            return None
        if kind in NEW_OPS:
            m = unchanged()
            if m:
                return m
            other = [r[:2] for r in pre[op[2]]["pts"]] if kind in ("add", "spantrack") else None
            want = self.designate(op, ids, other)
            if want is None:
                return None
            if err:
                return "raised %s on a track of %d observations" % (o, n)
            if len(post) != len(pre) + 1:
                return "no track was returned"
            res = post[-1]
            if [r[:2] for r in res["pts"]] != want:
                return "on %s returns %s, designated: %s" % (ids, [r[:2] for r in res["pts"]], want)
            m = self.reads_own(res, ownf, "the result")
            if m:
                return m
            if kind == "add" and src["names"] != pre[op[2]]["names"]:
                return None        # different feature tables: which table the sum carries is not specified
            if res["names"] != src["names"]:
                return "returns the feature-name table %s instead of %s" % (res["names"], src["names"])
            return None
        if len(post) != len(pre):
            return "the pool has %d tracks instead of %d" % (len(post), len(pre))
        if kind == "create":
            # a feature created on ONE track afterwards: no other track may list it (the tables are copies), and every track reads as
            # before under the names it lists. (Observations are shared between a track and the tracks extracted from it: their raw
            # feature lists do grow, which no read by name can see.)
            view = lambda d: ([r[:2] for r in d["pts"]], d["names"], d["reads"])
            for i, d in enumerate(pre):
                if i != k and view(post[i]) != view(d):
                    return "track %d of the pool was modified: %s became %s" % (i, view(d), view(post[i]))
            if n == 0 or LATE in src["names"]:
                return None
            if any(len(r) - 2 != len(src["names"]) for r in src["pts"]):
                # the track already holds observations with more columns than names (a sum of tracks with different features has
                # an empty table, the columns stay): what a creation does there is C01's subject, not this property's
                return None
            if err:
                return "createAnalyticalFeature raised %s" % o
            res = post[k]
            if [r[:2] for r in res["pts"]] != ids or res["names"] != src["names"] + [LATE]:
                return "the track became %s" % (view(res),)
            return self.reads_own(res, ownf, "the track after the creation")
        if kind in READ_OPS:
            m = unchanged()
            if m:
                return m
            if kind == "get":
                i = op[2]
                if -n <= i < n:
                    return None if o == ["obs", ids[i][0]] else "track[%d] on %s gives %s" % (i, ids, o)
                return None
            if kind == "read":
                nm, i = op[2], op[3]
                if nm in src["names"] and -n <= i < n:
                    w = ownf(ids[i][0], nm)
                    return None if (o == ["value", w] and not isinstance(o[1], bool)) else "observation %s reads %s = %s, its own value is %s" % (ids[i][0], nm, o, w)
                return None
            if kind == "column":
                nm = op[2]
                if nm in src["names"]:
                    w = [ownf(r[0], nm) for r in ids]
                    return None if o == ["values", w] else "track[%r] gives %s, the observations hold %s" % (nm, o, w)
                return None
        # ---- in-place operations
        m = unchanged(skip=k)
        if m:
            return m
        res = post[k]
        got = [r[:2] for r in res["pts"]]
        if res["names"] != src["names"]:
            return "the feature-name table changed from %s to %s" % (src["names"], res["names"])
        m = self.reads_own(res, ownf, "the track after the operation")
        if m:
            return m
        if kind == "sort":
            if err:
                return "sort raised %s" % o
            if sorted(got) != sorted(ids):
                return "sort of %s gives %s: not the same observations" % (ids, got)
            if not nondecreasing([r[1] for r in got]):
                return "sort of %s gives the times %s" % (ids, [r[1] for r in got])
            return None
        if kind in ("insert", "insertat", "addobs"):
            new = [op[3], op[4]] if kind == "insertat" else [op[2], op[3]]
            if err:
                return "raised %s" % o
            if got.count(new) != 1 or [r for r in got if r != new] != ids or len(got) != n + 1:
                return "on %s gives %s: not the old observations in order plus the new one" % (ids, got)
            if kind == "insert" and nondecreasing([r[1] for r in ids]) and not nondecreasing([r[1] for r in got]):
                return "insertion of t=%d into the sorted times %s gives %s" % (new[1], [r[1] for r in ids], [r[1] for r in got])
            if kind == "addobs" and got != ids + [new]:
                return "addObs gives %s" % got
            if kind == "insertat" and 0 <= op[2] <= n and got != ids[:op[2]] + [new] + ids[op[2]:]:
                return "insertObs(obs, %d) on %s gives %s" % (op[2], ids, got)
            return None
        idx = list(op[2]) if kind == "remove" else [0] if kind == "removefirst" else [n - 1] if kind == "removelast" else [op[2]]
        if any(not 0 <= i < n for i in idx):
            # no such observation: outside the property's scope, only require that nothing is corrupted
            return None if is_subsequence(got, ids) else "on %s leaves %s" % (ids, got)
        if err:
            return "raised %s on %d observations" % (o, n)
        want = [r for i, r in enumerate(ids) if i not in idx]
        if len(set(idx)) < len(idx):
            if (got == ids and o == ["count", 0]) or got == want:
                return None
            return "removal of %s on %s leaves %s" % (idx, ids, got)
        if got != want:
            return "removal of %s on %s leaves %s, the other observations are %s" % (idx, ids, got, want)
        if kind == "pop":
            return None if o == ["obs", ids[idx[0]][0]] else "popObs(%d) on %s returned %s" % (idx[0], ids, o)
        if o != ["count", len(idx)]:
            return "removal of %s returned %s" % (idx, o)
        return None

    # ================================================================ sortRadix
    @staticmethod
    def radix_digits(f):
        y, mo, d, h, mi, sec, ms = f
        return [sec * 1000 + ms, mi, h, d - 1, mo - 1, y]

    def impl_radix(self, case):
        obs = [self.Obs(self.ENU(float(i), 2.0 * i + 0.5, -float(i)), self.ObsTime(*f)) for i, f in enumerate(case["fields"])]
        tr = self.Track(obs)
        out = {}
        try:
            tr.sortRadix()
        except BaseException as e:
            if isinstance(e, KeyboardInterrupt):
                raise
            out["err"] = err_kind(e)
        rows = []
        for o in tr.getObsList():
            t = o.timestamp
            rows.append([self.obs_tag(o), [t.year, t.month, t.day, t.hour, t.min, t.sec, t.ms]])
        out["rows"] = rows
        return out

    def spec_radix(self, case, out):
        fields = [list(f) for f in case["fields"]]
        rows = out.get("rows")
        if rows is None:
            return "sortRadix raised %s" % out.get("err")
        if any(not (isinstance(r[0], int) and 0 <= r[0] < len(fields) and r[1] == fields[r[0]]) for r in rows):
            return "sortRadix altered an observation: %s" % rows
        if "err" in out:
            return "sortRadix raised %s on %s" % (out["err"], fields)
        if sorted(r[0] for r in rows) != list(range(len(fields))):
            return "sortRadix of %s gives %s: not the same observations" % (fields, rows)
        if not nondecreasing([r[1] for r in rows]):
            return "sortRadix of %s gives the times %s" % (fields, [r[1] for r in rows])
        return None

    # ---------------------------------------------------------------- oracle (transfer)
    @staticmethod
    def own_single(case):
        """single-operator cases: the value observation `tag` holds for feature `nm` (None = it has no such feature)"""
        names, names2 = list(case.get("names", [])), list(case.get("names2", []))
        concat = case["kind"] == "concat"

        def own(tag, nm):
            ns = names2 if (concat and 50 <= tag < NEW_TAG) else names
            return 10 * tag + ns.index(nm) if nm in ns else None
        return own

    @staticmethod
    def reads_own(d, own, what):
        """every observation of the dumped track reads, under every name the track lists, the value it holds for that name"""
        for nm in d["names"]:
            col = d.get("reads", {}).get(nm)
            if col is None or len(col) != len(d["pts"]):
                return "%s lists feature %r but its reads are %r" % (what, nm, col)
            for r, v in zip(d["pts"], col):
                w = own(r[0], nm)
                if w is None:
                    return "%s lists feature %r, which observation %s does not have (read gives %r)" % (what, nm, r[0], v)
                if v != w or isinstance(v, bool):
                    return "%s: observation %s reads %s = %r, its own value is %r" % (what, r[0], nm, v, w)
        return None

    def spec(self, case, out):
        k = case["kind"]
        if k == "ilog":
            if "err" in out:
                return "log expression raised %s" % out["err"]
            for N, j in zip(range(case["lo"], case["hi"]), out["j"]):
                if N >= 2 and not (j >= 1 and 2 ** j <= N):
                    return "(int)(log(%d)/log(2)) = %d: the first step 2^(j-1) does not satisfy 2*2^(j-1) <= N" % (N, j)
            return None
        if k == "session":
            return self.spec_session(case, out)
        if k == "radix":
            return self.spec_radix(case, out)
        if k == "sliceidx":
            # CPython against itself on an actual list (small lengths): the positions start, start+step, ... are what L[a:b:c] holds
            n = case["len"]
            for (a, b, c), r in zip(case["args"], out["idx"]):
                if (c == 0) != (r == "err:value"):
                    return "slice(%s,%s,%s).indices(%d) gives %s" % (a, b, c, n, r)
                if c != 0 and n <= 64 and [r[0] + j * c for j in range(r[2])] != list(range(n))[a:b:c]:
                    return "slice(%s,%s,%s).indices(%d) = %s does not designate what L[a:b:c] holds" % (a, b, c, n, r)
            return None
        names = list(case.get("names", []))
        rows = obs_rows(case["times"], names)
        n = len(rows)
        src = out.get("src")
        inplace = k in ("insert", "sort", "remove", "makeodd", "makeeven", "setobs", "removets")
        if src is None:
            return "raised %s" % out.get("err")
        if src["names"] != names:
            return "feature-name table of the track changed from %s to %s" % (names, src["names"])
        if not inplace and src["pts"] != rows:
            return "the source track was modified: %s became %s" % (rows, src["pts"])
        own = self.own_single(case)
        m = self.reads_own(src, own, "the track after the operation" if inplace else "the source track")
        if m:
            return m
        if k == "index":
            for ts, r in zip(case["tss"], out["ids"]):
                if not isinstance(r, int):
                    return "__getInsertionIndex(%d) on times %s raised %s" % (ts, case["times"], r)
                if not 0 <= r <= n:
                    return "__getInsertionIndex(%d) on %d observations returned %d" % (ts, n, r)
                if nondecreasing(case["times"]):
                    lo = sum(1 for t in case["times"] if t < ts)
                    hi = sum(1 for t in case["times"] if t <= ts)
                    if not lo <= r <= hi:
                        return "__getInsertionIndex(%d) on sorted times %s returned %d, a sorted insertion needs %d..%d" % (ts, case["times"], r, lo, hi)
            return None
        if k == "insert":
            if "err" in out:
                return "insertObs(t=%d) on times %s raised %s" % (case["ts"], case["times"], out["err"])
            new = [NEW_TAG, case["ts"]] + feats(NEW_TAG, names)
            got = src["pts"]
            if got.count(new) != 1 or [r for r in got if r != new] != rows or len(got) != n + 1:
                return "insertObs(t=%d) on %s gives %s: not the old observations in order plus the new one" % (case["ts"], rows, got)
            if nondecreasing(case["times"]) and not nondecreasing([r[1] for r in got]):
                return "insertObs(t=%d) into the sorted track %s gives the unsorted times %s" % (case["ts"], case["times"], [r[1] for r in got])
            return None
        if k == "sort":
            if "err" in out:
                return "sort raised %s" % out["err"]
            got = src["pts"]
            if sorted(got) != sorted(rows):
                return "sort of %s gives %s: not the same observations" % (rows, got)
            if not nondecreasing([r[1] for r in got]):
                return "sort of times %s gives %s" % (case["times"], [r[1] for r in got])
            return None
        if k == "remove":
            idx = case["idx"]
            got = src["pts"]
            if any(not 0 <= i < n for i in idx):
                # outside the property's scope (no such observation): only require that nothing is corrupted
                return None if is_subsequence(got, rows) else "removeObsList(%s) on %s leaves %s" % (idx, rows, got)
            if "err" in out:
                return "removeObsList(%s) on %d observations raised %s" % (idx, n, out["err"])
            want = [r for i, r in enumerate(rows) if i not in idx]
            if len(set(idx)) < len(idx):
                # a repeated index is refused by the code (nothing removed, 0 returned); removing the designated ones is fine too
                if (got == rows and out.get("ret") == 0) or got == want:
                    return None
                return "removeObsList(%s) on %s leaves %s" % (idx, rows, got)
            if got != want:
                return "removeObsList(%s) on %s leaves %s, the other observations are %s" % (idx, rows, got, want)
            if out.get("ret") != len(idx):
                return "removeObsList(%s) returned %s" % (idx, out.get("ret"))
            return None
        if k in self.MORE_KINDS:
            return self.spec_more(case, out, rows, names, own)
        # ---- operators returning a new track
        want = None
        if k == "extract":
            a, b = case["a"], case["b"]
            if 0 <= a and b < n:
                want = rows[a:b + 1] if a <= b else []
            what = "extract(%d,%d)" % (a, b)
        elif k == "span":
            lo, hi = min(case["t1"], case["t2"]), max(case["t1"], case["t2"])
            want = [r for r in rows if lo <= r[1] <= hi]
            what = "extractSpanTime(%d,%d)" % (case["t1"], case["t2"])
        elif k == "concat":
            rows2 = obs_rows(case["times2"], case["names2"], 50)
            want = rows + rows2
            what = "+"
            s2 = out.get("src2")
            if s2 is not None and (s2["pts"] != rows2 or s2["names"] != list(case["names2"]) or self.reads_own(s2, own, "t2")):
                return "+ modified its right operand: %s" % s2
        elif k == "step":
            if case["n"] >= 1:
                want = [r for i, r in enumerate(rows) if i % case["n"] == 0]
            what = "%% %d" % case["n"]
        elif k == "pattern":
            pat = case["pat"]
            if pat:
                want = [r for i, r in enumerate(rows) if pat[i % len(pat)]]
            elif n == 0:
                want = []
            what = "%% %s" % pat
        elif k == "gt":
            if case["n"] >= 0:
                want = rows[case["n"]:]
            what = "> %d" % case["n"]
        elif k == "lt":
            if case["n"] >= 0:
                want = rows[:max(0, n - case["n"])]
            what = "< %d" % case["n"]
        if want is None:
            return None               # argument outside the property's scope (negative count, index of no observation, zero step)
        if "err" in out:
            return "%s on %d observations raised %s" % (what, n, out["err"])
        got = out["out"]
        if got["pts"] != want:
            return "%s on %s returns %s, designated: %s" % (what, rows, got["pts"], want)
        # whatever feature names the result lists, every observation reads ITS OWN value under each of them
        m = self.reads_own(got, own, "the result of " + what)
        if m:
            return m
        if k == "concat" and names != list(case["names2"]):
            return None               # different feature tables: which table the sum carries is not specified
        if got["names"] != names:
            return "%s returns the feature-name table %s instead of %s" % (what, got["names"], names)
        return None

    def spec_more(self, case, out, rows, names, own):
        """the remaining list operations (not named by the property's statement: the oracle asks what their docstring / name designates,
        and nothing where the arguments designate no observation)"""
        k, n, got = case["kind"], len(rows), out["src"]["pts"]
        if k == "reverse":
            if "err" in out:
                return "reverse() raised %s" % out["err"]
            res = out["out"]
            if res["pts"] != rows[::-1]:
                return "reverse() of %s returns %s" % (rows, res["pts"])
            if res["names"] != names:
                return "reverse() returns the feature-name table %s instead of %s" % (res["names"], names)
            return self.reads_own(res, own, "the result of reverse()")
        if k in ("makeodd", "makeeven"):
            if n == 0 and k == "makeodd":
                return None if got == rows else "makeOdd() on the empty track leaves %s" % got      # nothing to drop: outside the scope
            if "err" in out:
                return "%s raised %s on %d observations" % (k, out["err"], n)
            want = rows if n % 2 == (1 if k == "makeodd" else 0) else rows[:-1]
            return None if got == want else "%s on %s leaves %s" % (k, rows, got)
        if k == "setobs":
            i = case["i"]
            if not 0 <= i < n:
                return None if (len(got) == n and sum(1 for a, b in zip(got, rows) if a != b) <= 1) else "setObs(%d) on %s leaves %s" % (i, rows, got)
            if "err" in out:
                return "setObs(%d) on %d observations raised %s" % (i, n, out["err"])
            new = [NEW_TAG, case["ts"]] + feats(NEW_TAG, names)
            want = rows[:i] + [new] + rows[i + 1:]
            return None if got == want else "setObs(%d) on %s leaves %s" % (i, rows, got)
        if k in ("first", "last"):
            if n == 0:
                return None
            if "err" in out:
                return "%s raised %s on %d observations" % (k, out["err"], n)
            w = rows[0][0] if k == "first" else rows[-1][0]
            return None if out.get("ret") == w else "get%sObs() on %s returns observation %s" % (k.capitalize(), rows, out.get("ret"))
        if k == "split":
            number = case["n"]
            if number < 1:
                return None
            if "err" in out:
                return "track / %d raised %s on %d observations" % (number, out["err"], n)
            outs = out["outs"]
            if len(outs) != number:
                return "track / %d returns %d segments" % (number, len(outs))
            cat = [r for d in outs for r in d["pts"]]
            if not is_subsequence(cat, rows) or len(cat) > n:
                return "track / %d on %s returns the segments %s: not consecutive parts of the track" % (number, rows, [d["pts"] for d in outs])
            for j, d in enumerate(outs):
                if d["names"] != names:
                    return "segment %d of track / %d has the feature-name table %s instead of %s" % (j, number, d["names"], names)
                m = self.reads_own(d, own, "segment %d of track / %d" % (j, number))
                if m:
                    return m
            return None
        if k == "removets":
            ts = case["ts"]
            if "err" in out:
                return "removeObsList(timestamps %s) raised %s" % (ts, out["err"])
            if not is_subsequence(got, rows):
                return "removeObsList(timestamps %s) on %s leaves %s" % (ts, rows, got)
            if len(set(ts)) < len(ts):
                return None       # a repeated timestamp is refused by the code (nothing removed); removing is fine too
            left = list(got)
            gone = []
            for r in rows:
                if left and left[0] == r:
                    left.pop(0)
                else:
                    gone.append(r)
            if any(r[1] not in ts for r in gone):
                return "removeObsList(timestamps %s) on %s removed %s" % (ts, rows, gone)
            if any(t in [r[1] for r in rows] and t not in [r[1] for r in gone] for t in ts):
                return "removeObsList(timestamps %s) on %s removed only %s" % (ts, rows, gone)
            if out.get("ret") != len(gone):
                return "removeObsList(timestamps %s) removed %d observations and returned %s" % (ts, len(gone), out.get("ret"))
            return None
        raise ValueError(k)

    # ---------------------------------------------------------------- shrinking / search
    def shrink_session(self, case):
        ops, tracks = case["ops"], case["tracks"]
        for j in range(1, len(ops)):                      # a prefix
            yield dict(case, ops=ops[:j])
        for j in range(len(ops) - 1):                     # drop an operation that creates no track
            if ops[j][0] not in NEW_OPS:
                yield dict(case, ops=ops[:j] + ops[j + 1:])
        used = {0} | {op[1] for op in ops} | {op[2] for op in ops if op[0] in ("add", "spantrack")}
        for k in range(len(tracks) - 1, -1, -1):          # drop an initial track nobody designates
            if k not in used:
                sh = lambda i: i - 1 if i > k else i
                new_ops = [[op[0], sh(op[1])] + ([sh(op[2])] if op[0] in ("add", "spantrack") else list(op[2:3])) + list(op[3:]) for op in ops]
                yield dict(case, tracks=tracks[:k] + tracks[k + 1:], ops=new_ops)
        for k, sp in enumerate(tracks):
            if sp["hist"]:
                for j in range(len(sp["hist"])):
                    h = sp["hist"][:j] + sp["hist"][j + 1:]
                    names = []
                    ok = True
                    for a, nm in h:                         # a removal must still find its feature
                        if a == "d" and nm not in names:
                            ok = False
                        elif a == "d":
                            names.remove(nm)
                        elif nm not in names:
                            names.append(nm)
                    if ok:
                        yield dict(case, tracks=tracks[:k] + [dict(sp, hist=h)] + tracks[k + 1:])
            if len(sp["times"]) > 1:
                yield dict(case, tracks=tracks[:k] + [dict(sp, times=sp["times"][:-1])] + tracks[k + 1:])

    def shrink(self, case):
        if case["kind"] == "session":
            yield from self.shrink_session(case)
            return
        if case["kind"] == "radix":
            fs = case["fields"]
            for i in range(len(fs)):
                yield dict(case, fields=fs[:i] + fs[i + 1:], times=[0] * (len(fs) - 1))
            return
        if case["kind"] == "ilog":
            if case["hi"] - case["lo"] > 1:
                mid = (case["lo"] + case["hi"]) // 2
                yield dict(case, hi=mid)
                yield dict(case, lo=mid)
            return
        times = case["times"]
        n = len(times)
        k = case["kind"]
        if k == "index" and len(case["tss"]) > 1:
            for ts in case["tss"]:
                yield dict(case, tss=[ts])
        for i in range(n):
            c = dict(case, times=times[:i] + times[i + 1:])
            if k == "remove":
                c["idx"] = [j - (j > i) for j in case["idx"] if j != i]
            if k == "extract":
                c["a"] = case["a"] - (case["a"] > i)
                c["b"] = case["b"] - (case["b"] >= i and case["b"] > 0)
            yield c
        if k == "remove":
            for i in range(len(case["idx"])):
                yield dict(case, idx=case["idx"][:i] + case["idx"][i + 1:])
        if k == "pattern" and len(case["pat"]) > 1:
            for i in range(len(case["pat"])):
                yield dict(case, pat=case["pat"][:i] + case["pat"][i + 1:])
        if k in ("step", "gt", "lt") and case["n"] > 1:
            yield dict(case, n=case["n"] - 1)
        if case.get("names"):
            yield dict(case, names=[], **({"names2": []} if k == "concat" else {}))
        vals = sorted(set(times))
        if vals and vals != list(range(1, 2 * len(vals), 2)):
            m = {v: 2 * i + 1 for i, v in enumerate(vals)}   # compress the time values, keeping room for 'between'
            c = dict(case, times=[m[v] for v in times])
            if k in ("insert", "index", "span"):
                def sq(ts):
                    below = [v for v in vals if v <= ts]
                    return 0 if not below else (m[below[-1]] if below[-1] == ts else m[below[-1]] + 1)
                if k == "insert":
                    c["ts"] = sq(case["ts"])
                elif k == "index":
                    c["tss"] = [sq(t) for t in case["tss"]]
                else:
                    c["t1"], c["t2"] = sq(case["t1"]), sq(case["t2"])
            yield c

    def mutate(self, case, rng):
        k = case["kind"]
        if k in ("session", "radix"):
            return
        times = case["times"]
        if k == "concat":
            for t1 in ([], [1, 3]):
                for t2 in ([5], [3, 7]):
                    yield dict(case, times=t1, times2=t2)
        if k in ("insert", "index"):
            st = sorted(times)
            tss = sorted(set([t + d for t in st for d in (-1, 0, 1)] + [0]))
            yield {"kind": "index", "times": st, "tss": tss}
            for ts in tss[:40]:
                yield {"kind": "insert", "times": st, "names": ["f"], "ts": ts}
        if k == "sort":
            for _ in range(20):
                t = list(times)
                rng.shuffle(t)
                yield dict(case, times=t)
        if k in ("step", "gt", "lt"):
            for d in range(0, len(times) + 3):
                yield dict(case, n=d)
        if k == "extract":
            for a in range(len(times)):
                for b in range(len(times)):
                    yield dict(case, a=a, b=b)


# ---- tie to the source by translation (tools/py2lean.py -> lean/TracklibVerif/Gen/Track.lean, regenerated on every run)
P.tie_modules = ["TracklibVerif.Tie.C04"]
P.theorems = P.theorems + [
    ("TracklibVerif.Tie.C04", "TV.Tie.C04.tie_getInsertionIndex_exactFuel", "N >= 2, EVERY fuel: the Lean translation of the CURRENT source of Track.__getInsertionIndex (dichotomy while loop with continue/break, the two correction loops, Python negative indexing, 2 ** (int(log N / log 2) - 1) under the contract int(log N / log 2) = ilog2 N) equals the model's three loops searchLoop / fixLeft / fixRight each run with that fuel: same index, IndexError <-> indexErr, out of fuel <-> outOfFuel"),
    ("TracklibVerif.Tie.C04", "TV.Tie.C04.tie_getInsertionIndex", "for EVERY fuel >= ilog2 N - 1 + N + 3 (the largest of the model's three fuels), whenever the model is not out of fuel, the translated __getInsertionIndex returns the index of the model Seq.insertionIndex and raises IndexError exactly when the model says indexErr (all N, including the N = 0 and N = 1 special cases)"),
    ("TracklibVerif.Tie.C04", "TV.Tie.C04.tie_getInsertionIndex_total", "with insertionIndex_no_index_error: unconditionally, for every fuel >= ilog2 N - 1 + N + 3 the translated __getInsertionIndex returns the model's index r, 0 <= r <= N (no IndexError, fuel sufficient), on EVERY list of timestamps"),
    ("TracklibVerif.Tie.C04", "TV.Tie.C04.tie_getInsertionIndex_sorted", "end to end with insertionIndex_spec: on time-sorted timestamps the translated __getInsertionIndex returns the number of timestamps <= ts (< ts on a single observation)"),
]
