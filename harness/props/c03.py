"""C03 — timestamps <-> epoch seconds (tracklib/core/obs_time.py).

Three models are driven: the model of the `zone` label and of the objects (command prog: programs of statements over a store of
ObsTime objects, run on real objects and in Lean; what Z1-Z13 are about), and the two models of the conversions: the integer model (commands read/abs/cmp/add; what T1-T6 are about) and the generic model
of the float path instantiated at IEEE doubles (readf/absf/rtf/addf/cmpf/subf; what T7-T14 are about in exact
arithmetic); and the model of what may stand on the other side of a comparison operator (cmpo; O1-O2: a timestamp of any
class derived from ObsTime, or an object that is not a timestamp). The correspondence with the float-path model and with the program model (itself at IEEE doubles) is exact (fields and
bit patterns); the integer model is compared up to the documented "one millisecond low" of the float code. The oracle (`spec`) uses only the calendar of the
standard library and exact rationals."""
import calendar, datetime, math
from fractions import Fraction
from engine import Prop, fbits, bitsf

EPOCH = datetime.datetime(1970, 1, 1)


def leap(y):
    return y % 4 == 0 and (y % 100 != 0 or y % 400 == 0)


def mdays(y, m):
    return [31, 29 if leap(y) else 28, 31, 30, 31, 30, 31, 31, 30, 31, 30, 31][m - 1]


def integral(v):
    return (isinstance(v, int) and not isinstance(v, bool)) or (isinstance(v, float) and v == math.floor(v) and abs(v) < 2 ** 53)


def wellformed(f):
    if not all(integral(v) for v in f):
        return False
    y, mo, d, h, mi, s, ms = map(int, f)
    return (1 <= mo <= 12 and 1 <= d <= mdays(y, mo) and 0 <= h <= 23 and 0 <= mi <= 59
            and 0 <= s <= 59 and 0 <= ms <= 999)


def in_domain(f):
    """a stamp the statement speaks about when it is an OPERAND: well formed and not before 1970-01-01 ("seconds since 1970";
    the quantifier enumerates the days from 1970-01-01 on). A well-formed stamp of an earlier year is not judged as an operand,
    whatever the code makes of it (this tree: toAbsTime() counts it as a day of 1970; a tree that handles it correctly is
    not judged either). RESULTS are only asked to be well formed and at the right instant, and only when that instant is
    not before 1970."""
    return wellformed(f) and int(f[0]) >= 1970


def oracle_ms(f):
    """independent epoch milliseconds of a well-formed field list (proleptic Gregorian, no leap seconds)"""
    y, mo, d, h, mi, s, ms = map(int, f)
    return calendar.timegm((y, mo, d, h, mi, s)) * 1000 + ms


def oracle_fields(ms_total):
    dt = EPOCH + datetime.timedelta(milliseconds=ms_total)
    return [dt.year, dt.month, dt.day, dt.hour, dt.minute, dt.second, dt.microsecond // 1000]


def hexs(s):
    """string -> protocol token of the C13 driver (lower-case hex of the character codes)"""
    return "".join("%02x" % ord(c) for c in s) if s else "_"


def unhexs(tok):
    return "" if tok == "_" else bytes.fromhex(tok).decode("latin-1")


ATTRS = ["year", "month", "day", "hour", "min", "sec", "ms", "zone"]
DAY_NAMES = ["Mon", "Tue", "Wed", "Thu", "Fri", "Sat", "Sun"]
OBJ_OPS = ("new", "read", "add", "conv", "copy", "rt")   # statements that return one new object


def prog_layout(ops):
    """[(first slot, number of new objects)] per statement of a program, or None when a statement refers to an object
    that does not exist yet (or to a track that was not built)"""
    n, track, out = 0, None, []
    for op in ops:
        k = op[0]
        refs = {"add": op[1:2], "conv": op[1:2], "copy": op[1:2], "rt": op[1:2], "set": op[1:2], "abs": op[1:2], "pz": op[1:2],
                "tz": op[1:2], "dow": op[1:2], "cmp": op[1:3], "sub": op[1:3], "trk": op[1] if k == "trk" else []}.get(k, [])
        if any((not isinstance(r, int)) or r < 0 or r >= n for r in refs):
            return None
        if k in OBJ_OPS:
            out.append((n, 1)); n += 1
        elif k in ("tconv", "tadd"):
            if not track:
                return None
            out.append((n, len(track))); track = list(range(n, n + len(track))); n += len(track)
        else:
            if k == "trk":
                if not op[1]:
                    return None
                track = list(op[1])
            if k in ("tget", "tset") and not track:
                return None
            out.append((n, 0))
    return out


CLASS_NAMES = ["ObsTime", "IsoTime(ObsTime), which only adds a method iso() and a __repr__", "TaggedTime(ObsTime), which only adds a method and a class attribute"]


def prog_classes(ops):
    """index into P.CLASSES of the class of every object of a program: what `new` was asked for, what copy() copies;
    every other call returns a plain ObsTime"""
    cl = []
    for op, (a, c) in zip(ops, prog_layout(ops) or []):
        if op[0] == "new":
            cl.append(op[3] if len(op) > 3 else 0)
        elif op[0] == "copy":
            cl.append(cl[op[1]])
        else:
            cl += [0] * c
    return cl


def prog_without(ops, k):
    """the program without statement k, later references renumbered; None if something later needs what it creates"""
    lay = prog_layout(ops)
    if lay is None:
        return None
    a, c = lay[k]

    def ren(r):
        if a <= r < a + c:
            raise KeyError(r)
        return r - c if r >= a + c else r
    out = []
    try:
        for j, op in enumerate(ops):
            if j == k:
                continue
            op = list(op)
            if j > k:
                if op[0] in ("add", "conv", "copy", "rt", "set", "abs", "pz", "tz", "dow"):
                    op[1] = ren(op[1])
                elif op[0] in ("cmp", "sub"):
                    op[1], op[2] = ren(op[1]), ren(op[2])
                elif op[0] == "trk":
                    op[1] = [ren(r) for r in op[1]]
            out.append(op)
    except KeyError:
        return None
    return out if prog_layout(out) is not None else None


DEFAULT_FMT = "2D/2M/4Y 2h:2m:2s"
YEAR_2400_END = 13569465600 + 366 * 86400  # first second of 2401
MS = Fraction(1, 1000)


class P(Prop):
    id = "C03"
    design_ref = "DESIGN.md section 5, C03"
    theorems = [
        ("TracklibVerif.Props.C03", "TV.C03.readUnix_wellFormed", "every instant reads as a well-formed calendar stamp (no bound on the year)"),
        ("TracklibVerif.Props.C03", "TV.C03.toAbs_readUnix", "toAbs (readUnix t) = t for every millisecond count t"),
        ("TracklibVerif.Props.C03", "TV.C03.readUnix_toAbs", "readUnix (toAbs s) = s for every well-formed stamp"),
        ("TracklibVerif.Props.C03", "TV.C03.toAbs_gregorian", "toAbs agrees with the closed-form proleptic Gregorian day number"),
        ("TracklibVerif.Props.C03", "TV.C03.lt_iff", "field-wise < agrees with < on epoch milliseconds"),
        ("TracklibVerif.Props.C03", "TV.C03.gt_iff", "field-wise > agrees with > on epoch milliseconds"),
        ("TracklibVerif.Props.C03", "TV.C03.eq_iff", "== agrees with equality of epoch milliseconds"),
        ("TracklibVerif.Props.C03", "TV.C03.le_iff", "<= (defined as not >) agrees with <= on epoch milliseconds"),
        ("TracklibVerif.Props.C03", "TV.C03.ge_iff", ">= (defined as not <) agrees with >= on epoch milliseconds"),
        ("TracklibVerif.Props.C03", "TV.C03.addSec_spec", "adding n seconds moves the instant by exactly n seconds and stays well-formed"),
        ("TracklibVerif.Props.C03", "TV.C03.readUnixG_eq", "float path, exact arithmetic: readUnixTime(x), run operation for operation, = <integer reader on floor x, floor((x - floor x)*1000) ms> for every x >= 0 (the year loop ends)"),
        ("TracklibVerif.Props.C03", "TV.C03.readUnixG_wellFormed", "the stamp read from any scalar x >= 0 is well formed, millisecond 0..999 included"),
        ("TracklibVerif.Props.C03", "TV.C03.readUnixG_within_ms", "0 <= x - toAbsTime(readUnixTime(x)) < 1/1000: same instant to within one millisecond"),
        ("TracklibVerif.Props.C03", "TV.C03.readUnixG_spec", "the three previous statements as one statement about the mirrored code"),
        ("TracklibVerif.Props.C03", "TV.C03.readUnixG_toAbsG", "readUnixTime(toAbsTime(s)) = s for every well-formed stamp, milliseconds included, in exact arithmetic"),
        ("TracklibVerif.Props.C03", "TV.C03.addSecG_spec", "addSec(a) for any scalar a (fractional, negative) not leading before 1970: well formed, within 1 ms of toAbsTime()+a"),
        ("TracklibVerif.Props.C03", "TV.C03.addMinG_spec", "the same for addMin (a*60)"),
        ("TracklibVerif.Props.C03", "TV.C03.addHourG_spec", "the same for addHour (a*3600)"),
        ("TracklibVerif.Props.C03", "TV.C03.addDayG_spec", "the same for addDay (a*86400)"),
        ("TracklibVerif.Props.C03", "TV.C03.addSecG_whole", "adding a whole number k of seconds, negative included, gives exactly the integer model's stamp of toAbsMs + 1000k"),
        ("TracklibVerif.Props.C03", "TV.C03.cmp_iff_seconds", "< > == <= >= != on well-formed stamps agree with the order of the toAbsTime() scalars"),
        ("TracklibVerif.Props.C03", "TV.C03.sub_spec", "t1 - t2 is the difference of the epoch milliseconds / 1000 and its sign is the comparison"),
        ("TracklibVerif.Props.C03", "TV.C03.cmpZ_toZ", "the comparison cascades on float-path stamps are those of the integer model"),
        ("TracklibVerif.Props.C03", "TV.C03.readUnixG_monotone", "0 <= x <= y implies readUnixTime(x) <= readUnixTime(y)"),
        ("TracklibVerif.Props.C03", "TV.C03.default_is_epoch", "ObsTime() is the stamp of instant 0"),
        ("TracklibVerif.Props.C03", "TV.C03.zone_not_read", "toAbsTime(), -, the round trip, addSec/Min/Hour/Day and getDayOfWeek never read the zone label: same fields, other label, same answers"),
        ("TracklibVerif.Props.C03", "TV.C03.results_zone", "readUnixTime / addSec ... / the round trip return an object in zone 0 whatever the operand's label; convertToZone(z) returns one labelled z"),
        ("TracklibVerif.Props.C03", "TV.C03.convertToZoneG_eq", "convertToZone(z) on a well-formed stamp labelled z0, run operation for operation in exact arithmetic, = the integer model's stamp at toAbsMs + 3 600 000 (z - z0), labelled z"),
        ("TracklibVerif.Props.C03", "TV.C03.convertToZone_spec", "convertToZone: well formed, moves the instant by exactly z - z0 hours, keeps toAbsTime() - 3600*zone, keeps the minute, second and millisecond fields"),
        ("TracklibVerif.Props.C03", "TV.C03.convertToZone_back", "converting to a zone and back gives the stamp one started from"),
        ("TracklibVerif.Props.C03", "TV.C03.convertToZone_same", "converting to the zone the stamp is in changes nothing"),
        ("TracklibVerif.Props.C03", "TV.C03.convertToZone_comp", "two zone conversions in a row are one"),
        ("TracklibVerif.Props.C03", "TV.C03.convertToZone_order", "two stamps of one zone converted to one zone keep <, >, == and their distance"),
        ("TracklibVerif.Props.C03", "TV.C03.setTimeZone_spec", "Track.setTimeZone(z) relabels only: calendar fields untouched, every label z, getTimeZone() = z"),
        ("TracklibVerif.Props.C03", "TV.C03.convertToTimeZone_eq", "Track.convertToTimeZone(z) is convertToZone(z) stamp by stamp (each with its own label), exact arithmetic"),
        ("TracklibVerif.Props.C03", "TV.C03.addSeconds_whole", "Track.addSeconds(k), k whole (negative included): every stamp moves by exactly k seconds; results in zone 0"),
        ("TracklibVerif.Props.C03", "TV.C03.dayOfWeek_spec", "getDayOfWeek() of a well-formed stamp is (proleptic Gregorian day number + 3) mod 7 in Mon..Sun, whatever the label"),
        ("TracklibVerif.Props.C03", "TV.C03.step_frame", "objects: no conversion, offset, comparison, copy or Track.convertToTimeZone/addSeconds changes an existing object (its operand included); only `o.field = v` and Track.setTimeZone write, and only into their targets"),
        ("TracklibVerif.Props.C03", "TV.C03.step_fresh", "objects: a call that returns a stamp returns a new object (appended to the store), and readUnixTime(x) does not depend on the state"),
        ("TracklibVerif.Props.C03", "TV.C03.run_frame", "objects, whole programs: a program without attribute assignments and without Track.setTimeZone leaves every object that existed before it exactly as it was"),
        ("TracklibVerif.Props.C03", "TV.C03.read_again", "readUnixTime(x) after any program run on its earlier result (attribute assignments included) gives the same stamp again"),
        ("TracklibVerif.Props.C03", "TV.C03.printZone_inj", "printZone() is Z exactly for zone 0 and distinct zones -24..+24 print differently"),
        ("TracklibVerif.Props.C03", "TV.C03.cmpO_inst", "operands of any class (ObsTime or a class derived from it, on either side): < > == <= >= != on well-formed stamps are the order of the epoch milliseconds; no class is read"),
        ("TracklibVerif.Props.C03", "TV.C03.cmpO_other", "an operand that is not a timestamp: == False, != True, the four order operators raise AttributeError, whatever the stamp"),
        ("TracklibVerif.Props.C03Before1970", "TV.C03.readUnixG_before1970", "before 1970 (outside the statement): readUnixTime(x), x <= 0, run operation for operation in exact arithmetic with int() toward zero, = year 1970, month 1, day 1 - n div 86400 and the NEGATED hour/minute/second/millisecond of -x = n + f"),
        ("TracklibVerif.Props.C03Before1970", "TV.C03.readUnixG_before1970_fields", "that stamp: day <= 1, hour -23..0, minute and second -59..0, millisecond -999..0"),
        ("TracklibVerif.Props.C03Before1970", "TV.C03.readUnixG_before1970_instant", "x <= toAbsTime(readUnixTime(x)) < x + 1/1000 for x <= 0: the instant is kept to within a millisecond, rounded toward zero"),
        ("TracklibVerif.Props.C03Before1970", "TV.C03.readUnixG_before1970_illFormed", "the domain boundary: for x <= -1/1000 the stamp returned has day < 1 or a negative hour/minute/second/millisecond; for -1/1000 < x <= 0 it is the epoch stamp ObsTime()"),
        ("TracklibVerif.Props.C03Before1970", "TV.C03.toAbsG_readUnixG_before1970", "on a whole number of milliseconds before 1970 toAbsTime(readUnixTime(-k/1000)) = -k/1000 exactly"),
        ("TracklibVerif.Props.C03Before1970", "TV.C03.readUnixG_negMs", "readUnixTime(-k/1000), k whole, = negStamp (k div 1000) (-(k mod 1000)): the explicit stamp on a whole number of milliseconds before 1970"),
        ("TracklibVerif.Props.C03Before1970", "TV.C03.addSecG_before1970_back", "addSec(k), k whole, from a well-formed stamp to 1970 or before: toAbsTime() of the (ill-formed) result is exactly toAbsTime()+k, and addSec(-k) on it returns the stamp one started from"),
        ("TracklibVerif.Props.C03Before1970", "TV.C03.convertToZoneG_before1970_back", "convertToZone to a target at or before 1970 and back to the zone one came from returns the stamp and label one started from"),
        ("TracklibVerif.Props.C03Before1970", "TV.C03.addG_before1970_spec", "readUnixTime(toAbsTime() + a*c) for ANY scalar amount and stamp when that instant is 1970 or before: the stamp of readUnixG_before1970, toAbsTime() of it within one millisecond of the instant asked for, toward zero"),
        ("TracklibVerif.Props.C03Before1970", "TV.C03.addSecG_before1970_spec", "addSec(a), any scalar a (fractional included), leading to 1970 or before: that stamp, within 1 ms toward zero"),
        ("TracklibVerif.Props.C03Before1970", "TV.C03.addMinHourDayG_before1970_spec", "the same for addMin (a*60), addHour (a*3600), addDay (a*86400)"),
        ("TracklibVerif.Props.C03Before1970", "TV.C03.addSecG_total", "addSec(k), k whole, from a well-formed stamp with NO domain hypothesis: shiftMsZ t (1000k) - the integer model's stamp when the target is not before 1970, the negated decomposition when it is"),
        ("TracklibVerif.Props.C03Before1970", "TV.C03.convertToZoneG_total", "convertToZone(z) on a well-formed stamp labelled z0, whatever the target: shiftMsZ t (3 600 000 (z - z0)) labelled z (Z3 without 'not before 1970')"),
        ("TracklibVerif.Props.C03Before1970", "TV.C03.convertToTimeZone_total", "Track.convertToTimeZone(z) on any track of well-formed stamps, targets on both sides of 1970: stamp by stamp shiftMsZ (Z8 without its domain hypothesis)"),
        ("TracklibVerif.Props.C03Before1970", "TV.C03.addSeconds_total", "Track.addSeconds(k), k whole, on any track of well-formed stamps, targets on both sides of 1970: stamp by stamp shiftMsZ, zone 0"),
        ("TracklibVerif.Props.C03Before1970", "TV.C03.toAbs_year_before1970", "toAbsTime() of a stamp whose year is before 1970: range(1970, year) is empty, the years contribute nothing (1969-12-31 23:59:59 -> +31 535 999)"),
    ]
    partial = []
    open_statements = ["IEEE rounding is outside the theorems (ordered field, exact int()): the two roundings of toAbsTime() (ms/1000.0 and the sum) make a stamp with a non-zero "
                       "millisecond read back one millisecond low (57 -> 56), and float(toAbsTime()+nb) is rounded to the ~2e-7..2e-6 s grid of epoch-scale doubles; both are within the "
                       "property's millisecond and are covered by the bit-exact correspondence of the same definitions instantiated at Float, not by a theorem",
                       "object identity is a statement about the interpreter of programs (every call that returns a stamp appends a new object): that the Python calls behave like that "
                       "interpreter is the correspondence of the `prog` stream (outputs, final state of every object, `is`), not a theorem about CPython",
                       "convertToZone / Track.convertToTimeZone / Track.addSeconds theorems that state the property are for exact arithmetic and targets not before 1970; IEEE rounding: correspondence at Float only. "
                       "Before 1970 is outside the statement (seconds since 1970): this tree returns negative fields for a negative number of seconds and counts a year before 1970 as 1970 in toAbsTime(); "
                       "the models mirror that and Props/C03Before1970.lean PROVES what is returned there in exact arithmetic (which stamp, that it is ill formed from one millisecond before 1970 on, that the instant is kept "
                       "to within a millisecond toward zero, that addSec / convertToZone there and back is the identity; addSec(k whole) / convertToZone / Track.convertToTimeZone / Track.addSeconds as total functions on well-formed stamps, both sides of 1970); no oracle clause speaks about it (a tree that handled such dates correctly would only break the "
                       "correspondence). Fractional amounts of addSec..addDay leading before 1970: the 1 ms bracket toward zero (addSecG_before1970_spec). Still open there: IEEE rounding before 1970 (Float correspondence only). "
                       "TrackCollection.convertToTimeZone (calls Track.convertToZone, which does not exist) and Track.roundTimestamps (calls ObsTime.round, which does not exist) raise AttributeError on every input: not modelled, not generated"]
    modelled = ("tracklib/core/obs_time.py: ObsTime.readUnixTime on a float argument, operation for operation (readUnixG: year loop on `elapsed - sec` with the integer accumulator, "
                "month loop, int(e/86400), int(e/3600), int(e/60), int(e), ms = int(frac*1000)) and on integers (readUnixSec/readUnixMs); toAbsTime (integer `seconds`, then "
                "float(seconds) + ms/1000.0); addSec/addMin/addHour/addDay with int, fractional and negative amounts; __sub__; __eq__/__ne__/__lt__/__gt__/__le__/__ge__; "
                "ObsTime() defaults. The generic definitions are instantiated at Float in the driver (bit-exact) and at an ordered field in the theorems. "
                "The `zone` attribute and the objects (Model/ObsTimeZone.lean): ObsTime(..., zone=z), convertToZone, printZone, timeWithZone (fixed format + zone code; the print "
                "format is put back), getDayOfWeek, copy, attribute assignment; core/track.py Track.setTimeZone / getTimeZone / convertToTimeZone / addSeconds on a track that "
                "refers to the timestamp objects themselves; programs of such statements over a store in which every call that returns a stamp appends a new object "
                "(driver command `prog`; the harness compares every output, the final state of every object, which objects are identical, which objects the track holds). "
                "Before 1970 (outside the statement) the same definitions are followed operation for operation by Lemmas/ObsTimeNeg.lean (TruncNeg = int() toward zero, negStamp, shiftMsZ) and Props/C03Before1970.lean. "
                "The operand handling of the comparison operators (Model/ObsTimeOperand.lean, driver command `cmpo`): the isinstance guard of __eq__ (any class derived from ObsTime "
                "passes; None, numbers, strings, tuples of fields do not), __ne__ = not (time == self) with the operands changing sides, the AttributeError of < > <= >= on a non-timestamp. "
                "The string constructor / readTimestamp / __str__ are the C13 model (driver command C13.time), used here for the `ctor` stream")
    rule = ("programs of 3-20 statements on real objects (new with a zone label, readUnixTime of int / float / numpy scalars, addSec..addDay, convertToZone, copy, round trip, "
            "attribute assignments that keep a stamp well formed, toAbsTime, the six comparisons, -, printZone, timeWithZone, getDayOfWeek, Track(...) on existing timestamp objects, "
            "getTimeZone, setTimeZone, convertToTimeZone, addSeconds): a few seconds values, amounts and zones are drawn per program and used again and again, so the same conversion is "
            "asked for before and after its earlier result was modified; half of the programs start from a template (same value read twice around a modification, same offset twice, "
            "a zone conversion between two reads of the instant it lands on, a zone-labelled stamp through round trip/offset/order, a track labelled-shifted-converted, there-and-back); "
            "every statement is judged by the oracle on the state its operands had when it ran; assignments are undone at the end of the case. "
            "A quarter of the stamps a program constructs (and a fifth of those of the day/add/addf/seq streams, half of the cmp pairs) are instances of one of two user classes derived from ObsTime "
            "(each only adds a method; one also a __repr__): timestamps like any other, alone and mixed with plain ObsTime objects; a template compares such a stamp with its round trip, its copy, "
            "a plain stamp of the same instant and what addSec(k) gives with the stamp written down for that instant. `eqx`: the six operators (both operand orders for == and !=) "
            "between stamps of all pairs of classes, and between a stamp and an object that is not a timestamp (None, its seconds as int/float, its printed form, tuple/list/dict of its fields, object()): "
            "correspondence only for the latter. Domain of the oracle: an OPERAND is judged when it is well formed and not before 1970-01-01; a RESULT is judged (well formed, right instant) when the instant "
            "asked for is not before 1970 - readUnixTime(x<0), offsets and zone changes leading before 1970, and whatever is then done with their results, are correspondence only. convertToZone for every ordered pair of zones "
            "-12..+14 on four boundary stamps. A third of the stamps of the day/cmp/add/addf/seq streams carry a zone label -12..+14 (ObsTime(..., zone=z)). "
            "days enumerated from 1970-01-01 (all days to 2099 in thorough; the boundary days of every year in quick) x 4 intra-day instants; "
            "whole boundary days second by second; century years 2100..2400; ordered pairs one unit apart in each field; offsets crossing day/month/year; "
            "float instants up to year 2400 by class (uniform fraction, k/1000.0, fraction in [0.999,1) and [0.9995,1), 1-2^-j and 2^-j, one to a few ulps below/above a second, "
            "minute, hour, midnight, month or year boundary, interpolated t1+(t2-t1)*w, whole floats, below one day, negative = correspondence only); pairs of float instants "
            "(equal, adjacent doubles, half a millisecond / a millisecond / a second apart, unrelated) compared with all six operators and subtracted; addSec/Min/Hour/Day with "
            "fractional, negative and int amounts; ObsTime(), ObsTime(str), readTimestamp, copy; sequences of 2-5 conversions evaluated one after the other in one case "
            "(same month and day in several years, same year in several months, unrelated) so that state kept between calls shows as a self-contained input. "
            "non-trivial = not (1 January 00:00:00.000 of 1970), i.e. every case exercises at least one loop iteration or comparison")

    def setup(self):
        from tracklib.core.obs_time import ObsTime
        from tracklib.core import Obs, ENUCoords, Track
        self.T = ObsTime
        self.Obs, self.ENU, self.Track = Obs, ENUCoords, Track

        # user classes derived from ObsTime: what a program that wants another printed form, or a helper method, writes.
        # Their instances are timestamps like any other (same fields, same toAbsTime()): every sentence of the statement
        # applies to them, alone and mixed with plain ObsTime objects.
        # (no __str__ override: timeWithZone() prints through str(self), which is modelled for ObsTime.__str__)
        class IsoTime(ObsTime):
            def iso(self):
                return "%04d-%02d-%02dT%02d:%02d:%02d.%03d" % (self.year, self.month, self.day, self.hour, self.min, self.sec, self.ms)

            def __repr__(self):
                return "IsoTime(%s)" % self.iso()

        class TaggedTime(ObsTime):
            tag = "gps"

            def julian(self):
                return self.toAbsTime() / 86400.0 + 2440587.5
        self.CLASSES = [ObsTime, IsoTime, TaggedTime]

    # ---------------------------------------------------------------- generators
    def exhaustive_scopes(self, tier):
        if tier == "thorough":
            return ["convertToZone there and back, comparison, printZone, timeWithZone, getDayOfWeek for every ordered pair of zones -12..+14 on 4 boundary stamps",
                    "every calendar day 1970-01-01..2099-12-31 x {00:00:00.000, 12:00:00.000, 23:59:59.999, random ms}",
                    "every second within 30 min of both midnights of 28 Feb, 29 Feb/1 Mar, 31 Dec, 1 Jan for every year 1970..2099; every second of those four days for 1970, 1971, 1972, 1999, 2000, 2099 and two seeded years",
                    "boundary days of 2100, 2200, 2300, 2400",
                    "the doubles 1, 2 and 3 ulps below and 1 ulp above the first second of every year 1971..2100 and of every month of 1972, 1999, 2000, 2100"]
        return ["convertToZone there and back, comparison, printZone, timeWithZone, getDayOfWeek for every ordered pair of zones -12..+14 on 4 boundary stamps",
                "boundary days (1 Jan, 28 Feb, 29 Feb or 1 Mar, 31 Dec) of every year 1970..2099 and of 2100, 2200, 2300, 2400 x 4 instants",
                "the doubles 1 ulp below and 1 ulp above the first second of every year 1971..2100"]

    def boundary_days(self, y):
        return [(y, 1, 1), (y, 2, 28), (y, 2, 29) if leap(y) else (y, 3, 1), (y, 12, 31), (y, 12, 30), (y, 3, 1)]

    # -- float instants ------------------------------------------------------------------
    FLOAT_CLASSES = ["uniform", "milli", "last_ms", "last_half_ms", "pow2", "below", "above", "interp", "whole", "small", "neg"]

    def rand_second(self, rng):
        """a whole second: anywhere up to the end of 2400, or on/next to a minute, hour, day, month or year boundary"""
        c = rng.randrange(6)
        if c == 0:
            return rng.randrange(0, YEAR_2400_END)
        if c == 1:
            return rng.randrange(0, 4102444800)  # 1970..2099
        y = rng.choice([rng.randrange(1970, 2100), rng.choice([1970, 1971, 1972, 1999, 2000, 2001, 2100, 2400])])
        m = rng.choice([1, 2, 3, 12, rng.randrange(1, 13)])
        d = rng.choice([1, mdays(y, m), rng.randrange(1, mdays(y, m) + 1)])
        base = calendar.timegm((y, m, d, 0, 0, 0))
        if c == 2:
            return max(0, base + rng.choice([-1, 0, 1, 86399, 86400]))
        if c == 3:
            return base + rng.randrange(24) * 3600 + rng.choice([0, 3599])
        if c == 4:
            return base + rng.randrange(1440) * 60 + rng.choice([0, 59])
        return base + rng.randrange(86400)

    def rand_float(self, rng, cls=None):
        """one double of the given class (see `rule`); every class is a legitimate argument of readUnixTime except `neg`"""
        cls = cls or rng.choice(self.FLOAT_CLASSES[:-1])
        n = self.rand_second(rng)
        if cls == "uniform":
            return n + rng.random()
        if cls == "milli":
            return n + rng.randrange(1000) / 1000.0
        if cls == "last_ms":
            return n + 0.999 + rng.random() * 0.001
        if cls == "last_half_ms":
            return n + rng.choice([0.9995, 0.9996, 0.99975, 0.9999, 0.99999, 0.9995 + rng.random() * 0.0005])
        if cls == "pow2":
            j = rng.randrange(1, 31)
            return n + (1 - 2.0 ** -j if rng.random() < 0.5 else 2.0 ** -j)
        if cls == "below":
            x = float(max(n, 1))
            for _ in range(rng.choice([1, 1, 1, 2, 3, 7])):
                x = math.nextafter(x, 0.0)
            return x
        if cls == "above":
            x = float(n)
            for _ in range(rng.choice([1, 1, 2, 5])):
                x = math.nextafter(x, math.inf)
            return x
        if cls == "interp":
            t1 = float(n) + rng.choice([0.0, rng.randrange(1000) / 1000.0])
            t2 = t1 + rng.choice([1.0, 0.5, 60.0, 3600.0, 86400.0, rng.random() * 1000])
            return t1 + (t2 - t1) * rng.random()
        if cls == "whole":
            return float(n)
        if cls == "small":
            return rng.choice([0.0, 5e-324, 2.0 ** -30, 0.0005, 0.001, 0.9995, 0.9999999, 1 - 2.0 ** -53,
                               rng.random(), rng.random() * 86400, 86399.9996, math.nextafter(86400.0, 0.0)])
        if cls == "neg":
            return -rng.choice([rng.random(), rng.random() * 86400, 1.0, 0.5, 1e-9])
        raise ValueError(cls)

    def rand_amount(self, rng, unit):
        """(amount, passed as int?) for addSec/addMin/addHour/addDay: fractional, negative, whole"""
        c = rng.randrange(8)
        scale = {"sec": 100000, "min": 2000, "hour": 50, "day": 800}[unit]
        if c == 0:
            return rng.random() * scale, False
        if c == 1:
            return -rng.random() * scale, False
        if c == 2:
            return float(rng.choice([-1, 1]) * rng.randrange(0, scale)), True
        if c == 3:
            return rng.choice([0.9995, 0.9997, 0.99999, 0.0005, 0.001, 0.0004, -0.0005, -0.001, 1 - 2.0 ** -20]), False
        if c == 4:
            return rng.choice([-1, 1]) * rng.randrange(0, 60000) / 1000.0, False
        if c == 5:
            return rng.choice([0.5, 0.25, -0.25, 1 / 3.0, -1 / 3.0, 1.5, -1.5, 0.1, -0.1]), False
        if c == 6:
            return float(rng.choice([-1, -59, -60, -61, -3600, -86400, -86401, -365, -366, -31, -28])), rng.random() < 0.5
        return rng.choice([1, 59, 60, 3599, 86399, 86400]) + rng.choice([0.9996, 0.5, 0.0005]), False

    # -- programs over a store of objects (zones, aliasing, state left in results) -----------
    ZONES = list(range(-12, 15))

    def rand_zone(self, rng):
        return rng.choice([0, 1, 2, -1, -5, 12, 14, -12, rng.choice(self.ZONES), rng.choice(self.ZONES)])

    def rand_set(self, rng, i):
        """attribute assignments that keep a well-formed stamp well formed (a month or year only after a day <= 28)"""
        c = rng.randrange(8)
        if c == 0:
            return [["set", i, 3, 0], ["set", i, 4, 0], ["set", i, 5, 0], ["set", i, 6, 0]]   # truncate to midnight
        if c == 1:
            return [["set", i, 2, 1]]                                                         # first of the month
        if c == 2:
            return [["set", i, 7, self.rand_zone(rng)]]
        if c == 3:
            return [["set", i, 2, rng.randrange(1, 29)], ["set", i, 1, rng.randrange(1, 13)]]
        if c == 4:
            return [["set", i, 2, rng.randrange(1, 29)], ["set", i, 0, rng.choice([1970, 1972, 2000, 2100, rng.randrange(1970, 2100)])]]
        f = rng.choice([3, 4, 5, 6])
        return [["set", i, f, rng.randrange([24, 60, 60, 1000][f - 3])]]

    def rand_read(self, rng, pool):
        x = rng.choice(pool)
        form = "f"
        if x == math.floor(x) and rng.random() < 0.5:
            form = rng.choice(["i", "i", "i", "ni"])
        elif rng.random() < 0.15:
            form = "np"
        return ["read", fbits(x), form]

    def rand_add(self, rng, i, amounts):
        unit, nb, as_int = rng.choice(amounts)
        return ["add", i, unit, fbits(nb), bool(as_int)]

    def rand_prog(self, rng):
        """a program of 3..12 statements: a few seconds values / amounts / zones are drawn first and used again and again,
        so that the same conversion is asked for several times with modifications of earlier results in between"""
        pool = [self.rand_float(rng) for _ in range(rng.choice([1, 1, 2, 3]))]
        pool += [float(math.floor(x)) for x in pool if rng.random() < 0.4]
        amounts = []
        for _ in range(rng.choice([1, 1, 2])):
            unit = rng.choice(["sec", "sec", "min", "hour", "day"])
            amounts.append((unit,) + self.rand_amount(rng, unit))
        zones = [self.rand_zone(rng) for _ in range(2)]
        ops, n, track = [], 0, 0

        def new():
            f = self.rand_stamp(rng)
            f[6] = 0 if rng.random() < 0.6 else f[6]
            op = ["new", f, rng.choice([0, rng.choice(zones)])]
            if rng.random() < 0.25:
                op.append(rng.choice([1, 2]))    # an instance of a class derived from ObsTime
            return op
        t = rng.randrange(9)
        if t == 0:      # the same value converted again after its first result was modified
            ops = [self.rand_read(rng, pool[:1])] + self.rand_set(rng, 0) + [self.rand_read(rng, pool[:1])]
        elif t == 1:    # the same offset applied again after its first result was modified
            a = self.rand_add(rng, 0, amounts[:1])
            ops = [new(), a] + self.rand_set(rng, 1) + [list(a)]
        elif t == 2:    # a zone conversion between two conversions of the instant it lands on
            z = rng.choice([z for z in self.ZONES if z != 0])
            u = self.rand_second(rng) + 86400
            ops = [["read", fbits(float(u - 3600 * z)), "f"], ["conv", 0, z], ["read", fbits(float(u)), rng.choice("fi")], ["conv", 2, 0], ["cmp", 2, 3]]
        elif t == 3:    # a stamp labelled with a zone: seconds, round trip, offsets, order
            ops = [["new", self.rand_stamp(rng), rng.choice([z for z in self.ZONES if z != 0])], ["rt", 0], self.rand_add(rng, 0, amounts), new(), ["cmp", 0, 3], ["sub", 0, 3]]
        elif t == 4:    # a track: label, shift, read the label, convert
            ops = [new(), new(), ["trk", [0, 1]], ["tset", zones[0]], ["tadd", fbits(rng.choice([30.0, amounts[0][1]])), False],
                   ["tget"], ["tconv", zones[1]]]
        elif t == 5:    # conversion to a zone and back
            ops = [["new", self.rand_stamp(rng), zones[0]], ["conv", 0, zones[1]], ["conv", 1, zones[0]], ["cmp", 0, 2], ["tz", 1]]
        elif t == 6:    # a stamp of a derived class against plain ones at the same instant: its round trip, its copy, what an
            # offset of whole seconds gives against the stamp written down for that instant (an instance of any of the classes)
            f = self.rand_stamp(rng)
            f[6] = 0 if rng.random() < 0.7 else f[6]
            k = rng.choice([0, 1, 59, 60, 3600, 86399, 86400, rng.randrange(100000)])
            g = oracle_fields(oracle_ms(f) + 1000 * k)
            c1 = rng.choice([1, 2])
            ops = [["new", f, rng.choice([0, zones[0]]), c1], ["rt", 0], ["cmp", 0, 1], ["cmp", 1, 0], ["new", list(f), 0, rng.choice([0, 0, 1, 2])], ["cmp", 0, 2],
                   ["add", 0, "sec", fbits(float(k)), rng.random() < 0.5], ["new", g, 0, rng.choice([0, 1, 2])], ["cmp", 3, 4], ["cmp", 4, 3], ["copy", 0], ["cmp", 5, 2]]
        lay = prog_layout(ops)
        n = sum(c for _, c in lay) if lay else 0
        track = 0
        for op in ops:
            if op[0] == "trk":
                track = len(op[1])
        for _ in range(rng.randrange(2, 9) if t < 7 else rng.randrange(4, 13)):
            c = rng.randrange(20)
            i = rng.randrange(n) if n else 0
            j = rng.randrange(n) if n else 0
            if n == 0 or c == 0:
                ops.append(new()); n += 1
            elif c in (1, 2, 3):
                ops.append(self.rand_read(rng, pool)); n += 1
            elif c in (4, 5):
                ops.append(self.rand_add(rng, i, amounts)); n += 1
            elif c == 6:
                ops.append(["conv", i, rng.choice(zones + [0])]); n += 1
            elif c == 7:
                ops.append([rng.choice(["copy", "rt"]), i]); n += 1
                if rng.random() < 0.5:
                    ops.append(["cmp"] + rng.choice([[i, n - 1], [n - 1, i]]))
            elif c in (8, 9, 10):
                ops += self.rand_set(rng, i)
            elif c == 11:
                ops.append(["abs", i])
            elif c in (12, 13):
                ops.append([rng.choice(["cmp", "cmp", "sub"]), i, j])
            elif c == 14:
                ops.append([rng.choice(["pz", "tz", "dow"]), i])
            elif c == 15:
                sl = [rng.randrange(n) for _ in range(rng.randrange(1, 4))]
                ops.append(["trk", sl]); track = len(sl)
            elif track and c == 16:
                ops.append(rng.choice([["tget"], ["tset", rng.choice(zones)]]))
            elif track and c == 17:
                ops.append(["tconv", rng.choice(zones + [0])]); n += track
            elif track and c == 18:
                ops.append(["tadd", fbits(rng.choice([30.0, 0.0, 86400.0, 0.5, -60.0, amounts[0][1]])), False]); n += track
            else:
                ops.append(self.rand_read(rng, pool)); n += 1
        assert prog_layout(ops) is not None, ops
        return {"kind": "prog", "ops": ops}

    def zone_table(self):
        """convertToZone for every ordered pair of zones -12..+14 on four boundary stamps: there, back, the labels"""
        out = []
        for f in ([1971, 1, 1, 0, 0, 0, 0], [2000, 12, 31, 23, 59, 59, 999], [2024, 2, 29, 12, 0, 0, 0], [2100, 3, 1, 0, 30, 0, 0]):
            for z0 in self.ZONES:
                for z in self.ZONES:
                    out.append({"kind": "prog", "ops": [["new", f, z0], ["conv", 0, z], ["conv", 1, z0], ["cmp", 0, 2], ["pz", 1], ["tz", 1], ["dow", 1]]})
        return out

    def cases(self, rng, tier):
        out = []
        years = list(range(1970, 2100))
        quick = tier == "quick"

        def instants(y, m, d):
            return [(0, 0, 0, 0), (12, 0, 0, 0), (23, 59, 59, 999),
                    (rng.randrange(24), rng.randrange(60), rng.randrange(60), rng.randrange(1000))]
        # programs first in the list: a failure that needs a modification made earlier is then reported by the program that
        # makes it, as a self-contained case
        for _ in range(6000 if quick else 60000):
            out.append(self.rand_prog(rng))
        out += self.zone_table()
        # sequences of conversions on one interpreter state (a result must not depend on the calls made before):
        # the same month/day in several years, the same year in several months, unrelated stamps. First in the list,
        # so that a failure that needs an earlier call is reported as a self-contained case.
        for _ in range(300 if quick else 6000):
            c = rng.randrange(3)
            n = rng.randrange(2, 6)
            if c == 0:
                m, d = rng.randrange(1, 13), rng.randrange(1, 29)
                fs = [[rng.choice(years + [2100, 2400]), m, d] for _ in range(n)]
            elif c == 1:
                y, d = rng.choice(years), rng.randrange(1, 29)
                fs = [[y, rng.randrange(1, 13), d] for _ in range(n)]
            else:
                fs = [self.rand_stamp(rng)[:3] for _ in range(n)]
            out.append({"kind": "seq", "fs": [f + [rng.randrange(24), rng.randrange(60), rng.randrange(60), rng.choice([0, 0, rng.randrange(1000)])] for f in fs]})
        if tier == "thorough":
            days = [(y, m, d) for y in years for m in range(1, 13) for d in range(1, mdays(y, m) + 1)]
        else:
            days = [dd for y in years for dd in self.boundary_days(y)]
            for _ in range(1500):
                y = rng.choice(years); m = rng.randrange(1, 13)
                days.append((y, m, rng.randrange(1, mdays(y, m) + 1)))
        for y in (2100, 2200, 2300, 2400, 2399, 2401):
            days += self.boundary_days(y)
        for (y, m, d) in days:
            for (h, mi, s, ms) in instants(y, m, d):
                out.append({"kind": "day", "f": [y, m, d, h, mi, s, ms]})
        # whole days second by second (a few years), and one-hour windows around every boundary midnight of every year
        if tier == "thorough":
            full = [1970, 1971, 1972, 1999, 2000, 2099, rng.choice(years), rng.choice(years)]
        else:
            full = []
        ry = years if tier == "thorough" else [1970, 1972, rng.choice([y for y in years if leap(y)]), rng.choice([y for y in years if not leap(y)])]
        for y in ry:
            for (yy, m, d) in [(y, 2, 28), (y, 2, 29) if leap(y) else (y, 3, 1), (y, 12, 31), (y, 1, 1)]:
                s0 = calendar.timegm((yy, m, d, 0, 0, 0))
                if y in full:
                    for part in range(0, 86400, 7200):
                        out.append({"kind": "secs", "start": s0 + part, "n": 7200})
                elif tier == "thorough":
                    out.append({"kind": "secs", "start": max(0, s0 - 1800), "n": 3600})
                    out.append({"kind": "secs", "start": s0 + 86400 - 1800, "n": 3600})
                else:
                    out.append({"kind": "secs", "start": s0, "n": 600})
                    out.append({"kind": "secs", "start": s0 + 86400 - 600, "n": 600})
        for _ in range(300 if quick else 5000):
            out.append({"kind": "secs", "start": rng.randrange(0, 13569465600), "n": 1})  # up to year 2400
        # ordered pairs one unit apart in each field, and random pairs
        npairs = 1500 if quick else 40000
        for _ in range(npairs):
            a = self.rand_stamp(rng)
            out.append({"kind": "cmp", "a": a, "b": self.neighbour(a, rng)})
        for _ in range(npairs // 3):
            out.append({"kind": "cmp", "a": self.rand_stamp(rng), "b": self.rand_stamp(rng)})
        # offsets
        for _ in range(1500 if quick else 40000):
            a = self.rand_stamp(rng)
            a[6] = 0 if rng.random() < 0.7 else a[6]
            unit = rng.choice(["sec", "min", "hour", "day"])
            nb = rng.choice([0, 1, 59, 60, 61, 3599, 3600, 86399, 86400, rng.randrange(0, 400), rng.randrange(0, 100000)])
            if unit == "day":
                nb = rng.choice([0, 1, 28, 29, 30, 31, 365, 366, rng.randrange(0, 800)])
            out.append({"kind": "add", "a": a, "unit": unit, "nb": nb})

        # ---- the float path -------------------------------------------------------------
        # enumerated: the doubles next to the first second of every year (and of every month of a few years)
        bounds = [calendar.timegm((y, 1, 1, 0, 0, 0)) for y in range(1971, 2101)]
        if not quick:
            bounds += [calendar.timegm((y, m, 1, 0, 0, 0)) for y in (1972, 1999, 2000, 2100) for m in range(2, 13)]
        xs = []
        for b in bounds:
            x = float(b)
            for _ in range(1 if quick else 3):
                x = math.nextafter(x, 0.0)
                xs.append(x)
            xs.append(math.nextafter(float(b), math.inf))
        for i in range(0, len(xs), 20):
            out.append({"kind": "rdf", "cls": "year_edge", "x": [fbits(x) for x in xs[i:i + 20]]})
        # sampled, class by class
        for cls in self.FLOAT_CLASSES:
            for _ in range(150 if quick else 1500):
                out.append({"kind": "rdf", "cls": cls, "x": [fbits(self.rand_float(rng, cls)) for _ in range(20)]})
        # pairs of float instants: comparison operators and `-` on the stamps read from them
        for _ in range(10000 if quick else 100000):
            x = self.rand_float(rng)
            c = rng.randrange(9)
            if c == 0:
                y = x
            elif c == 1:
                y = math.nextafter(x, rng.choice([0.0, math.inf]))
            elif c == 2:
                y = x + rng.choice([-1, 1]) * 0.0005
            elif c == 3:
                y = x + rng.choice([-1, 1]) * 0.001
            elif c == 4:
                y = float(math.floor(x) + rng.choice([0, 1]))
            elif c == 5:
                y = x + rng.choice([-1, 1]) * rng.choice([1.0, 60.0, 3600.0, 86400.0])
            elif c == 6:
                y = x + (rng.random() - 0.5) * 0.004
            else:
                y = self.rand_float(rng)
            if y < 0:
                y = x
            out.append({"kind": "cmpf", "x": fbits(x), "y": fbits(y)})
        # addSec/addMin/addHour/addDay with fractional, negative and int amounts
        for _ in range(10000 if quick else 100000):
            a = self.rand_stamp(rng)
            a[6] = 0 if rng.random() < 0.6 else a[6]
            unit = rng.choice(["sec", "sec", "min", "hour", "day"])
            nb, as_int = self.rand_amount(rng, unit)
            out.append({"kind": "addf", "a": a, "unit": unit, "nb": fbits(nb), "int": bool(as_int)})
        # the other ways of building a stamp: ObsTime(), ObsTime(str) / readTimestamp with the default read format, copy
        out.append({"kind": "ctor", "f": [1970, 1, 1, 0, 0, 0, 0]})
        for _ in range(200 if quick else 4000):
            f = self.rand_stamp(rng)
            f[6] = 0
            out.append({"kind": "ctor", "f": f})
        # what stands on the other side of a comparison operator: a timestamp of any class (ObsTime, classes derived from it),
        # or an object that is not a timestamp at all (== False, != True, the order operators raise AttributeError: model
        # `Model/ObsTimeOperand.lean`, correspondence only - the statement speaks about timestamps)
        for _ in range(600 if quick else 10000):
            a = self.rand_stamp(rng)
            ca = rng.choice([0, 1, 2])
            if rng.random() < 0.6:
                b = rng.choice([list(a), self.neighbour(a, rng), self.rand_stamp(rng)])
                out.append({"kind": "eqx", "a": a, "ca": ca, "b": b, "cb": rng.choice([0, 1, 2])})
            else:
                out.append({"kind": "eqx", "a": a, "ca": ca, "other": rng.choice(self.OTHERS)})
        # a third of the stamps built from fields carry a zone label: no sentence of the property depends on it
        nz = {"day": 1, "cmp": 2, "add": 1, "addf": 1}
        for c in out:
            n = len(c["fs"]) if c["kind"] == "seq" else nz.get(c["kind"])
            if n and rng.random() < 0.34:
                c["z"] = [self.rand_zone(rng) for _ in range(n)]
            if n and rng.random() < (0.5 if c["kind"] == "cmp" else 0.2):
                c["c"] = [rng.choice([0, 1, 2]) for _ in range(n)]
                if not any(c["c"]):
                    c["c"][rng.randrange(n)] = rng.choice([1, 2])
        return out

    OTHERS = ["none", "int", "float", "str", "tuple", "list", "object", "fields_dict"]

    def other_operand(self, name, t):
        """an object that is not a timestamp but could be mistaken for the stamp `t`"""
        f = self.fields(t)
        return {"none": None, "int": int(t.toAbsTime()), "float": t.toAbsTime(), "str": "%02d/%02d/%04d %02d:%02d:%02d" % (f[2], f[1], f[0], f[3], f[4], f[5]),
                "tuple": tuple(f), "list": list(f), "object": object(), "fields_dict": dict(zip(ATTRS, f))}[name]

    def search_cases(self, rng):
        # the quick generator with another seed is enough for the failing-input search (thorough is 20x larger)
        return self.cases(rng, "quick")

    def rand_stamp(self, rng):
        y = rng.choice([rng.randrange(1970, 2100), rng.choice([1970, 1972, 1999, 2000, 2001, 2100, 2400])])
        m = rng.choice([rng.randrange(1, 13), 1, 2, 3, 12])
        d = rng.choice([rng.randrange(1, mdays(y, m) + 1), 1, mdays(y, m)])
        return [y, m, d, rng.choice([0, 23, rng.randrange(24)]), rng.choice([0, 59, rng.randrange(60)]),
                rng.choice([0, 59, rng.randrange(60)]), rng.choice([0, 999, rng.randrange(1000)])]

    def neighbour(self, a, rng):
        """a well-formed stamp that differs from `a` by one unit in one field (or equals it)"""
        b = list(a)
        i = rng.randrange(8)
        if i == 7:
            return b
        lo = [1970, 1, 1, 0, 0, 0, 0][i]
        hi = [2400, 12, mdays(b[0], b[1]), 23, 59, 59, 999][i]
        b[i] = min(hi, max(lo, b[i] + rng.choice([-1, 1])))
        b[2] = min(b[2], mdays(b[0], b[1]))
        return b

    def describe(self, case):
        t = {"kind": case["kind"]}
        if case["kind"] in ("day", "cmp", "add", "addf", "seq"):
            t["zone_label"] = any(case.get("z") or [])
            t["derived_class"] = any(case.get("c") or [])
        if case["kind"] == "day":
            f = case["f"]
            t["daytype"] = ("jan1" if f[1:3] == [1, 1] else "dec31" if f[1:3] == [12, 31] else
                            "feb29" if f[1:3] == [2, 29] else "feb28" if f[1:3] == [2, 28] else "other")
            t["leap"] = leap(f[0])
        if case["kind"] in ("add", "addf"):
            t["unit"] = case["unit"]
        if case["kind"] == "eqx":
            t["operand"] = "timestamp, classes %s/%s" % (["ObsTime", "derived", "derived"][case["ca"]], ["ObsTime", "derived", "derived"][case["cb"]]) if "b" in case else "not a timestamp"
        if case["kind"] == "rdf":
            t["float_class"] = case.get("cls", "?")
        if case["kind"] == "prog":
            names = [op[0] for op in case["ops"]]
            t["prog_zoned"] = any((op[0] == "new" and op[2] != 0) or op[0] in ("conv", "tset", "tconv") or (op[0] == "set" and op[2] == 7) for op in case["ops"])
            t["prog_modifies_a_result"] = "set" in names or "tset" in names
            t["prog_track"] = "trk" in names
            t["prog_derived_class"] = any(op[0] == "new" and len(op) > 3 and op[3] != 0 for op in case["ops"])
        if case["kind"] == "addf":
            nb = bitsf(case["nb"])
            t["amount"] = ("int " if case.get("int") else "") + ("negative" if nb < 0 else "non-negative") + ("" if nb == int(nb) else " fractional")
        return t

    def nontrivial(self, case):
        return case.get("f") != [1970, 1, 1, 0, 0, 0, 0]

    # ---------------------------------------------------------------- implementation
    def mk(self, f, z=0, c=0):
        """ObsTime(fields) — with the `zone` argument when the case labels the stamp with a zone (key "z"), as an instance
        of a class derived from ObsTime when the case says so (key "c": index into self.CLASSES)"""
        T = self.CLASSES[c]
        if z:
            return T(f[0], f[1], f[2], f[3], f[4], f[5], f[6], zone=z)
        return T(f[0], f[1], f[2], f[3], f[4], f[5], f[6])

    @staticmethod
    def classes_of(case, n):
        c = case.get("c") or [0] * n
        return list(c) + [0] * (n - len(c))

    @staticmethod
    def zones_of(case, n):
        z = case.get("z") or [0] * n
        return list(z) + [0] * (n - len(z))

    def fields(self, t):
        return [t.year, t.month, t.day, t.hour, t.min, t.sec, t.ms]

    def fa(self, t):
        """fields of a stamp and the bit pattern of its toAbsTime()"""
        return {"f": self.fields(t), "abs": fbits(t.toAbsTime())}

    def amount(self, case):
        nb = bitsf(case["nb"])
        return int(nb) if case.get("int") else nb

    def snap(self, t):
        return self.fields(t) + [t.zone]

    def snap_abs(self, t):
        return {"o": self.snap(t), "abs": fbits(t.toAbsTime())}

    def run_prog(self, ops):
        """the statements of a program on real objects. Returns the output of every statement, the state of the operands
        just before it (`pre`, for the oracle), the final state of every object, which objects are one and the same, and
        the objects the track refers to. Whatever the program assigned to attributes is put back at the end, so that a
        case leaves nothing behind in objects the library might have kept."""
        T = self.T
        store, outs, pre, undo = [], [], [], []
        track = None

        def assign(o, attr, v):
            undo.append((o, attr, getattr(o, attr)))
            setattr(o, attr, v)

        def arg(bits, as_int):
            x = bitsf(bits)
            return int(x) if as_int else x
        try:
            stopped = None
            for n_op, op in enumerate(ops):
                try:
                    k = op[0]
                    if k == "new":
                        f = op[1]
                        pre.append([])
                        store.append(self.mk(f, op[2], op[3] if len(op) > 3 else 0))
                        outs.append(self.snap_abs(store[-1]))
                    elif k == "read":
                        x = bitsf(op[1])
                        if op[2] == "i":
                            x = int(x)
                        elif op[2] == "np":
                            import numpy
                            x = numpy.float64(x)
                        elif op[2] == "ni":
                            import numpy
                            x = numpy.int64(int(x))
                        pre.append([])
                        store.append(T.readUnixTime(x))
                        outs.append(self.snap_abs(store[-1]))
                    elif k == "add":
                        o = store[op[1]]
                        pre.append([self.snap(o)])
                        store.append({"sec": o.addSec, "min": o.addMin, "hour": o.addHour, "day": o.addDay}[op[2]](arg(op[3], op[4])))
                        outs.append(self.snap_abs(store[-1]))
                    elif k == "conv":
                        o = store[op[1]]
                        pre.append([self.snap(o)])
                        store.append(o.convertToZone(op[2]))
                        outs.append(self.snap_abs(store[-1]))
                    elif k == "copy":
                        o = store[op[1]]
                        pre.append([self.snap(o)])
                        store.append(o.copy())
                        outs.append(self.snap_abs(store[-1]))
                    elif k == "rt":
                        o = store[op[1]]
                        pre.append([self.snap(o)])
                        a = o.toAbsTime()
                        store.append(T.readUnixTime(a))
                        outs.append(dict(self.snap_abs(store[-1]), a=fbits(a)))
                    elif k == "set":
                        o = store[op[1]]
                        pre.append([self.snap(o)])
                        assign(o, ATTRS[op[2]], op[3])
                        outs.append("u")
                    elif k == "abs":
                        o = store[op[1]]
                        pre.append([self.snap(o)])
                        outs.append({"x": fbits(o.toAbsTime())})
                    elif k == "cmp":
                        a, b = store[op[1]], store[op[2]]
                        pre.append([self.snap(a), self.snap(b)])
                        outs.append({"f": [int(a < b), int(a > b), int(a == b), int(a <= b), int(a >= b), int(a != b)],
                                     "x": [fbits(a.toAbsTime()), fbits(b.toAbsTime())]})
                    elif k == "sub":
                        a, b = store[op[1]], store[op[2]]
                        pre.append([self.snap(a), self.snap(b)])
                        outs.append({"x": fbits(a - b)})
                    elif k == "pz":
                        o = store[op[1]]
                        pre.append([self.snap(o)])
                        outs.append({"s": o.printZone()})
                    elif k == "tz":
                        o = store[op[1]]
                        pre.append([self.snap(o)])
                        before = T.getPrintFormat()
                        r = o.timeWithZone()
                        outs.append({"s": r + ("" if T.getPrintFormat() == before else " [print format left as %r]" % T.getPrintFormat())})
                        T.setPrintFormat(before)
                    elif k == "dow":
                        o = store[op[1]]
                        pre.append([self.snap(o)])
                        outs.append({"s": o.getDayOfWeek()})
                    elif k == "trk":
                        pre.append([])
                        track = self.Track([self.Obs(self.ENU(float(n), 0.0, 0.0), store[i]) for n, i in enumerate(op[1])])
                        outs.append("u")
                    elif k == "tget":
                        pre.append([self.snap(o.timestamp) for o in track])
                        outs.append({"i": track.getTimeZone()})
                    elif k == "tset":
                        pre.append([self.snap(o.timestamp) for o in track])
                        for o in track:
                            undo.append((o.timestamp, "zone", o.timestamp.zone))
                        track.setTimeZone(op[1])
                        outs.append("u")
                    elif k in ("tconv", "tadd"):
                        pre.append([self.snap(o.timestamp) for o in track])
                        if k == "tconv":
                            track.convertToTimeZone(op[1])
                        else:
                            track.addSeconds(arg(op[1], op[2]))
                        new = [o.timestamp for o in track]
                        store += new
                        outs.append({"l": [self.snap_abs(t) for t in new]})
                    else:
                        raise ValueError(k)
                except BaseException as e:
                    if isinstance(e, KeyboardInterrupt):
                        raise
                    # a statement that raises ends the program there: what it raised is its output (the oracle judges it
                    # only if the statement is one the property speaks about, on operands inside its domain)
                    from engine import err_kind
                    del pre[n_op + 1:], outs[n_op:]
                    pre += [[]] * (n_op + 1 - len(pre))
                    outs.append({"err": err_kind(e), "detail": str(e)[:200]})
                    stopped = n_op
                    break

            alias = [min(j for j in range(len(store)) if store[j] is store[i]) for i in range(len(store))]
            trk = []
            if track is not None:
                for o in track:
                    trk.append(next((j for j in range(len(store)) if store[j] is o.timestamp), -1))
            r = {"outs": outs, "pre": pre, "store": [self.snap(o) for o in store], "alias": alias, "track": trk}
            if stopped is not None:
                r["stopped"] = stopped
            return r
        finally:
            for o, attr, old in reversed(undo):
                setattr(o, attr, old)

    def impl(self, case):
        k = case["kind"]
        if k == "prog":
            return self.run_prog(case["ops"])
        if k == "day":
            t = self.mk(case["f"], self.zones_of(case, 1)[0], self.classes_of(case, 1)[0])
            a = t.toAbsTime()
            back = self.T.readUnixTime(a)
            return {"abs_ms": round(a * 1000), "back": self.fields(back), "abs": fbits(a), "back_abs": fbits(back.toAbsTime())}
        if k == "secs":
            rows = []
            for s in range(case["start"], case["start"] + case["n"]):
                t = self.T.readUnixTime(s)
                rows.append(self.fields(t) + [round(t.toAbsTime() * 1000)])
            return {"rows": rows}
        if k == "seq":
            # every sequence starts from the conversions of the epoch, as a fresh interpreter's first calls would be:
            # whatever the calls of earlier cases left behind is overwritten as far as a call can do it
            self.T.readUnixTime(self.mk([1970, 1, 1, 0, 0, 0, 0]).toAbsTime())
            rows = []
            for f, z, c in zip(case["fs"], self.zones_of(case, len(case["fs"])), self.classes_of(case, len(case["fs"]))):
                a = self.mk(f, z, c).toAbsTime()
                rows.append({"abs": fbits(a), "back": self.fa(self.T.readUnixTime(a))})
            return {"rows": rows}
        if k == "cmp":
            za, zb = self.zones_of(case, 2)
            ca, cb = self.classes_of(case, 2)
            a, b = self.mk(case["a"], za, ca), self.mk(case["b"], zb, cb)
            return {"ops": [int(a < b), int(a > b), int(a == b), int(a <= b), int(a >= b), int(a != b)], "sub": fbits(a - b)}
        if k == "add":
            a = self.mk(case["a"], self.zones_of(case, 1)[0], self.classes_of(case, 1)[0])
            r = {"sec": a.addSec, "min": a.addMin, "hour": a.addHour, "day": a.addDay}[case["unit"]](case["nb"])
            return {"res": self.fields(r), "abs": fbits(r.toAbsTime())}
        if k == "rdf":
            rows = []
            for x in case["x"]:
                try:
                    rows.append(self.fa(self.T.readUnixTime(bitsf(x))))
                except Exception as e:   # row by row: a negative argument (outside the property) must not hide the other rows
                    from engine import err_kind
                    rows.append({"err": err_kind(e)})
            return {"rows": rows}
        if k == "cmpf":
            a, b = self.T.readUnixTime(bitsf(case["x"])), self.T.readUnixTime(bitsf(case["y"]))
            return {"a": self.fa(a), "b": self.fa(b),
                    "ops": [int(a < b), int(a > b), int(a == b), int(a <= b), int(a >= b), int(a != b)], "sub": fbits(a - b)}
        if k == "addf":
            a = self.mk(case["a"], self.zones_of(case, 1)[0], self.classes_of(case, 1)[0])
            r = {"sec": a.addSec, "min": a.addMin, "hour": a.addHour, "day": a.addDay}[case["unit"]](self.amount(case))
            return {"res": self.fa(r), "self": self.fields(a)}
        if k == "eqx":
            a = self.mk(case["a"], 0, case["ca"])
            x = self.mk(case["b"], 0, case["cb"]) if "b" in case else self.other_operand(case["other"], a)
            res = []
            for f in (lambda: a < x, lambda: a > x, lambda: a == x, lambda: a <= x, lambda: a >= x, lambda: a != x, lambda: x == a, lambda: x != a):
                try:
                    r = f()
                    res.append(int(r) if isinstance(r, bool) else repr(r))
                except AttributeError:
                    res.append("attr")
                except Exception as e:
                    res.append("exc:" + type(e).__name__)
            return {"ops": res}
        if k == "ctor":
            T = self.T
            pf, rf = T.getPrintFormat(), T.getReadFormat()
            T.setPrintFormat(DEFAULT_FMT); T.setReadFormat(DEFAULT_FMT)
            try:
                t = self.mk(case["f"])
                s = str(t)
                t2, t3, cp, d = T(s), T.readTimestamp(s), t.copy(), T()
                out = {"str": s, "ctor": self.fa(t2), "read": self.fields(t3), "default": self.fa(d),
                       "copy": self.fields(cp), "copy_eq": [int(cp == t), int(cp != t), int(cp is t)]}
                cp.sec = (cp.sec + 1) % 60   # the copy is an independent object
                out["orig_after"] = self.fields(t)
                return out
            finally:
                T.setPrintFormat(pf); T.setReadFormat(rf)
        raise ValueError(k)

    # ---------------------------------------------------------------- model
    MULT = {"sec": 1, "min": 60, "hour": 3600, "day": 86400}

    @staticmethod
    def prog_tokens(ops):
        t = []
        for op in ops:
            k = op[0]
            if k == "new":
                t += ["new"] + list(map(str, op[1])) + [str(op[2])]
            elif k == "read":
                t += ["read", op[1]]
            elif k == "add":
                t += ["add", str(op[1]), op[2], op[3]]
            elif k == "trk":
                t += ["trk", ",".join(map(str, op[1]))]
            elif k == "tadd":
                t += ["tadd", op[1]]
            else:
                t += [k] + list(map(str, op[1:]))
        return " ".join(t)

    @staticmethod
    def dobj(tok):
        """decode `y m d H M S ms zone <bits of toAbsTime()>`"""
        p = tok.split()
        return {"o": list(map(int, p[:8])), "abs": p[8]}

    def decode_prog(self, case, reply):
        if reply.startswith("err:") or reply == "bad-request":
            return {"err": reply}
        outs_s, store_s, track_s = reply.split("#")
        outs = []
        for r in outs_s.split("|"):
            tag, _, rest = r.partition(" ")
            if tag == "o":
                outs.append(self.dobj(rest))
            elif tag == "r":
                a, _, o = rest.partition(" ")
                outs.append(dict(self.dobj(o), a=a))
            elif tag == "l":
                outs.append({"l": [self.dobj(o) for o in rest.split(";")] if rest != "_" else []})
            elif tag == "x":
                outs.append({"x": rest})
            elif tag == "f":
                p = rest.split()
                outs.append({"f": list(map(int, p[:6])), "x": p[6:8]})
            elif tag == "s":
                outs.append({"s": rest})
            elif tag == "i":
                outs.append({"i": int(rest)})
            elif tag == "u":
                outs.append("u")
            else:
                outs.append({"err": r})
        for op, o in zip(case["ops"], outs):
            if op[0] == "dow" and isinstance(o, dict) and "i" in o:
                o["s"] = DAY_NAMES[o.pop("i")]
        store = [list(map(int, o.split())) for o in store_s.split(";")] if store_s != "_" else []
        track = list(map(int, track_s.split(","))) if track_s != "_" else []
        return {"outs": outs, "store": store, "alias": list(range(len(store))), "track": track}

    def requests(self, case):
        k = case["kind"]
        if k == "prog":
            return ["C03.prog " + self.prog_tokens(case["ops"])]
        if k == "day":
            f = case["f"]
            ms = oracle_ms(f)  # only used to address the `read` request; `abs` is computed by the model
            return ["C03.abs " + " ".join(map(str, f)), "C03.read %d" % ms, "C03.rtf " + " ".join(map(str, f))]
        if k == "secs":
            out = []
            for s in range(case["start"], case["start"] + case["n"]):
                out.append("C03.read %d" % (s * 1000))
            return out
        if k == "seq":
            return ["C03.rtf " + " ".join(map(str, f)) for f in case["fs"]]
        if k == "cmp":
            ab = " ".join(map(str, case["a"] + case["b"]))
            return ["C03.cmp " + ab, "C03.subf " + ab]
        if k == "add":
            return ["C03.add " + " ".join(map(str, case["a"])) + " %d" % (case["nb"] * self.MULT[case["unit"]]),
                    "C03.addf " + " ".join(map(str, case["a"])) + " %s %s" % (case["unit"], fbits(float(case["nb"])))]
        if k == "rdf":
            return ["C03.readf %s" % x for x in case["x"]]
        if k == "cmpf":
            return ["C03.readf %s" % case["x"], "C03.readf %s" % case["y"], "C03.cmpf %s %s" % (case["x"], case["y"])]
        if k == "addf":
            return ["C03.addf " + " ".join(map(str, case["a"])) + " %s %s" % (case["unit"], case["nb"])]
        if k == "eqx":
            return ["C03.cmpo %s %d %s" % (" ".join(map(str, case["a"])), case["ca"],
                                          "inst %d %s" % (case["cb"], " ".join(map(str, case["b"]))) if "b" in case else "other")]
        if k == "ctor":
            return ["C13.time %s %s %s" % (hexs(DEFAULT_FMT), hexs(DEFAULT_FMT), " ".join(map(str, case["f"]))), "C03.default",
                    "C03.absf " + " ".join(map(str, case["f"])), "C03.absf 1970 1 1 0 0 0 0"]

    @staticmethod
    def dfa(reply):
        """decode a `readf`-style reply"""
        if reply.startswith("err:"):
            return {"err": reply}
        p = reply.split()
        return {"f": list(map(int, p[:7])), "abs": p[7]}

    def decode(self, case, replies):
        k = case["kind"]
        if k == "prog":
            return self.decode_prog(case, replies[0])
        if k == "day":
            rt = replies[2].split()
            return {"abs_ms": int(replies[0]), "back": list(map(int, replies[1].split())),
                    "abs": rt[0], "backf": list(map(int, rt[1:8])), "back_abs": rt[8]}
        if k == "secs":
            rows = []
            for i, r in enumerate(replies):
                rows.append(list(map(int, r.split())) + [(case["start"] + i) * 1000])
            return {"rows": rows}
        if k == "seq":
            return {"rows": [{"abs": r.split()[0], "back": self.dfa(r.split(None, 1)[1])} for r in replies]}
        if k == "cmp":
            return {"ops": list(map(int, replies[0].split())), "sub": replies[1]}
        if k == "add":
            r = self.dfa(replies[1])
            return {"res": list(map(int, replies[0].split())), "resf": r["f"], "abs": r["abs"]}
        if k == "rdf":
            return {"rows": [self.dfa(r) for r in replies]}
        if k == "cmpf":
            p = replies[2].split()
            return {"a": self.dfa(replies[0]), "b": self.dfa(replies[1]), "ops": list(map(int, p[:6])), "sub": p[6]}
        if k == "addf":
            return {"res": self.dfa(replies[0]), "self": case["a"]}
        if k == "eqx":
            if replies[0] == "bad-request":
                return {"err": replies[0]}
            return {"ops": [int(x) if x in ("0", "1") else x for x in replies[0].split()]}
        if k == "ctor":
            p = replies[0].split()
            back = list(map(int, p[1].split(",")))
            d = list(map(int, replies[1].split()))
            return {"str": unhexs(p[0]), "ctor": {"f": back, "abs": replies[2]}, "read": back,
                    "default": {"f": d, "abs": replies[3]}, "copy": case["f"], "copy_eq": [1, 0, 0], "orig_after": case["f"]}

    def compare(self, case, impl_out, model_out):
        k = case["kind"]
        if "err" in impl_out:
            return Prop.compare(self, case, impl_out, model_out)
        if k == "day":
            # the integer model addresses `read` by the oracle's instant: first make sure the model's own abs agrees
            if model_out["abs_ms"] != oracle_ms(case["f"]):
                return "model abs %s differs from the calendar oracle %s" % (model_out["abs_ms"], oracle_ms(case["f"]))
            if impl_out["abs_ms"] != model_out["abs_ms"]:
                return "abs: impl=%s model=%s" % (impl_out["abs_ms"], model_out["abs_ms"])
            bi, bm = impl_out["back"], model_out["back"]
            if bi[:6] != bm[:6] or not (bi[6] == bm[6] or (case["f"][6] != 0 and bi[6] == bm[6] - 1)):
                # the float code may truncate a non-zero millisecond one low: not exhibited by the integer model
                return "back: impl=%s integer model=%s" % (bi, bm)
            # the Float instance of the generic model is exact
            if (impl_out["abs"], bi, impl_out["back_abs"]) != (model_out["abs"], model_out["backf"], model_out["back_abs"]):
                return "float path: impl=%s model=%s" % ((impl_out["abs"], bi, impl_out["back_abs"]),
                                                         (model_out["abs"], model_out["backf"], model_out["back_abs"]))
            return None
        if k == "prog":
            # outputs, final objects, identity of objects and the track, exactly; `pre` is only there for the oracle
            a = {x: impl_out.get(x) for x in ("outs", "store", "alias", "track")}
            if a != model_out:
                for key in ("outs", "store", "alias", "track"):
                    if a[key] != model_out.get(key):
                        if key == "outs" and len(a[key]) == len(model_out[key]):
                            i = next(i for i in range(len(a[key])) if a[key][i] != model_out[key][i])
                            return "statement %d %s: impl=%s model=%s" % (i, case["ops"][i], json_short(a[key][i]), json_short(model_out[key][i]))
                        return "%s: impl=%s model=%s" % (key, json_short(a[key]), json_short(model_out.get(key)))
                return "impl=%s model=%s" % (json_short(a), json_short(model_out))
            return None
        if k == "add":
            bi, bm = impl_out["res"], model_out["res"]
            if bi[:6] != bm[:6] or not (bi[6] == bm[6] or (case["a"][6] != 0 and bi[6] == bm[6] - 1)):
                return "add: impl=%s integer model=%s" % (bi, bm)
            if (bi, impl_out["abs"]) != (model_out["resf"], model_out["abs"]):
                return "add, float path: impl=%s model=%s" % ((bi, impl_out["abs"]), (model_out["resf"], model_out["abs"]))
            return None
        # every other stream is exact (integers and bit patterns)
        if impl_out != model_out:
            return "impl=%s model=%s" % (json_short(impl_out), json_short(model_out))
        return None

    # ---------------------------------------------------------------- oracle (transfer)
    @staticmethod
    def check_abs(f, abs_bits, what):
        """the seconds value of a well-formed stamp agrees with the proleptic Gregorian calendar (to the resolution of a double)"""
        a = bitsf(abs_bits)
        want = Fraction(oracle_ms(f), 1000)
        if abs(Fraction(a) - want) > 2 * math.ulp(max(1.0, abs(float(want)))):
            return "toAbsTime() of %s %s = %r, proleptic Gregorian calendar says %s" % (what, f, a, float(want))
        return None

    @staticmethod
    def ops_of(a, b):
        return [int(a < b), int(a > b), int(a == b), int(a <= b), int(a >= b), int(a != b)]

    def check_read(self, x, row):
        """readUnixTime(x) for a double x >= 0: well formed, same instant to within one millisecond, exact on whole seconds"""
        f = row["f"]
        if not wellformed(f):
            return "readUnixTime(%r) = %s is not a well-formed date" % (x, f)
        got = Fraction(oracle_ms(f), 1000)
        if abs(Fraction(x) - got) > MS:
            return "readUnixTime(%r) = %s is %s s away from the instant" % (x, f, float(got - Fraction(x)))
        if x == math.floor(x) and f != oracle_fields(int(x) * 1000):
            return "readUnixTime(%r) = %s, calendar says %s" % (x, f, oracle_fields(int(x) * 1000))
        return self.check_abs(f, row["abs"], "readUnixTime(%r) =" % x)

    def check_moved(self, what, pre, amount_s, res):
        """`res` (fields + zone, abs) was obtained from the well-formed stamp `pre` by adding `amount_s` seconds"""
        start = Fraction(oracle_ms(pre[:7]), 1000)
        want = start + amount_s
        if want < 0:
            return None   # leads before 1970: outside the property (correspondence only)
        got = res["o"][:7]
        if not wellformed(got):
            return "%s gives the malformed date %s" % (what, got)
        g = Fraction(oracle_ms(got), 1000)
        tol = MS + 3 * Fraction(math.ulp(max(1.0, float(start), float(want))))
        if abs(g - want) > tol:
            return "%s gives %s: moved by %s s instead of %s s" % (what, got, float(g - start), float(amount_s))
        if pre[6] == 0 and amount_s.denominator == 1 and got != oracle_fields(int(want * 1000)):
            return "%s gives %s, expected %s" % (what, got, oracle_fields(int(want * 1000)))
        return self.check_abs(got, res["abs"], "the result of %s," % what)

    def stmt_in_domain(self, op, pre):
        """is this statement of a program a conversion, comparison or offset the property speaks about, applied to operands
        inside its domain (well formed, not before 1970) and - offsets, readUnixTime - asked for an instant not before 1970?"""
        k = op[0]
        wf = [in_domain(q[:7]) for q in pre]
        at = lambda q: Fraction(oracle_ms(q[:7]), 1000)
        try:
            if k == "new":
                return in_domain(op[1])
            if k == "read":
                x = bitsf(op[1])
                return math.isfinite(x) and x >= 0
            if k in ("rt", "abs"):
                return wf[0]
            if k in ("cmp", "sub"):
                return all(wf)
            if k == "add":
                return wf[0] and math.isfinite(bitsf(op[3])) and at(pre[0]) + Fraction(bitsf(op[3])) * self.MULT[op[2]] >= 0
            if k == "tadd":
                return bool(pre) and all(wf) and math.isfinite(bitsf(op[1])) and all(at(q) + Fraction(bitsf(op[1])) >= 0 for q in pre)
            if k in ("conv", "tconv"):
                # as for the results (see spec_prog): what comes back is a calendar stamp read from a number of seconds
                z = op[2] if k == "conv" else op[1]
                return bool(pre) and all(wf) and all(at(q) + 3600 * (z - q[7]) >= 0 for q in pre)
        except (IndexError, ValueError, OverflowError):
            return False
        # copy, printZone, timeWithZone, getDayOfWeek, attribute assignments and the Track plumbing of the harness: nothing the property says can be failed by raising there
        return False

    def spec_prog(self, case, out):
        """Every statement of a program is judged on its own, with the state its operands had when it was executed:
        what the statement says about conversions, comparisons and offsets does not depend on what was done before
        with other objects (or with earlier results), nor on the `zone` label of a stamp."""
        ops = case["ops"]
        said = lambda i: " (statement %d of %s)" % (i, json_short(ops))
        cl = prog_classes(ops)

        def who(op):
            """the classes of the two operands of a comparison, when one of them is not plain ObsTime"""
            if cl[op[1]] == 0 and cl[op[2]] == 0:
                return ""
            return "; the first is an instance of %s, the second of %s" % (CLASS_NAMES[cl[op[1]]], CLASS_NAMES[cl[op[2]]])
        for i, (op, o, pre) in enumerate(zip(ops, out["outs"], out["pre"])):
            k = op[0]
            wf = [in_domain(q[:7]) for q in pre]
            m = None
            if isinstance(o, dict) and "err" in o:
                # the statement raised (the program stopped there): a failure of the property only if the statement is one the
                # property speaks about and its operands - and the instant it is asked for - are inside the domain
                if self.stmt_in_domain(op, pre):
                    return "%s raised %s (%s)" % (op, o["err"], o.get("detail", "")) + said(i)
                continue
            if k == "new":
                if in_domain(op[1]):
                    if o["o"][:7] != op[1]:
                        m = "ObsTime(%s, zone=%s) has fields %s" % (op[1], op[2], o["o"][:7])
                    else:
                        m = self.check_abs(op[1], o["abs"], "ObsTime(..., zone=%s) =" % op[2])
            elif k == "read":
                x = bitsf(op[1])
                if x >= 0:
                    m = self.check_read(int(x) if op[2] in ("i", "ni") else x, {"f": o["o"][:7], "abs": o["abs"]})
            elif k == "rt":
                if wf[0]:
                    f = pre[0][:7]
                    b = o["o"][:7]
                    m = self.check_abs(f, o["a"], "(zone %s)" % pre[0][7])
                    if not m:
                        if not wellformed(b):
                            m = "round trip of %s (zone %s) gives the malformed date %s" % (f, pre[0][7], b)
                        else:
                            diff = abs(oracle_ms(b) - oracle_ms(f))
                            if diff > 1 or (f[6] == 0 and b != f):
                                m = "round trip of %s (zone %s) gives %s (off by %d ms)" % (f, pre[0][7], b, diff)
                            else:
                                m = self.check_abs(b, o["abs"], "the round trip")
            elif k == "add":
                if wf[0]:
                    nb = bitsf(op[3])
                    nb = int(nb) if op[4] else nb
                    m = self.check_moved("add%s(%r) on %s (zone %s)" % (op[2].capitalize(), nb, pre[0][:7], pre[0][7]), pre[0],
                                         Fraction(nb) * self.MULT[op[2]], o)
            elif k == "tadd":
                nb = bitsf(op[1])
                for q, r in zip(pre, o["l"]):
                    if in_domain(q[:7]) and not m:
                        m = self.check_moved("Track.addSeconds(%r) on the timestamp %s (zone %s)" % (nb, q[:7], q[7]), q, Fraction(nb), r)
            elif k in ("conv", "tconv"):
                # the statement does not say what a change of zone is; what comes back is a calendar stamp read from a number
                # of seconds: it must be a well-formed one whose seconds agree with the calendar
                z = op[2] if k == "conv" else op[1]
                for q, r in zip(pre, [o] if k == "conv" else o["l"]):
                    if in_domain(q[:7]) and not m and Fraction(oracle_ms(q[:7]), 1000) + 3600 * (z - q[7]) >= 0:
                        if not wellformed(r["o"][:7]):
                            m = "convertToZone(%s) on %s (zone %s) gives the malformed date %s" % (z, q[:7], q[7], r["o"][:7])
                        else:
                            m = self.check_abs(r["o"][:7], r["abs"], "the result of convertToZone(%s) on %s (zone %s)," % (z, q[:7], q[7]))
            elif k == "abs":
                if wf[0]:
                    m = self.check_abs(pre[0][:7], o["x"], "(zone %s)" % pre[0][7])
            elif k == "cmp":
                if all(wf):
                    a, b = oracle_ms(pre[0][:7]), oracle_ms(pre[1][:7])
                    want = self.ops_of(a, b)
                    sa, sb = bitsf(o["x"][0]), bitsf(o["x"][1])
                    if o["f"] != want:
                        m = "comparisons [<,>,==,<=,>=,!=] of %s (zone %s) and %s (zone %s) give %s, epoch order says %s" % (
                            pre[0][:7], pre[0][7], pre[1][:7], pre[1][7], o["f"], want) + who(op)
                    elif o["f"] != self.ops_of(sa, sb):
                        m = "comparisons [<,>,==,<=,>=,!=] of %s (zone %s) and %s (zone %s) give %s, their toAbsTime() values %r, %r say %s" % (
                            pre[0][:7], pre[0][7], pre[1][:7], pre[1][7], o["f"], sa, sb, self.ops_of(sa, sb))
            elif k == "sub":
                if all(wf):
                    a, b = oracle_ms(pre[0][:7]), oracle_ms(pre[1][:7])
                    d = bitsf(o["x"])
                    if abs(Fraction(d) - Fraction(a - b, 1000)) > 4 * math.ulp(max(a, b, 1000) / 1000.0) or self.ops_of(d, 0)[:3] != self.ops_of(a, b)[:3]:
                        m = "%s (zone %s) - %s (zone %s) = %r, the seconds differ by %s" % (pre[0][:7], pre[0][7], pre[1][:7], pre[1][7], d, (a - b) / 1000.0)
            if m:
                return m + said(i)
        # a stamp denotes its instant for as long as nobody assigns to it: at the end of the program every attribute the
        # program did not assign (directly, or the zone through Track.setTimeZone) still has the value it had when the
        # object was returned
        lay = prog_layout(ops)
        created, written, track = {}, {}, []
        for (a, c), op, o in zip(lay, ops, out["outs"]):
            if isinstance(o, dict) and "err" in o:
                break
            if op[0] in OBJ_OPS:
                created[a] = (o["o"], op)
            elif op[0] in ("tconv", "tadd"):
                for j, r in enumerate(o["l"]):
                    created[a + j] = (r["o"], op)
                track = list(range(a, a + c))
            elif op[0] == "trk":
                track = list(op[1])
            elif op[0] == "set":
                written.setdefault(op[1], set()).add(op[2])
            elif op[0] == "tset":
                for sl in track:
                    written.setdefault(sl, set()).add(7)
        for sl, (was, op) in sorted(created.items()):
            now = out["store"][sl]
            for x in range(8):
                if x not in written.get(sl, ()) and now[x] != was[x]:
                    return "the stamp returned by %s was %s (zone %s); after the rest of the program, which never assigns to its %s, it is %s (zone %s) (program %s)" % (
                        op, was[:7], was[7], ATTRS[x], now[:7], now[7], json_short(ops))
        return None

    def judged(self, case):
        """does the case ask for something the property speaks about, on inputs inside its domain? (decided on the INPUT alone,
        before looking at what the implementation did - raising included)"""
        k = case["kind"]
        # operands outside the domain of the statement (malformed, or before 1970) are not judged: the generators never
        # produce them, a hand-written replay or corpus file may
        if k in ("day", "cmp", "add", "addf", "ctor") and not all(in_domain(case[x]) for x in ("f", "a", "b") if x in case):
            return False
        if k == "addf":   # an offset that leads before 1970: outside the property (correspondence only)
            return Fraction(oracle_ms(case["a"]), 1000) + Fraction(self.amount(case)) * self.MULT[case["unit"]] >= 0
        if k == "add":
            return case["nb"] >= 0
        if k == "eqx":    # an operand that is not a timestamp: the statement says nothing (correspondence only)
            return "b" in case and in_domain(case["a"]) and in_domain(case["b"])
        if k == "cmpf":
            return bitsf(case["x"]) >= 0 and bitsf(case["y"]) >= 0
        if k == "rdf":
            return any(bitsf(x) >= 0 for x in case["x"])
        if k == "seq":
            return any(in_domain(f) for f in case["fs"])
        if k == "secs":
            return case["start"] >= 0
        return True

    def spec(self, case, out):
        k = case["kind"]
        if not self.judged(case):
            return None
        if "err" in out:
            return "raised %s" % out["err"]
        if k == "prog":
            return self.spec_prog(case, out)
        if k == "day":
            f = case["f"]
            want = oracle_ms(f)
            if out["abs_ms"] != want:
                return "toAbsTime(%s) = %s ms, proleptic Gregorian calendar says %s" % (f, out["abs_ms"], want)
            b = out["back"]
            if not wellformed(b):
                return "round trip of %s gives the malformed date %s" % (f, b)
            diff = abs(oracle_ms(b) - want)
            if diff > 1 or (f[6] == 0 and b != f):
                return "round trip of %s gives %s (off by %d ms)" % (f, b, diff)
            return self.check_abs(f, out["abs"], "") or self.check_abs(b, out["back_abs"], "the round trip")
        if k == "secs":
            for i, row in enumerate(out["rows"]):
                s = case["start"] + i
                if not wellformed(row[:7]):
                    return "readUnixTime(%d) = %s is not a well-formed date" % (s, row[:7])
                if row[:7] != oracle_fields(s * 1000):
                    return "readUnixTime(%d) = %s, calendar says %s" % (s, row[:7], oracle_fields(s * 1000))
                if row[7] != s * 1000:
                    return "toAbsTime(readUnixTime(%d)) = %s ms" % (s, row[7])
            return None
        if k == "seq":
            for f, row in zip(case["fs"], out["rows"]):
                if not in_domain(f):
                    continue
                m = self.check_abs(f, row["abs"], "")
                if m:
                    return m + " (after the conversions before it in %s)" % case["fs"]
                b = row["back"]["f"]
                if not wellformed(b):
                    return "round trip of %s gives the malformed date %s" % (f, b)
                diff = abs(oracle_ms(b) - oracle_ms(f))
                if diff > 1 or (f[6] == 0 and b != f):
                    return "round trip of %s gives %s (off by %d ms) after the conversions before it in %s" % (f, b, diff, case["fs"])
            return None
        if k == "cmp":
            a, b = oracle_ms(case["a"]), oracle_ms(case["b"])
            want = self.ops_of(a, b)
            if out["ops"] != want:
                ca, cb = self.classes_of(case, 2)
                return "comparisons [<,>,==,<=,>=,!=] of %s and %s give %s, epoch order says %s" % (case["a"], case["b"], out["ops"], want) + (
                    "; the first is an instance of %s, the second of %s" % (CLASS_NAMES[ca], CLASS_NAMES[cb]) if ca or cb else "")
            d = bitsf(out["sub"])
            if abs(Fraction(d) - Fraction(a - b, 1000)) > 4 * math.ulp(max(a, b, 1000) / 1000.0) or self.ops_of(d, 0)[:3] != want[:3]:
                return "%s - %s = %r, the seconds differ by %s" % (case["a"], case["b"], d, (a - b) / 1000.0)
            return None
        if k == "add":
            want = oracle_fields(oracle_ms(case["a"]) + case["nb"] * self.MULT[case["unit"]] * 1000)
            got = out["res"]
            if not wellformed(got):
                return "add%s(%d) on %s gives the malformed date %s" % (case["unit"], case["nb"], case["a"], got)
            d = abs(oracle_ms(got) - oracle_ms(want))
            if d > 1 or (case["a"][6] == 0 and got != want):
                return "add%s(%d) on %s gives %s, expected %s" % (case["unit"], case["nb"], case["a"], got, want)
            return self.check_abs(got, out["abs"], "the result")
        if k == "rdf":
            for xb, row in zip(case["x"], out["rows"]):
                x = bitsf(xb)
                if x < 0:
                    continue   # before 1970: outside the property (correspondence only)
                if "err" in row:
                    return "readUnixTime(%r) raised %s" % (x, row["err"])
                m = self.check_read(x, row)
                if m:
                    return m
            return None
        if k == "cmpf":
            x, y = bitsf(case["x"]), bitsf(case["y"])
            if x < 0 or y < 0:
                return None
            m = self.check_read(x, out["a"]) or self.check_read(y, out["b"])
            if m:
                return m
            fa, fb = out["a"]["f"], out["b"]["f"]
            a, b = oracle_ms(fa), oracle_ms(fb)
            want = self.ops_of(a, b)
            if out["ops"] != want:
                return ("comparisons [<,>,==,<=,>=,!=] of readUnixTime(%r) = %s and readUnixTime(%r) = %s give %s, their seconds since 1970 say %s"
                        % (x, fa, y, fb, out["ops"], want))
            sa, sb = bitsf(out["a"]["abs"]), bitsf(out["b"]["abs"])
            if out["ops"] != self.ops_of(sa, sb):
                return ("comparisons [<,>,==,<=,>=,!=] of %s and %s give %s, their toAbsTime() values %r, %r say %s"
                        % (fa, fb, out["ops"], sa, sb, self.ops_of(sa, sb)))
            d = bitsf(out["sub"])
            if abs(Fraction(d) - Fraction(a - b, 1000)) > 4 * math.ulp(max(a, b, 1000) / 1000.0) or self.ops_of(d, 0)[:3] != want[:3]:
                return "%s - %s = %r, the seconds differ by %s" % (fa, fb, d, (a - b) / 1000.0)
            return None
        if k == "addf":
            nb = self.amount(case)
            mult = self.MULT[case["unit"]]
            start = Fraction(oracle_ms(case["a"]), 1000)
            want = start + Fraction(nb) * mult
            if want < 0:
                return None   # leads before 1970: outside the property (correspondence only)
            got = out["res"]["f"]
            what = "add%s(%r) on %s" % (case["unit"].capitalize(), nb, case["a"])
            if not wellformed(got):
                return "%s gives the malformed date %s" % (what, got)
            g = Fraction(oracle_ms(got), 1000)
            # one millisecond, plus the resolution of the doubles toAbsTime(), nb*unit and their sum
            tol = MS + 3 * Fraction(math.ulp(max(1.0, float(start), float(want))))
            if abs(g - want) > tol:
                return "%s gives %s: moved by %s s instead of %s s" % (what, got, float(g - start), float(want - start))
            if case["a"][6] == 0 and nb == math.floor(nb) and got != oracle_fields(int(want * 1000)):
                return "%s gives %s, expected %s" % (what, got, oracle_fields(int(want * 1000)))
            return self.check_abs(got, out["res"]["abs"], "the result")
        if k == "eqx":
            a, b = oracle_ms(case["a"]), oracle_ms(case["b"])
            want = self.ops_of(a, b) + [int(a == b), int(a != b)]
            if out["ops"] != want:
                return "comparisons [a<b, a>b, a==b, a<=b, a>=b, a!=b, b==a, b!=a] of a = %s and b = %s give %s, epoch order says %s; a is an instance of %s, b of %s" % (
                    case["a"], case["b"], out["ops"], want, CLASS_NAMES[case["ca"]], CLASS_NAMES[case["cb"]])
            return None
        if k == "ctor":
            # The property speaks about conversions and comparisons, not about parsing or defaults: what
            # ObsTime(str)/readTimestamp parse and what ObsTime() is are checked against the model (correspondence).
            # The oracle only asks what the statement asks of the stamps built this way: their seconds agree with the
            # calendar, and the copy compares as its seconds do. (Identity of objects and what a later call or assignment
            # does to an earlier result: the `prog` stream.)
            for name, o in (("ObsTime(%r)" % out["str"], out["ctor"]), ("ObsTime()", out["default"])):
                if in_domain(o["f"]):
                    m = self.check_abs(o["f"], o["abs"], name + " =")
                    if m:
                        return m
            f, c = case["f"], out["copy"]
            if in_domain(c):
                same = oracle_ms(c) == oracle_ms(f)
                if out["copy_eq"][:2] != [int(same), int(not same)]:
                    return "t = %s, t.copy() = %s: [==, !=] give %s although their seconds since 1970 are %s" % (
                        f, c, out["copy_eq"][:2], "equal" if same else "different")
            return None

    # ---------------------------------------------------------------- shrinking / search
    def shrink(self, case):
        k = case["kind"]
        if any(case.get("z") or []):
            yield {x: v for x, v in case.items() if x != "z"}
        if any(case.get("c") or []):
            yield {x: v for x, v in case.items() if x != "c"}
        if k == "prog":
            ops = case["ops"]
            for n in range(len(ops) - 1, 0, -1):          # shorter prefixes
                if n < len(ops):
                    yield {"kind": "prog", "ops": ops[:n]}
            for i in range(len(ops) - 1, -1, -1):        # one statement less
                r = prog_without(ops, i)
                if r:
                    yield {"kind": "prog", "ops": r}
            for i, op in enumerate(ops):                 # plainer statements
                if op[0] == "new" and len(op) > 3 and op[3] != 0:
                    yield {"kind": "prog", "ops": ops[:i] + [op[:3]] + ops[i + 1:]}
                if op[0] == "new" and op[1][3:] != [0, 0, 0, 0]:
                    yield {"kind": "prog", "ops": ops[:i] + [["new", op[1][:3] + [0, 0, 0, 0]] + op[2:]] + ops[i + 1:]}
                if op[0] == "read" and op[2] != "f":
                    yield {"kind": "prog", "ops": ops[:i] + [["read", op[1], "f"]] + ops[i + 1:]}
        if k == "eqx" and (case["ca"] or case.get("cb")):
            yield dict(case, ca=0)
            if "b" in case:
                yield dict(case, cb=0)
        if k == "secs" and case["n"] > 1:
            h = case["n"] // 2
            yield {"kind": "secs", "start": case["start"], "n": h}
            yield {"kind": "secs", "start": case["start"] + h, "n": case["n"] - h}
        if k == "seq" and len(case["fs"]) > 1:
            for i in range(len(case["fs"])):
                yield {"kind": "seq", "fs": case["fs"][:i] + case["fs"][i + 1:]}
        if k == "rdf" and len(case["x"]) > 1:
            h = len(case["x"]) // 2
            yield dict(case, x=case["x"][:h])
            yield dict(case, x=case["x"][h:])
        if k == "cmpf":
            yield {"kind": "rdf", "cls": "from_cmpf", "x": [case["x"]]}
            yield {"kind": "rdf", "cls": "from_cmpf", "x": [case["y"]]}
        if k == "day":
            f = case["f"]
            for i, v in ((6, 0), (5, 0), (4, 0), (3, 0)):
                if f[i] != v:
                    g = list(f); g[i] = v
                    yield {"kind": "day", "f": g}
        if k == "add" and case["nb"] > 0:
            yield dict(case, nb=case["nb"] // 2)
            yield dict(case, nb=case["nb"] - 1)
        if k == "addf":
            a = case["a"]
            for i, v in ((6, 0), (5, 0), (4, 0), (3, 0)):
                if a[i] != v:
                    g = list(a); g[i] = v
                    yield dict(case, a=g)
            if case["unit"] != "sec":
                yield dict(case, unit="sec")

    def mutate(self, case, rng):
        k = case["kind"]
        if k == "secs":
            for d in (-86400, 86400, -1, 1):
                yield {"kind": "secs", "start": max(0, case["start"] + d), "n": case["n"]}
        if k == "rdf":
            for xb in case["x"][:5]:
                x = bitsf(xb)
                for y in (math.nextafter(x, 0.0), math.nextafter(x, math.inf), x + 0.0005, math.floor(x) + 0.9996, float(math.floor(x))):
                    if y >= 0:
                        yield {"kind": "rdf", "cls": "mutant", "x": [fbits(y)]}
                        yield {"kind": "cmpf", "x": xb, "y": fbits(y)}
        if k == "cmpf":
            yield {"kind": "rdf", "cls": "mutant", "x": [case["x"], case["y"]]}
        if k == "addf":
            nb = bitsf(case["nb"])
            for d in (0.0005, -0.0005, 0.9996):
                yield dict(case, nb=fbits(nb + d), int=False)


def json_short(o):
    import json
    return json.dumps(o)[:400]


# ---- tie to the source by translation (tools/py2lean.py -> lean/TracklibVerif/Gen/ObsTime.lean, regenerated on every run)
P.tie_modules = ["TracklibVerif.Tie.C03"]
P.theorems = P.theorems + [
    ("TracklibVerif.Tie.C03", "TV.Tie.C03.tie_isLeapYear", "the Lean translation of the CURRENT source of ObsTime.isLeapYear equals the model's isLeap on every year >= 0"),
    ("TracklibVerif.Tie.C03", "TV.Tie.C03.tie_toAbsTime", "the Lean translation of the CURRENT source of ObsTime.toAbsTime (both for loops, the table lookups, the integer accumulator) returns the model's toAbsG on every stamp with month <= 13"),
    ("TracklibVerif.Tie.C03", "TV.Tie.C03.tie_toAbsTime_index", "error correspondence: for month >= 14 the translated toAbsTime raises IndexError (the model's toAbsG is total there)"),
    ("TracklibVerif.Tie.C03", "TV.Tie.C03.tie_toAbsTime_total", "on EVERY stamp the translated toAbsTime is the model's toAbsGE: the value toAbsG for month <= 13, IndexError from month 14 on"),
    ("TracklibVerif.Tie.C03", "TV.Tie.C03.tie_readUnixTime_modelFuel", "the Lean translation of the CURRENT source of ObsTime.readUnixTime (while-True year loop, month loop with break, truncations), run with the model's fuel int(e/31536000)+1, returns the attributes of readUnixG's stamp and is out of fuel exactly when the model is"),
    ("TracklibVerif.Tie.C03", "TV.Tie.C03.tie_readUnixTime", "whenever the model readUnixG returns a stamp, the translated readUnixTime returns its attributes for EVERY fuel >= the model's bound"),
]
