"""C03 — timestamps <-> epoch seconds (tracklib/core/obs_time.py)."""
import calendar, datetime
from engine import Prop

EPOCH = datetime.datetime(1970, 1, 1)


def leap(y):
    return y % 4 == 0 and (y % 100 != 0 or y % 400 == 0)


def mdays(y, m):
    return [31, 29 if leap(y) else 28, 31, 30, 31, 30, 31, 31, 30, 31, 30, 31][m - 1]


def wellformed(f):
    y, mo, d, h, mi, s, ms = f
    return (1 <= mo <= 12 and 1 <= d <= mdays(y, mo) and 0 <= h <= 23 and 0 <= mi <= 59
            and 0 <= s <= 59 and 0 <= ms <= 999)


def oracle_ms(f):
    """independent epoch milliseconds of a well-formed field list (proleptic Gregorian, no leap seconds)"""
    y, mo, d, h, mi, s, ms = f
    return calendar.timegm((y, mo, d, h, mi, s)) * 1000 + ms


def oracle_fields(ms_total):
    dt = EPOCH + datetime.timedelta(milliseconds=ms_total)
    return [dt.year, dt.month, dt.day, dt.hour, dt.minute, dt.second, dt.microsecond // 1000]


class P(Prop):
    id = "C03"
    design_ref = "DESIGN.md section 5, C03"
    theorems = [
        ("TracklibVerif.Props.C03", "TV.C03.readUnix_wellFormed", "every instant reads as a well-formed calendar stamp (no bound on the year)"),
        ("TracklibVerif.Props.C03", "TV.C03.toAbs_readUnix", "toAbs (readUnix t) = t for every millisecond count t"),
        ("TracklibVerif.Props.C03", "TV.C03.readUnix_toAbs", "readUnix (toAbs s) = s for every well-formed stamp"),
        ("TracklibVerif.Props.C03", "TV.C03.toAbs_gregorian", "toAbs agrees with the closed-form proleptic Gregorian day number"),
        ("TracklibVerif.Props.C03", "TV.C03.lt_iff", "field-wise < agrees with < on epoch milliseconds"),
        ("TracklibVerif.Props.C03", "TV.C03.gt_iff", "field-wise > agrees with > on epoch milliseconds"),
        ("TracklibVerif.Props.C03", "TV.C03.eq_iff", "== agrees with equality of epoch milliseconds"),
        ("TracklibVerif.Props.C03", "TV.C03.le_iff", "<= (defined as not >) agrees with <= on epoch milliseconds"),
        ("TracklibVerif.Props.C03", "TV.C03.ge_iff", ">= (defined as not <) agrees with >= on epoch milliseconds"),
        ("TracklibVerif.Props.C03", "TV.C03.addSec_spec", "adding n seconds moves the instant by exactly n seconds and stays well-formed"),
    ]
    partial = []
    open_statements = ["float truncation of the sub-second part (ms = int(frac*1000)) is not modelled: 'within one millisecond' is sampled by the transfer check"]
    modelled = "ObsTime.readUnixTime (year loop, month loop, truncating divisions), toAbsTime, __eq__/__ne__/__lt__/__gt__/__le__/__ge__, addSec/addMin/addHour/addDay; integer milliseconds instead of float seconds"
    rule = ("days enumerated from 1970-01-01 (all days to 2099 in thorough; the boundary days of every year in quick) x 4 intra-day instants; "
            "whole boundary days second by second; century years 2100..2400; ordered pairs one unit apart in each field; offsets crossing day/month/year. "
            "non-trivial = not (1 January 00:00:00.000 of 1970), i.e. every case exercises at least one loop iteration or comparison")

    def setup(self):
        from tracklib.core.obs_time import ObsTime
        self.T = ObsTime

    # ---------------------------------------------------------------- generators
    def exhaustive_scopes(self, tier):
        if tier == "thorough":
            return ["every calendar day 1970-01-01..2099-12-31 x {00:00:00.000, 12:00:00.000, 23:59:59.999, random ms}",
                    "every second within 30 min of both midnights of 28 Feb, 29 Feb/1 Mar, 31 Dec, 1 Jan for every year 1970..2099; every second of those four days for 1970, 1971, 1972, 1999, 2000, 2099 and two seeded years",
                    "boundary days of 2100, 2200, 2300, 2400"]
        return ["boundary days (1 Jan, 28 Feb, 29 Feb or 1 Mar, 31 Dec) of every year 1970..2099 and of 2100, 2200, 2300, 2400 x 4 instants"]

    def boundary_days(self, y):
        return [(y, 1, 1), (y, 2, 28), (y, 2, 29) if leap(y) else (y, 3, 1), (y, 12, 31), (y, 12, 30), (y, 3, 1)]

    def cases(self, rng, tier):
        out = []
        years = list(range(1970, 2100))

        def instants(y, m, d):
            return [(0, 0, 0, 0), (12, 0, 0, 0), (23, 59, 59, 999),
                    (rng.randrange(24), rng.randrange(60), rng.randrange(60), rng.randrange(1000))]
        if tier == "thorough":
            days = [(y, m, d) for y in years for m in range(1, 13) for d in range(1, mdays(y, m) + 1)]
        else:
            days = [dd for y in years for dd in self.boundary_days(y)]
            for _ in range(1500):
                y = rng.choice(years); m = rng.randrange(1, 13)
                days.append((y, m, rng.randrange(1, mdays(y, m) + 1)))
        for y in (2100, 2200, 2300, 2400, 2399, 2401):
            days += self.boundary_days(y)
        for (y, m, d) in days:
            for (h, mi, s, ms) in instants(y, m, d):
                out.append({"kind": "day", "f": [y, m, d, h, mi, s, ms]})
        # whole days second by second (a few years), and one-hour windows around every boundary midnight of every year
        if tier == "thorough":
            full = [1970, 1971, 1972, 1999, 2000, 2099, rng.choice(years), rng.choice(years)]
        else:
            full = []
        ry = years if tier == "thorough" else [1970, 1972, rng.choice([y for y in years if leap(y)]), rng.choice([y for y in years if not leap(y)])]
        for y in ry:
            for (yy, m, d) in [(y, 2, 28), (y, 2, 29) if leap(y) else (y, 3, 1), (y, 12, 31), (y, 1, 1)]:
                s0 = calendar.timegm((yy, m, d, 0, 0, 0))
                if y in full:
                    for part in range(0, 86400, 7200):
                        out.append({"kind": "secs", "start": s0 + part, "n": 7200})
                elif tier == "thorough":
                    out.append({"kind": "secs", "start": max(0, s0 - 1800), "n": 3600})
                    out.append({"kind": "secs", "start": s0 + 86400 - 1800, "n": 3600})
                else:
                    out.append({"kind": "secs", "start": s0, "n": 600})
                    out.append({"kind": "secs", "start": s0 + 86400 - 600, "n": 600})
        for _ in range(300 if tier == "quick" else 5000):
            out.append({"kind": "secs", "start": rng.randrange(0, 13569465600), "n": 1})  # up to year 2400
        # ordered pairs one unit apart in each field, and random pairs
        npairs = 1500 if tier == "quick" else 40000
        for _ in range(npairs):
            a = self.rand_stamp(rng)
            out.append({"kind": "cmp", "a": a, "b": self.neighbour(a, rng)})
        for _ in range(npairs // 3):
            out.append({"kind": "cmp", "a": self.rand_stamp(rng), "b": self.rand_stamp(rng)})
        # offsets
        for _ in range(1500 if tier == "quick" else 40000):
            a = self.rand_stamp(rng)
            a[6] = 0 if rng.random() < 0.7 else a[6]
            unit = rng.choice(["sec", "min", "hour", "day"])
            nb = rng.choice([0, 1, 59, 60, 61, 3599, 3600, 86399, 86400, rng.randrange(0, 400), rng.randrange(0, 100000)])
            if unit == "day":
                nb = rng.choice([0, 1, 28, 29, 30, 31, 365, 366, rng.randrange(0, 800)])
            out.append({"kind": "add", "a": a, "unit": unit, "nb": nb})
        return out

    def rand_stamp(self, rng):
        y = rng.choice([rng.randrange(1970, 2100), rng.choice([1970, 1972, 1999, 2000, 2001, 2100, 2400])])
        m = rng.choice([rng.randrange(1, 13), 1, 2, 3, 12])
        d = rng.choice([rng.randrange(1, mdays(y, m) + 1), 1, mdays(y, m)])
        return [y, m, d, rng.choice([0, 23, rng.randrange(24)]), rng.choice([0, 59, rng.randrange(60)]),
                rng.choice([0, 59, rng.randrange(60)]), rng.choice([0, 999, rng.randrange(1000)])]

    def neighbour(self, a, rng):
        """a well-formed stamp that differs from `a` by one unit in one field (or equals it)"""
        b = list(a)
        i = rng.randrange(8)
        if i == 7:
            return b
        lo = [1970, 1, 1, 0, 0, 0, 0][i]
        hi = [2400, 12, mdays(b[0], b[1]), 23, 59, 59, 999][i]
        b[i] = min(hi, max(lo, b[i] + rng.choice([-1, 1])))
        b[2] = min(b[2], mdays(b[0], b[1]))
        return b

    def describe(self, case):
        t = {"kind": case["kind"]}
        if case["kind"] == "day":
            f = case["f"]
            t["daytype"] = ("jan1" if f[1:3] == [1, 1] else "dec31" if f[1:3] == [12, 31] else
                            "feb29" if f[1:3] == [2, 29] else "feb28" if f[1:3] == [2, 28] else "other")
            t["leap"] = leap(f[0])
        if case["kind"] == "add":
            t["unit"] = case["unit"]
        return t

    def nontrivial(self, case):
        return case.get("f") != [1970, 1, 1, 0, 0, 0, 0]

    # ---------------------------------------------------------------- implementation
    def mk(self, f):
        return self.T(f[0], f[1], f[2], f[3], f[4], f[5], f[6])

    def fields(self, t):
        return [t.year, t.month, t.day, t.hour, t.min, t.sec, t.ms]

    def impl(self, case):
        k = case["kind"]
        if k == "day":
            t = self.mk(case["f"])
            a = t.toAbsTime()
            back = self.T.readUnixTime(a)
            return {"abs_ms": round(a * 1000), "back": self.fields(back)}
        if k == "secs":
            rows = []
            for s in range(case["start"], case["start"] + case["n"]):
                t = self.T.readUnixTime(s)
                rows.append(self.fields(t) + [round(t.toAbsTime() * 1000)])
            return {"rows": rows}
        if k == "cmp":
            a, b = self.mk(case["a"]), self.mk(case["b"])
            return {"ops": [int(a < b), int(a > b), int(a == b), int(a <= b), int(a >= b), int(a != b)]}
        if k == "add":
            a = self.mk(case["a"])
            r = {"sec": a.addSec, "min": a.addMin, "hour": a.addHour, "day": a.addDay}[case["unit"]](case["nb"])
            return {"res": self.fields(r)}
        raise ValueError(k)

    # ---------------------------------------------------------------- model
    MULT = {"sec": 1, "min": 60, "hour": 3600, "day": 86400}

    def requests(self, case):
        k = case["kind"]
        if k == "day":
            f = case["f"]
            ms = oracle_ms(f)  # only used to address the `read` request; `abs` is computed by the model
            return ["C03.abs " + " ".join(map(str, f)), "C03.read %d" % ms]
        if k == "secs":
            out = []
            for s in range(case["start"], case["start"] + case["n"]):
                out.append("C03.read %d" % (s * 1000))
            return out
        if k == "cmp":
            return ["C03.cmp " + " ".join(map(str, case["a"] + case["b"]))]
        if k == "add":
            return ["C03.add " + " ".join(map(str, case["a"])) + " %d" % (case["nb"] * self.MULT[case["unit"]])]

    def decode(self, case, replies):
        k = case["kind"]
        if k == "day":
            return {"abs_ms": int(replies[0]), "back": list(map(int, replies[1].split()))}
        if k == "secs":
            rows = []
            for i, r in enumerate(replies):
                rows.append(list(map(int, r.split())) + [(case["start"] + i) * 1000])
            return {"rows": rows}
        if k == "cmp":
            return {"ops": list(map(int, replies[0].split()))}
        if k == "add":
            return {"res": list(map(int, replies[0].split()))}

    def compare(self, case, impl_out, model_out):
        if case["kind"] == "day" and "err" not in impl_out:
            # the model addresses `read` by the oracle's instant: first make sure the model's own abs agrees
            if model_out["abs_ms"] != oracle_ms(case["f"]):
                return "model abs %s differs from the calendar oracle %s" % (model_out["abs_ms"], oracle_ms(case["f"]))
            if impl_out["abs_ms"] != model_out["abs_ms"]:
                return "abs: impl=%s model=%s" % (impl_out["abs_ms"], model_out["abs_ms"])
            bi, bm = impl_out["back"], model_out["back"]
            if bi[:6] != bm[:6] or not (bi[6] == bm[6] or (case["f"][6] != 0 and bi[6] == bm[6] - 1)):
                # the float code may truncate a non-zero millisecond one low: not exhibited by the integer model
                return "back: impl=%s model=%s" % (bi, bm)
            return None
        if case["kind"] == "add" and "err" not in impl_out:
            bi, bm = impl_out["res"], model_out["res"]
            if bi[:6] != bm[:6] or not (bi[6] == bm[6] or (case["a"][6] != 0 and bi[6] == bm[6] - 1)):
                return "add: impl=%s model=%s" % (bi, bm)
            return None
        return Prop.compare(self, case, impl_out, model_out)

    # ---------------------------------------------------------------- oracle (transfer)
    def spec(self, case, out):
        if "err" in out:
            return "raised %s" % out["err"]
        k = case["kind"]
        if k == "day":
            f = case["f"]
            want = oracle_ms(f)
            if out["abs_ms"] != want:
                return "toAbsTime(%s) = %s ms, proleptic Gregorian calendar says %s" % (f, out["abs_ms"], want)
            b = out["back"]
            if not wellformed(b):
                return "round trip of %s gives the malformed date %s" % (f, b)
            diff = abs(oracle_ms(b) - want)
            if diff > 1 or (f[6] == 0 and b != f):
                return "round trip of %s gives %s (off by %d ms)" % (f, b, diff)
            return None
        if k == "secs":
            for i, row in enumerate(out["rows"]):
                s = case["start"] + i
                if not wellformed(row[:7]):
                    return "readUnixTime(%d) = %s is not a well-formed date" % (s, row[:7])
                if row[:7] != oracle_fields(s * 1000):
                    return "readUnixTime(%d) = %s, calendar says %s" % (s, row[:7], oracle_fields(s * 1000))
                if row[7] != s * 1000:
                    return "toAbsTime(readUnixTime(%d)) = %s ms" % (s, row[7])
            return None
        if k == "cmp":
            a, b = oracle_ms(case["a"]), oracle_ms(case["b"])
            want = [int(a < b), int(a > b), int(a == b), int(a <= b), int(a >= b), int(a != b)]
            if out["ops"] != want:
                return "comparisons [<,>,==,<=,>=,!=] of %s and %s give %s, epoch order says %s" % (case["a"], case["b"], out["ops"], want)
            return None
        if k == "add":
            want = oracle_fields(oracle_ms(case["a"]) + case["nb"] * self.MULT[case["unit"]] * 1000)
            got = out["res"]
            if not wellformed(got):
                return "add%s(%d) on %s gives the malformed date %s" % (case["unit"], case["nb"], case["a"], got)
            d = abs(oracle_ms(got) - oracle_ms(want))
            if d > 1 or (case["a"][6] == 0 and got != want):
                return "add%s(%d) on %s gives %s, expected %s" % (case["unit"], case["nb"], case["a"], got, want)
            return None

    # ---------------------------------------------------------------- shrinking / search
    def shrink(self, case):
        if case["kind"] == "secs" and case["n"] > 1:
            h = case["n"] // 2
            yield {"kind": "secs", "start": case["start"], "n": h}
            yield {"kind": "secs", "start": case["start"] + h, "n": case["n"] - h}
        if case["kind"] == "day":
            f = case["f"]
            for i, v in ((6, 0), (5, 0), (4, 0), (3, 0)):
                if f[i] != v:
                    g = list(f); g[i] = v
                    yield {"kind": "day", "f": g}
        if case["kind"] == "add" and case["nb"] > 0:
            yield dict(case, nb=case["nb"] // 2)
            yield dict(case, nb=case["nb"] - 1)

    def mutate(self, case, rng):
        if case["kind"] == "secs":
            for d in (-86400, 86400, -1, 1):
                yield {"kind": "secs", "start": max(0, case["start"] + d), "n": case["n"]}


# ---- tie to the source by translation (tools/py2lean.py -> lean/TracklibVerif/Gen/ObsTime.lean, regenerated on every run)
P.tie_modules = ["TracklibVerif.Tie.C03"]
P.theorems = P.theorems + [
    ("TracklibVerif.Tie.C03", "TV.Tie.C03.tie_isLeapYear", "the Lean translation of the CURRENT source of ObsTime.isLeapYear equals the model's isLeap on every year >= 0"),
]
