"""C08 — the grid spatial index never omits a feature that is geometrically there
(tracklib/core/spatial_index.py, isSegmentIntersects/cartesienne of tracklib/util/geometry.py).

A case is one session on ONE index object: a collection (tracks, or the edges of a small network), a resolution, a
margin, optional queries run right after construction (`pre`), optional later `addFeature` calls (`late`; through
`Network.addEdge` when the index was made by `Network.createSpatialIndex`), and a list of queries run after them (the
generators repeat the `pre` queries there: what a query left behind must not change a later answer). `entry` selects
the front end (the constructor, `TrackCollection.createSpatialIndex(resolution, verbose)` — whose flag lands in the
constructor's `margin` parameter —, `Network.createSpatialIndex(resolution, margin, verbose)`), `call` the argument
form of that call (positional, keywords, keywords with defaulted arguments left out: the model then supplies the default
margin), `geo` the class of the query coordinates (GeoCoords instead of ENUCoords). The oracle judges the index AS BUILT:
extent, cell sides and dimensions are read back from the object, never derived from the case. The Lean model (Model/Grid.lean) is pure: it runs the session as
one driver line for the state after construction and one for the state after the later additions. Two scalar modes:
  rat  every float operation of the Python is exact on the case (checked by `exact_case`: the float run of
       the constructor / __getCell is replayed next to a Fraction run and must agree); the model runs on Rat,
       the oracle is exact rational geometry with closed cells.
  flt  anything else (margin 0.05 on arbitrary extents, default resolution, random coordinates): the model
       runs the same operations on Float; the oracle is exact rational geometry on the float values with a
       declared relative guard EPS against boundary coincidences decided by rounding.
"""
import math, json
from fractions import Fraction as F
from engine import Prop, fbits, bitsf, ratstr, err_kind, close

EPS = F(1, 10 ** 7)       # guard (in cell units / relative on distances) of the flt-mode oracle


class HarnessError(Exception):
    """the harness's own plumbing failed (a session it cannot run, internals of the index it cannot read, a consistency
    check of its own): reported as `{"harness": ...}` by impl(), a correspondence disagreement, NEVER an oracle failure"""


def fr(v):
    """case scalar (int, float holding the intended value, or 'p/q' string) -> Fraction"""
    if isinstance(v, str):
        return F(v)
    return F(v)


def fl(v):
    return float(fr(v))


def small_dyadic(q):
    d = q.denominator
    return d & (d - 1) == 0 and d <= 2 ** 16 and abs(q.numerator) < 2 ** 34


# ------------------------------------------------------------------------------------------
# twin of the constructor / __getCell, generic in the number type (float or Fraction)
# ------------------------------------------------------------------------------------------
def twin_build(bb, res, m, hundred):
    bxmin, bxmax, bymin, bymax = bb
    dx = bxmax - bxmin
    dy = bymax - bymin
    xmin = bxmin - m * dx
    xmax = bxmax + m * dx
    ymin = bymin - m * dy
    ymax = bymax + m * dy
    ax = xmax - xmin
    ay = ymax - ymin
    if res is None:
        am = max(ax, ay)
        r = am / hundred if am > 0 else 1
        r = (r, r)
    else:
        r = res
    cs, ls = max(1, int(ax / r[0])), max(1, int(ay / r[1]))
    dX = ax / cs if ax > 0 else r[0]
    dY = ay / ls if ay > 0 else r[1]
    return (xmin, xmax, ymin, ymax, cs, ls, dX, dY)


def twin_cell(info, x, y):
    """__getCell"""
    xmin, xmax, ymin, ymax, cs, ls, dX, dY = info
    if x < xmin or x > xmax or y < ymin or y > ymax:
        return None
    return (min((x - xmin) / dX, cs), min((y - ymin) / dY, ls))


def case_bbox(case):
    pts = [p for f in case["feats"] for p in f]
    if not pts:
        return None
    xs = [fr(p[0]) for p in pts]
    ys = [fr(p[1]) for p in pts]
    return (min(xs), max(xs), min(ys), max(ys))


def exact_twin(case):
    """Fraction run of the constructor up to the registration loop: info tuple, or 'zerodiv' (a cell size 0 given by
    the caller), or None (no feature)"""
    bb = case_bbox(case)
    if bb is None:
        return None
    res = None if case["res"] is None else (fr(case["res"][0]), fr(case["res"][1]))
    try:
        return twin_build(bb, res, fr(case["margin"]), F(100))
    except ZeroDivisionError:
        return "zerodiv"


def case_points(case):
    """every ground point that goes through __getCell"""
    pts = [p for f in case["feats"] for p in f]
    for num, t in case.get("late", []):
        pts += t
    for q in list(case["queries"]) + list(case.get("pre") or []):
        k = q[0]
        if k in ("pt", "npt", "nd", "getcell"):
            pts.append(q[1:3])
        elif k in ("seg", "nseg"):
            pts += [q[1:3], q[3:5]]
        elif k == "trk":
            pts += q[1]
        elif k == "ntrk":
            pts += q[2]
    return pts


_EXACT_CACHE = {}


def exact_case(case):
    key = json.dumps(case, sort_keys=True)
    v = _EXACT_CACHE.get(key)
    if v is None:
        if len(_EXACT_CACHE) > 20000:
            _EXACT_CACHE.clear()
        v = _EXACT_CACHE[key] = _exact_case(case)
    return v


def _exact_case(case):
    """True when Python's float arithmetic is exact on every operation the scenario performs (then the
    Rat model applies to the computed values with no gap): the constructor as the CASE describes it (bounding box,
    margin, resolution) and, on the index it makes, every __getCell / groundDistanceToUnits of the session. Selects the
    scalar mode of the MODEL run; the oracle judges the index that was actually built (`exact_on_index`)."""
    bb = case_bbox(case)
    if bb is None:
        return True
    res_q = None if case["res"] is None else (fr(case["res"][0]), fr(case["res"][1]))
    res_f = None if case["res"] is None else (fl(case["res"][0]), fl(case["res"][1]))
    if not all(small_dyadic(v) for v in bb):
        return False
    for p in case_points(case):
        if not (small_dyadic(fr(p[0])) and small_dyadic(fr(p[1]))):
            return False
    try:
        iq = twin_build(bb, res_q, fr(case["margin"]), F(100))
    except ZeroDivisionError:
        iq = None
    try:
        if_ = twin_build(tuple(float(v) for v in bb), res_f, fl(case["margin"]), 100)
    except ZeroDivisionError:
        if_ = None
    if iq is None or if_ is None:
        return iq is None and if_ is None
    if any(F(a) != b for a, b in zip(if_, iq)):
        return False
    return _exact_on_index(case, if_)


_EXACT_IX_CACHE = {}


def exact_on_index(case, info):
    """True when Python's float arithmetic is exact on everything the session computes ON THE INDEX AS BUILT: `info` =
    (xmin, xmax, ymin, ymax, csize, lsize, dX, dY) read back from the index object, whatever extent / margin / cell size the
    front end chose. Then the exact oracle (closed last column / row, half-open cells elsewhere, no guard) applies to that
    index; otherwise the guarded one does."""
    key = (json.dumps(case, sort_keys=True), tuple(info))
    v = _EXACT_IX_CACHE.get(key)
    if v is None:
        if len(_EXACT_IX_CACHE) > 20000:
            _EXACT_IX_CACHE.clear()
        v = _EXACT_IX_CACHE[key] = _exact_on_index(case, info)
    return v


def _exact_on_index(case, info):
    if_ = (float(info[0]), float(info[1]), float(info[2]), float(info[3]), int(info[4]), int(info[5]), float(info[6]), float(info[7]))
    if not all(math.isfinite(v) for v in if_):
        return False
    iq = tuple(F(v) for v in if_)
    if not (small_dyadic(iq[6]) and small_dyadic(iq[7]) and all(small_dyadic(v) for v in iq[:4])):
        return False
    if iq[6] <= 0 or iq[7] <= 0 or iq[4] < 1 or iq[5] < 1:
        return False
    # the cells tile the extent exactly (an axis of zero length has its one column / row)
    if not (iq[1] - iq[0] == iq[4] * iq[6] or iq[1] == iq[0]) or not (iq[3] - iq[2] == iq[5] * iq[7] or iq[3] == iq[2]):
        return False
    for p in case_points(case):
        if not (small_dyadic(fr(p[0])) and small_dyadic(fr(p[1]))):
            return False
        cq = twin_cell(iq, fr(p[0]), fr(p[1]))
        cf = twin_cell(if_, fl(p[0]), fl(p[1]))
        if (cq is None) != (cf is None):
            return False
        if cq is not None:
            if F(cf[0]) != cq[0] or F(cf[1]) != cq[1] or not (small_dyadic(cq[0]) and small_dyadic(cq[1])):
                return False
    mn = min(iq[6], iq[7])
    for q in list(case["queries"]) + list(case.get("pre") or []):
        k = q[0]
        if k in ("units", "nd"):
            d = q[-1]
            if not small_dyadic(fr(d)):
                return False
            if F(fl(d) / float(mn) + 1) != fr(d) / mn + 1:
                return False
        if k in ("cross", "inter"):
            if not all(small_dyadic(fr(v)) and abs(fr(v)) < 2 ** 20 for v in q[1:]):
                return False
    return True


# ------------------------------------------------------------------------------------------
# exact geometry (the oracle)
# ------------------------------------------------------------------------------------------
def seg_cells(a, b):
    """cells (i, j) whose CLOSED unit square [i,i+1]x[j,j+1] meets the closed segment [a, b] (Fractions):
    column by column, the y-range of the part of the segment inside the slab i <= x <= i+1"""
    (ax, ay), (bx, by) = a, b
    cells = set()
    xlo, xhi = min(ax, bx), max(ax, bx)
    for i in range(math.ceil(xlo) - 1, math.floor(xhi) + 1):
        if ax == bx:
            ylo, yhi = min(ay, by), max(ay, by)
        else:
            t0 = (max(F(i), xlo) - ax) / (bx - ax)
            t1 = (min(F(i + 1), xhi) - ax) / (bx - ax)
            y0 = ay + t0 * (by - ay)
            y1 = ay + t1 * (by - ay)
            ylo, yhi = min(y0, y1), max(y0, y1)
        for j in range(math.ceil(ylo) - 1, math.floor(yhi) + 1):
            cells.add((i, j))
    return cells


def seg_meets_box(a, b, x0, x1, y0, y1):
    """closed segment [a,b] meets the closed box (Liang-Barsky, exact)"""
    if x0 > x1 or y0 > y1:
        return False
    (ax, ay), (bx, by) = a, b
    t0, t1 = F(0), F(1)
    for p, q in ((-(bx - ax), ax - x0), (bx - ax, x1 - ax), (-(by - ay), ay - y0), (by - ay, y1 - ay)):
        if p == 0:
            if q < 0:
                return False
        else:
            r = q / p
            if p < 0:
                t0 = max(t0, r)
            else:
                t1 = min(t1, r)
    return t0 <= t1


def seg_cells_floor(a, b, cs=None, ls=None):
    """cells of all points of the closed segment [a, b] (Fractions, fractional cell indices). Cells are half-open
    [i,i+1)x[j,j+1) as `math.floor` assigns points to them; when the grid size (cs, ls) is given the last column / row
    is closed on the upper border of the extent (a point with x = cs belongs to column cs - 1) and only the points of the
    segment inside the extent on the upper side (x <= cs, y <= ls) count. The cell of a moving point only changes where
    a coordinate is an integer: sample those parameters and the midpoints between consecutive ones."""
    (ax, ay), (bx, by) = a, b
    ts = {F(0), F(1)}
    for p0, p1 in ((ax, bx), (ay, by)):
        if p0 != p1:
            for k in range(math.ceil(min(p0, p1)), math.floor(max(p0, p1)) + 1):
                ts.add((k - p0) / (p1 - p0))
    ts = sorted(ts)
    ts += [(u + v) / 2 for u, v in zip(ts, ts[1:])]
    cells = set()
    for t in ts:
        x, y = ax + t * (bx - ax), ay + t * (by - ay)
        i, j = math.floor(x), math.floor(y)
        if cs is not None:
            if x > cs or y > ls:
                continue
            i, j = min(i, cs - 1), min(j, ls - 1)
        cells.add((i, j))
    return cells


def seg_cells_mode(a, b, exact, cs=None, ls=None):
    if exact:
        return seg_cells_floor(a, b, cs, ls)
    cells = seg_cells(a, b)
    return {(i, j) for (i, j) in cells if seg_meets_box(a, b, i + EPS, i + 1 - EPS, j + EPS, j + 1 - EPS)
            and (cs is None or (i <= cs - 1 and j <= ls - 1))}


def d2_point_seg(q, a, b):
    (qx, qy), (ax, ay), (bx, by) = q, a, b
    vx, vy = bx - ax, by - ay
    wx, wy = qx - ax, qy - ay
    L = vx * vx + vy * vy
    if L == 0:
        return wx * wx + wy * wy
    t = (wx * vx + wy * vy) / L
    t = max(F(0), min(F(1), t))
    px, py = ax + t * vx, ay + t * vy
    return (qx - px) ** 2 + (qy - py) ** 2


def segments(pts):
    return [(pts[k], pts[k + 1]) for k in range(len(pts) - 1)]


def late_of(case):
    """the later additions as (feature number, vertices): on a network indexed by Network.createSpatialIndex they go
    through Network.addEdge, which numbers them itself (the running number of edges)"""
    late = case.get("late") or []
    if case.get("net") and (case.get("entry") or "ctor") == "create":
        n0 = len(case["feats"])
        return [[n0 + k, t] for k, (_, t) in enumerate(late)]
    return late


def search_segments(queries):
    """(query index, [segments]) of the unit < 0 segment/track neighbourhood searches: their answer depends on the
    cells of the QUERY segments, which are observed too so that the searches can be compared"""
    out = []
    for n, q in enumerate(queries):
        if q[0] == "nseg" and q[5] < 0:
            out.append((n, [(q[1:3], q[3:5])]))
        elif q[0] == "ntrk" and q[1] < 0:
            out.append((n, segments(q[2])))
    return out




class P(Prop):
    id = "C08"
    design_ref = "DESIGN.md section 5, C08 and appendix A.3"
    M = "TracklibVerif.Props.C08"
    theorems = [
        (M, "TV.C08.straddle_necessary", "two closed segments sharing a point pass isSegmentIntersects (val1 <= 0 and val2 <= 0), touching ends and zero-length segments included"),
        (M, "TV.C08.cells_complete", "a point P of segment [c1,c2] in cell (i,j) — i <= Px < i+1, or i = csize-1 and i <= Px <= csize (last column closed on the upper border), same for j — implies (i,j) in __cellsCrossSegment(c1,c2), segments lying on the upper border included"),
        (M, "TV.C08.constructor_returns", "SpatialIndex(collection,res,margin) does not raise for a non-empty collection, margin >= 0 (0 included: vertices on the upper border), default or positive cell size, any bounding box (flat, single point, shorter than a cell)"),
        (M, "TV.C08.collection_create_index", "TrackCollection.createSpatialIndex(resolution, verbose) is SpatialIndex(collection, resolution, margin) with margin = 1 (verbose=True) or 0 (verbose=False): the flag lands in the constructor's margin parameter; both are >= 0, the call returns and every other theorem applies"),
        (M, "TV.C08.default_margin_create_index", "argument handling of SpatialIndex(collection, resolution=None, margin=0.05, verbose=True) and Network.createSpatialIndex(resolution=None, margin=0.05, verbose=True): a call that leaves the margin out builds the index of margin 1/20, a call with margin m >= 0 that of margin m; the call returns and every other theorem applies"),
        (M, "TV.C08.getCell_min_is_identity", "on every index on which nothing raises, __getCell as executed (idx = min((x-xmin)/dX, csize), idy likewise) returns the affine fractional indices: the min only acts on floating-point rounding"),
        (M, "TV.C08.extent_point_cell", "on a built index every point of the closed extent has a cell (min(floor idx, csize-1), min(floor idy, lsize-1)) inside the grid whose closed square contains it; only the last column/row is closed on the upper side"),
        (M, "TV.C08.index_complete", "after SpatialIndex(collection,res,margin>=0), every point of every segment of feature k is inside the extent and the cell containing it lists k (upper-border vertices included)"),
        (M, "TV.C08.point_query_complete", "request(q) for EVERY q of the closed extent does not raise and returns every feature having a segment point in the cell containing q"),
        (M, "TV.C08.segment_query_complete", "a returned request([Q1,Q2]) contains every feature listed in the cell of any point of the query segment"),
        (M, "TV.C08.segment_query_returns", "request([Q1,Q2]) does not raise when both ends are inside the closed extent (upper border included)"),
        (M, "TV.C08.track_query_complete", "a returned request(track) contains every feature listed in the cell of any point of any segment of the query track"),
        (M, "TV.C08.track_query_returns", "request(track) does not raise when every vertex of the query track is inside the closed extent"),
        (M, "TV.C08.units_sound", "with positive cell sides groundDistanceToUnits(d) returns floor(d/min(dX,dY)+1) and points at most d apart on each axis fall in cells whose column/row indices (floors, and the clamped cell indices) differ by at most that many units"),
        (M, "TV.C08.neighboringCells_square", "__neighboringcells(i,j,u) is exactly the Chebyshev square of radius u around (i,j) clipped to the grid"),
        (M, "TV.C08.neighborhood_finds_registered", "on any index on which nothing raises (built, or built and then extended by addFeature / Network.addEdge), neighborhood(q, unit=groundDistanceToUnits(d)) returns every feature listed in the cell of a point of the extent within distance d of q: the answer depends on the grid as it is now only"),
        (M, "TV.C08.neighborhood_complete", "groundDistanceToUnits(d) and neighborhood(q, unit=groundDistanceToUnits(d)), EVERY q of the closed extent, d >= 0, do not raise and every feature with a point within Euclidean distance d of q is returned"),
        (M, "TV.C08.late_feature_complete", "addFeature(track, num) on an existing index (= Network.addEdge on an indexed network), all vertices inside the extent: returns, keeps extent / dimensions / everything registered before, every point of the track lies in a cell listing num, a point request there and a neighbourhood query from a ground distance d around any q within d of the track return num"),
        (M, "TV.C08.network_add_edges_complete", "a SEQUENCE of Network.addEdge calls on an indexed network of n edges (running numbers n, n+1, ...), all vertices inside the extent: every call returns, extent / dimensions / everything registered before are kept, and after all of them the k-th new edge is listed under n+k in the cell of each of its points, found by a point request there and by a neighbourhood query from a ground distance d around any q within d of it"),
        (M, "TV.C08.built_index_good", "a built index satisfies the hypotheses (Good, Tiled) of late_feature_complete, which keeps them: the theorem applies to any sequence of later additions"),
        (M, "TV.C08.grid_always_builds", "the repairs 9a44198 and degenerate-extent: default or positive explicit cell size, ANY bounding box (thin, flat, a single point, shorter than the cell size): __init__ reaches the registration loop without raising, with >= 1 column and >= 1 row, positive cell sides, cells tiling every axis of positive length exactly and one column / row on an axis of zero length"),
        (M, "TV.C08.flat_axis_single_column", "on a built index whose extent has zero length along an axis (a straight north-south or east-west track) that axis has one column / row and every point of the extent has index 0 on it"),
        (M, "TV.C08.isFloor_ratFloor", "Rat.floor, the driver's math.floor, satisfies the floor contract assumed by the theorems"),
    ]
    partial = []
    open_statements = [
        "theorems are over an ordered field with an exact floor: IEEE rounding in (x-xmin)/dX and in the straddle products is outside them (sampled by the flt stream with a 1e-7-cell guard); the one rounding situation met — the index of x = xmax exceeding csize by an ulp, so that a segment lying on the border was registered nowhere — is removed by the cap min(index, csize) of __getCell (identity in exact arithmetic: getCell_min_is_identity) and generated on purpose by the float stream",
        "the unit = -1 incremental searches of neighborhood and the given-unit segment/track neighbourhoods are modelled and compared with the implementation, no theorem is stated about them (the property does not mention them)",
        "later addFeature calls with a vertex OUTSIDE the extent are modelled and compared (the `continue` that keeps a stale coord1 and so registers a chord instead of the two legs), no theorem is stated about them: late_feature_complete is about additions inside the extent",
    ]
    modelled = ("TrackCollection.createSpatialIndex (its verbose flag becomes the constructor's margin) and Network.createSpatialIndex as front ends, the default margin 0.05 of the constructor and of "
                "Network.createSpatialIndex when the call leaves it out (createIndexArgs), Network.addEdge on an indexed network (networkAddEdges: the registration loop from the running edge number, the numbers are the model's); "
                "SpatialIndex.__init__ (extent from bbox + margin, explicit and default resolution, one column / row and a non-zero cell side on a degenerate axis), __getCell, "
                "__cellsCrossSegment (index box clamped to the last column / row), __getCell with its cap min(index, size), __addSegment, addFeature, request (cell/point/segment/track; the point form with the clamped cell), __neighboringcells, "
                "neighborhood (cell/point/segment/track; unit >= 0 and the incremental unit = -1 search), "
                "groundDistanceToUnits, __addCellValuesInTAB of core/spatial_index.py; cartesienne, __eval, "
                "isSegmentIntersects of util/geometry.py; TrackCollection/Network bbox as min/max of the vertices")
    trusted = ["correspondence relation: implementation ⊇ model on every returned list of features / cells and on cell contents (extras are permitted by the property; "
               "the theorems show the model omits nothing, so any superset omits nothing), equality on extent, cell size, units, None-ness and exceptions",
               "sessions: the model is a pure function of (collection, later additions), run once for the state after construction and once for the state after the additions; that the implementation's answers "
               "depend on nothing else (no cache, no state left by earlier queries) is exactly what the correspondence and the oracle test on one object",
               "oracle: every clause is judged on the index AS BUILT — extent, cell sides and dimensions are read back from the object (xmin..ymax, dX, dY, csize, lsize), whatever margin / resolution the front end "
               "chose, and the exact (unguarded) oracle is used only when float arithmetic is exact on that geometry; a session the harness cannot run or an index whose internals it cannot read is a harness error "
               "(correspondence disagreement), never an oracle failure",
               "mode flt: the Float instantiation of the model reproduces Python's doubles operation by operation; "
               "rounding is outside the theorems, the flt-mode oracle keeps a guard of 1e-7 cell around cell borders"]
    rule = ("exhaustive: every segment between points of a half-integer lattice through __cellsCrossSegment (coordinates beyond the 4 x 4 grid included: the clamp), every 2-vertex track of a "
            "small lattice (axis-parallel ones included: flat extents) indexed with margin 1/2 and margin 0 and queried at every lattice point of the CLOSED extent (upper border included); "
            "random: 1-3 features (tracks or network edges) of 2-4 "
            "vertices on a half-integer lattice, square / non-square / default resolutions (the latter with aspect ratios from 1 to 400, i.e. down to one row or column; explicit cells up to larger than the extent), "
            "about 7 % degenerate extents (all vertices on one vertical or horizontal line, or at one point), margins 1/2, 1/20, 1/4, 0 (17 %), lattice queries of the closed extent, 10-35 % of them on its upper border "
            "(points, segments, tracks, cells, neighbourhoods in units and from ground distances 0..grid size); sessions on one index object: 22 % of the cases add 1-2 features after construction "
            "(addFeature, or Network.addEdge on a network indexed by Network.createSpatialIndex), most of those ask every query both before and after the additions, 20 % ask some query twice; "
            "15 % of the indexes are made by TrackCollection.createSpatialIndex / Network.createSpatialIndex, 10 % of the sessions give query points as GeoCoords; "
            "argument forms of the front-end call (60 % of the createSpatialIndex calls, 15-20 % of the constructor calls choose among positional, keywords, keywords with defaulted arguments left out); "
            "plus a float stream with random coordinates (margin 0 in 2 cases of 7, half of those with a feature lying on the upper border of the extent and a cell size chosen so that the border index "
            "A / (A / n) rounds above n; a quarter of the query points are feature vertices). non-trivial = the index is built and at "
            "least one feature segment and one query are present")

    # ------------------------------------------------------------------ setup
    def setup(self):
        from tracklib.core import ENUCoords, GeoCoords, Obs, ObsTime, Track, TrackCollection
        from tracklib.core.spatial_index import SpatialIndex
        from tracklib.core.network import Network, Edge, Node
        self.E, self.Obs, self.T0, self.Track, self.TC = ENUCoords, Obs, ObsTime, Track, TrackCollection
        self.G = GeoCoords
        self.SI, self.Network, self.Edge, self.Node = SpatialIndex, Network, Edge, Node

    def mk(self, pts):
        t = self.Track()
        for k, p in enumerate(pts):
            t.addObs(self.Obs(self.E(fl(p[0]), fl(p[1]), 0.0), self.T0.readUnixTime(k)))
        return t

    def collection(self, case):
        if case.get("net"):
            net = self.Network()
            for k, pts in enumerate(case["feats"]):
                e = self.Edge("e%d" % k, self.mk(pts))
                a = self.Node("n%da" % k, self.E(fl(pts[0][0]), fl(pts[0][1]), 0.0))
                b = self.Node("n%db" % k, self.E(fl(pts[-1][0]), fl(pts[-1][1]), 0.0))
                net.addEdge(e, a, b)
            return net
        return self.TC([self.mk(pts) for pts in case["feats"]])

    # ------------------------------------------------------------------ implementation
    def build_index(self, case, coll):
        """the index of the session through the front end `entry`; `call` is the argument form of the front-end call
        (`pos` positional, `kw` keywords, `dflt` keywords with every argument that has its default value left out)"""
        res = None if case["res"] is None else (fl(case["res"][0]), fl(case["res"][1]))
        entry = case.get("entry") or "ctor"
        call = case.get("call") or ("kw" if entry == "ctor" else "pos")
        if call not in ("pos", "kw", "dflt"):
            raise HarnessError("unknown call form %r" % (call,))
        m = fl(case["margin"])
        if entry == "ctor":
            if call == "pos":
                return self.SI(coll, res, m, False)
            kw = {"resolution": res, "margin": m, "verbose": False}
            if call == "dflt":
                if res is None:
                    del kw["resolution"]
                if fr(case["margin"]) == F(1, 20):
                    del kw["margin"]          # 0.05 is the constructor's default margin
            return self.SI(coll, **kw)
        if case.get("net"):
            if call == "pos":
                coll.createSpatialIndex(res, m, False)
            else:
                kw = {"resolution": res, "margin": m, "verbose": False}
                if call == "dflt":
                    if res is None:
                        del kw["resolution"]
                    if fr(case["margin"]) == F(1, 20):
                        del kw["margin"]      # 0.05 is Network.createSpatialIndex's default margin
                coll.createSpatialIndex(**kw)
        else:
            # createSpatialIndex(resolution, verbose): the flag is what the constructor receives as its margin
            if str(case["margin"]) not in ("0", "1"):
                raise HarnessError("TrackCollection.createSpatialIndex: the margin of the case is the verbose flag")
            flag = str(case["margin"]) == "1"
            if call == "pos":
                coll.createSpatialIndex(res, flag)
            elif call == "dflt" and res is None and flag:
                coll.createSpatialIndex()
            elif call == "dflt" and res is None:
                coll.createSpatialIndex(verbose=flag)
            elif call == "dflt" and flag:
                coll.createSpatialIndex(resolution=res)
            else:
                coll.createSpatialIndex(resolution=res, verbose=flag)
        try:
            si = coll.spatial_index
        except Exception as e:
            raise HarnessError("cannot read the index made by createSpatialIndex: %r" % (e,))
        if si is None:
            raise HarnessError("createSpatialIndex left no index on the collection")
        return si

    def read_info(self, si):
        try:
            return [float(si.xmin), float(si.xmax), float(si.ymin), float(si.ymax), int(si.csize), int(si.lsize), float(si.dX), float(si.dY)]
        except Exception as e:
            raise HarnessError("cannot read extent / cell size / dimensions of the index: %r" % (e,))

    def snapshot(self, si):
        try:
            grid = {}
            for i, col in enumerate(si.grid):
                for j, c in enumerate(col):
                    if c:
                        grid["%d:%d" % (i, j)] = sorted(c)
            return grid
        except Exception as e:
            raise HarnessError("cannot read the cell contents of the index: %r" % (e,))

    def search_cells(self, si, case, queries):
        sc = {}
        for n, segs in search_segments(queries):
            cells = []
            for a, b in segs:
                try:
                    p1 = si._SpatialIndex__getCell(self.E(fl(a[0]), fl(a[1]), 0.0))
                    p2 = si._SpatialIndex__getCell(self.E(fl(b[0]), fl(b[1]), 0.0))
                    cells.append(None if p1 is None or p2 is None else
                                 sorted([int(c[0]), int(c[1])] for c in si._SpatialIndex__cellsCrossSegment(p1, p2)))
                except Exception as e:
                    cells.append({"err": err_kind(e)})
            sc[str(n)] = cells
        return sc

    def impl(self, case):
        try:
            return self.run_session(case)
        except HarnessError as e:
            return {"harness": str(e)[:300]}

    def run_session(self, case):
        try:
            coll = self.collection(case)        # tracks / an un-indexed network from the vertex lists: plumbing
        except BaseException as e:
            if isinstance(e, KeyboardInterrupt):
                raise
            raise HarnessError("cannot build the collection of the case: %r" % (e,))
        si = self.build_index(case, coll)
        info = self.read_info(si)
        geo = bool(case.get("geo"))
        out = {}
        pre = case.get("pre") or []
        if pre:
            # queries on the index as constructed, BEFORE the later additions (same object)
            out["pre"] = {"info": info, "grid": self.snapshot(si), "q": [self.run_query(si, q, geo) for q in pre],
                          "scells": self.search_cells(si, case, pre)}
        try:
            for num, pts in late_of(case):
                if case.get("net") and (case.get("entry") or "ctor") == "create":
                    # Network.addEdge on an indexed network registers the new edge in the index under its running number
                    k = coll.getNumberOfEdges()
                    if k != num:
                        raise HarnessError("late edge number %d, the network has %d edges" % (num, k))
                    e = self.Edge("e%d" % k, self.mk(pts))
                    a = self.Node("n%da" % k, self.E(fl(pts[0][0]), fl(pts[0][1]), 0.0))
                    b = self.Node("n%db" % k, self.E(fl(pts[-1][0]), fl(pts[-1][1]), 0.0))
                    coll.addEdge(e, a, b)
                else:
                    si.addFeature(self.mk(pts), num)
        except HarnessError:
            raise
        except Exception as e:
            return {"err": err_kind(e), "late": True}
        # (extent, cell size and dimensions are read again: what the queries below run on)
        info = self.read_info(si)
        out["info"] = info
        out["grid"] = self.snapshot(si)
        out["q"] = [self.run_query(si, q, geo) for q in case["queries"]]
        out["scells"] = self.search_cells(si, case, case["queries"])
        return out

    def query_args(self, q, geo=False):
        """the argument objects of a query (coordinates, tracks): building them is the harness's plumbing"""
        # request / neighborhood accept GeoCoords as well as ENUCoords (getX / getY are lon / lat)
        E = self.G if geo else self.E
        k = q[0]
        try:
            if k in ("pt", "npt", "nd"):
                return (E(fl(q[1]), fl(q[2]), 0.0),)
            if k in ("seg", "nseg"):
                return ([E(fl(q[1]), fl(q[2]), 0.0), E(fl(q[3]), fl(q[4]), 0.0)],)
            if k == "trk":
                return (self.mk(q[1]),)
            if k == "ntrk":
                return (self.mk(q[2]),)
            if k == "getcell":
                return (self.E(fl(q[1]), fl(q[2]), 0.0),)
            if k in ("cell", "ncell", "units", "cross", "inter"):
                return ()
        except Exception as e:
            raise HarnessError("cannot build the arguments of query %s: %r" % (q, e))
        raise HarnessError("unknown query kind %r" % (k,))

    def run_query(self, si, q, geo=False):
        args = self.query_args(q, geo)
        try:
            k = q[0]
            if k == "cell":
                return sorted(si.request(q[1], q[2]))
            if k in ("pt", "seg", "trk"):
                return sorted(si.request(args[0]))
            if k == "ncell":
                return sorted(si.neighborhood(q[1], q[2], q[3]))
            if k == "npt":
                r = si.neighborhood(args[0], None, q[3])
                return None if r is None else sorted(r)
            if k == "nseg":
                r = si.neighborhood(args[0], None, q[5])
                return None if r is None else sorted(r)
            if k == "ntrk":
                return sorted(si.neighborhood(args[0], None, q[1]))
            if k == "units":
                return int(si.groundDistanceToUnits(fl(q[1])))
            if k == "nd":
                u = int(si.groundDistanceToUnits(fl(q[3])))
                r = si.neighborhood(args[0], None, u)
                return {"u": u, "res": None if r is None else sorted(r)}
            if k == "cross":
                cells = si._SpatialIndex__cellsCrossSegment((fl(q[1]), fl(q[2])), (fl(q[3]), fl(q[4])))
                return sorted([int(c[0]), int(c[1])] for c in cells)
            if k == "getcell":
                c = si._SpatialIndex__getCell(args[0])
                return None if c is None else [float(c[0]), float(c[1])]
            if k == "inter":
                from tracklib.util import isSegmentIntersects
                v = [fl(x) for x in q[1:]]
                return int(bool(isSegmentIntersects(v[:4], v[4:])))
            raise HarnessError("unknown query kind %r" % (k,))
        except HarnessError:
            raise
        except BaseException as e:
            if isinstance(e, KeyboardInterrupt):
                raise
            return {"err": err_kind(e)}

    # ------------------------------------------------------------------ model
    def requests(self, case):
        """one driver line for the state after the later additions, preceded (when the session has `pre` queries) by one
        for the state right after construction: the model is pure, the implementation runs both on one object"""
        exact = exact_case(case)
        if exact:
            num = lambda v: ratstr(fr(v))
            mode = "rat"
        else:
            num = lambda v: fbits(fl(v))
            mode = "flt"
        tr = lambda pts: ";".join("%s,%s" % (num(p[0]), num(p[1])) for p in pts) if pts else "_"
        feats = "|".join(tr(f) for f in case["feats"]) if case["feats"] else "_"
        res = "none" if case["res"] is None else "%s,%s" % (num(case["res"][0]), num(case["res"][1]))
        entry = case.get("entry") or "ctor"
        if entry == "create" and not case.get("net"):
            margin = "tc:%s" % case["margin"]          # TrackCollection.createSpatialIndex(res, verbose)
        elif case.get("call") == "dflt" and fr(case["margin"]) == F(1, 20):
            margin = "dflt"                            # the call leaves the margin out: the model supplies the default
        else:
            margin = num(case["margin"])
        by_network = bool(case.get("net")) and entry == "create"      # Network.addEdge numbers the later edges itself

        def line(late_list, queries):
            late = "|".join(("+@%s" % tr(t)) if by_network else ("%d@%s" % (n, tr(t))) for n, t in late_list) or "_"
            qs = ["info", "grid"]
            for q in queries:
                k = q[0]
                if k in ("cell", "ncell"):
                    qs.append(";".join([k] + [str(v) for v in q[1:]]))
                elif k in ("npt", "nseg"):
                    qs.append(";".join([k] + [num(v) for v in q[1:-1]] + [str(q[-1])]))
                elif k == "trk":
                    qs.append(";".join([k] + [num(v) for p in q[1] for v in p]))
                elif k == "ntrk":
                    qs.append(";".join([k, str(q[1])] + [num(v) for p in q[2] for v in p]))
                else:
                    qs.append(";".join([k] + [num(v) for v in q[1:]]))
            for n, segs in search_segments(queries):
                for a, b in segs:
                    qs.append(";".join(["gcross", num(a[0]), num(a[1]), num(b[0]), num(b[1])]))
            return "C08.run %s %s %s %s %s %s" % (mode, feats, res, margin, late, "|".join(qs))
        lines = []
        if case.get("pre"):
            lines.append(line([], case["pre"]))
        lines.append(line(late_of(case), case["queries"]))
        return lines

    def decode(self, case, replies):
        out = self.decode_reply(case, case["queries"], replies[-1])
        if case.get("pre") and "err" not in out:
            out["pre"] = self.decode_reply(case, case["pre"], replies[0])
        return out

    def decode_reply(self, case, queries, r):
        if r == "bad-request":
            raise ValueError("bad-request")
        exact = exact_case(case)
        val = (lambda t: float(F(t))) if exact else bitsf
        if r.startswith("late:"):
            return {"err": r[5:], "late": True}
        if r.startswith("err:"):
            return {"err": r}
        parts = r.split("|")
        ss = search_segments(queries)
        nextra = sum(len(segs) for _, segs in ss)
        if len(parts) != len(queries) + 2 + nextra:
            raise ValueError("reply has %d parts for %d queries" % (len(parts), len(queries)))
        info = parts[0].split(",")
        out = {"info": [val(info[0]), val(info[1]), val(info[2]), val(info[3]), int(info[4]), int(info[5]), val(info[6]), val(info[7])]}
        grid = {}
        if parts[1] != "_":
            for item in parts[1].split(";"):
                key, vals = item.split("=")
                grid[key] = sorted(int(v) for v in vals.split(","))
        out["grid"] = grid
        nats = lambda t: [] if t == "_" else sorted(int(v) for v in t.split(","))
        qo = []
        cellsof = lambda t: [] if t == "_" else sorted([int(c.split(":")[0]), int(c.split(":")[1])] for c in t.split(";"))
        extra = parts[2 + len(queries):]
        sc, pos = {}, 0
        for n, segs in ss:
            sc[str(n)] = [None if t == "none" else {"err": t} if t.startswith("err:") else cellsof(t) for t in extra[pos:pos + len(segs)]]
            pos += len(segs)
        out["scells"] = sc
        for q, t in zip(queries, parts[2:2 + len(queries)]):
            k = q[0]
            if t.startswith("err:"):
                qo.append({"err": t})
            elif k in ("cell", "pt", "seg", "trk", "ncell", "ntrk"):
                qo.append(nats(t))
            elif k in ("npt", "nseg"):
                qo.append(None if t == "none" else nats(t))
            elif k == "units":
                qo.append(int(t))
            elif k == "nd":
                u, rr = t.split("=")
                qo.append({"u": int(u), "res": ({"err": rr} if rr.startswith("err:") else None if rr == "none" else nats(rr))})
            elif k == "cross":
                qo.append([] if t == "_" else sorted([int(c.split(":")[0]), int(c.split(":")[1])] for c in t.split(";")))
            elif k == "getcell":
                qo.append(None if t == "none" else [val(v) for v in t.split(",")])
            elif k == "inter":
                qo.append(int(t))
            else:
                raise ValueError(k)
        out["q"] = qo
        return out

    def compare(self, case, impl_out, model_out):
        if "harness" in impl_out:
            return "harness: " + str(impl_out["harness"])
        if ("pre" in impl_out) != ("pre" in model_out):
            return "session: impl=%s model=%s" % (str(impl_out)[:200], str(model_out)[:200])
        if "pre" in impl_out:
            m = self.compare_state(case, case["pre"], impl_out["pre"], model_out["pre"])
            if m:
                return "before the later additions: " + m
        return self.compare_state(case, case["queries"], impl_out, model_out)

    def compare_state(self, case, queries, impl_out, model_out):
        if "err" in impl_out or "err" in model_out:
            if impl_out.get("err") == model_out.get("err") and impl_out.get("late") == model_out.get("late"):
                return None
            return "construction: impl=%s model=%s" % (str(impl_out)[:200], str(model_out)[:200])
        io = dict(impl_out)
        # nd: an error inside comes back as {"err":..} at top level from the implementation
        mo = dict(model_out)
        mq = []
        for a in mo["q"]:
            if isinstance(a, dict) and "u" in a and isinstance(a["res"], dict):
                mq.append(a["res"])
            else:
                mq.append(a)
        mo["q"] = mq
        # The property permits extra candidates and the theorems say the MODEL omits nothing, so what ties the
        # implementation to them is "implementation ⊇ model" on every list of features / cells (a superset of a
        # complete answer is complete); scalars, None-ness and exceptions must be equal. The unit = -1 searches are
        # not monotone in the grid contents: they are compared for equality whenever the two grids are equal.
        if not close(io["info"], mo["info"], self.rel_tol):
            return "info: impl=%s model=%s" % (str(io["info"])[:300], str(mo["info"])[:300])
        for key, vals in mo["grid"].items():
            miss = set(vals) - set(io["grid"].get(key, []))
            if miss:
                return "grid cell %s: the model registers %s, the implementation only %s" % (key, vals, io["grid"].get(key, []))
        same_grid = io["grid"] == mo["grid"]

        def sub(b, a):      # model answer b, implementation answer a
            if isinstance(b, list) and isinstance(a, list):
                return all(x in a for x in b)
            return close(a, b, self.rel_tol)
        for n, (q, a, b) in enumerate(zip(queries, io["q"], mo["q"])):
            search = q[0] in ("ncell", "npt", "nseg", "ntrk") and (q[-1] if q[0] != "ntrk" else q[1]) < 0
            if search:
                same_cells = io.get("scells", {}).get(str(n)) == mo.get("scells", {}).get(str(n))
                ok = close(a, b, self.rel_tol) if (same_grid and same_cells) else True
            elif isinstance(a, dict) and isinstance(b, dict) and "u" in a and "u" in b:
                ok = a["u"] == b["u"] and sub(b["res"], a["res"])
            else:
                ok = sub(b, a)
            if not ok:
                return "query %d %s: impl=%s model=%s" % (n, q, str(a)[:200], str(b)[:200])
        return None

    # ------------------------------------------------------------------ oracle (transfer)
    def precondition(self, case):
        """the configurations the property quantifies over: a non-empty feature set with at least one segment,
        margin >= 0, and either the default resolution or an explicit positive cell size (a cell size larger than the
        extent is legitimate: one column / row). Flat extents (all vertices on one horizontal or vertical line) and
        single-point bounding boxes are ordinary feature sets."""
        if not case["feats"] or any(len(f) < 1 for f in case["feats"]) or not any(len(f) >= 2 for f in case["feats"]):
            return False
        if fr(case["margin"]) < 0:
            return False
        if (case.get("entry") or "ctor") == "create" and not case.get("net") and str(case["margin"]) not in ("0", "1"):
            return False       # not a session this harness can run: TrackCollection.createSpatialIndex has no margin argument
        if case["res"] is None:
            return True
        rx, ry = fr(case["res"][0]), fr(case["res"][1])
        return 0 < rx and 0 < ry

    def spec(self, case, out):
        f = self.first_failure(case, out)
        return None if f is None else f[2]

    def first_failure(self, case, out):
        """None, or (tag, query index or None, message) for the first way `out` violates the property"""
        if not self.precondition(case):
            return None
        if isinstance(out, dict) and "pre" in out:
            # the index as constructed, queried before the later additions
            r = self._failure(dict(case, late=[], queries=case["pre"]), out["pre"])
            if r is not None:
                return (r[0], r[1], "before the later additions: " + r[2])
        r = self._failure(case, out)
        return r

    def _failure(self, case, out):
        if "harness" in out:
            return None        # the harness could not run the session or read the index: not a statement about the property
        if out.get("late"):
            return None        # a later addFeature call raised: outside the property (compared with the model only)
        if "err" in out:
            return ("construction", None, "index construction raised %s (%s)" % (out["err"], out.get("detail", "")))
        # the index AS BUILT is what is judged: extent, cell sides and dimensions are the ones read back from the object
        # (whatever margin / resolution the front end chose), and so is the choice between the exact and the guarded oracle
        if not all(math.isfinite(v) for v in out["info"]):
            return ("grid", None, "degenerate grid %s" % (out["info"],))
        xmin, xmax, ymin, ymax = (F(v) for v in out["info"][:4])
        cs, ls = out["info"][4], out["info"][5]
        dX, dY = F(out["info"][6]), F(out["info"][7])
        if dX <= 0 or dY <= 0 or cs <= 0 or ls <= 0:
            return ("grid", None, "degenerate grid %s" % (out["info"],))
        exact = exact_on_index(case, out["info"])
        val = fr if exact else (lambda v: F(fl(v)))
        inside = lambda p: xmin <= val(p[0]) <= xmax and ymin <= val(p[1]) <= ymax
        g = lambda p: ((val(p[0]) - xmin) / dX, (val(p[1]) - ymin) / dY)
        grid = {}
        for key, vals in out["grid"].items():
            i, j = key.split(":")
            grid[(int(i), int(j))] = set(vals)
        feats = [(k, f) for k, f in enumerate(case["feats"])]
        outside = [p for _, f in feats for p in f if not inside(p)]
        feats += [(n, t) for n, t in late_of(case) if all(inside(p) for p in t)]
        expected = {}
        for k, f in feats:
            for a, b in segments(f):
                for (i, j) in seg_cells_mode(g(a), g(b), exact, cs, ls):
                    if 0 <= i < cs and 0 <= j < ls:
                        expected.setdefault((i, j), set()).add(k)
        if not exact:
            # feature segments lying ON the upper border of the extent (with margin 0 xmax / ymax are vertex coordinates): a
            # point whose abscissa IS xmax belongs to the last column whatever rounding does to its computed index
            # (the exact mode gets this from seg_cells_floor). Rows / columns are taken with the guard.
            for k, f in feats:
                for a, b in segments(f):
                    ga, gb = g(a), g(b)
                    for ax_, lim, n_, m_ in ((0, xmax, cs, ls), (1, ymax, ls, cs)):
                        if val(a[ax_]) == lim and val(b[ax_]) == lim:
                            lo, hi = min(ga[1 - ax_], gb[1 - ax_]), max(ga[1 - ax_], gb[1 - ax_])
                            for t in range(max(0, math.floor(lo)), min(m_ - 1, math.floor(hi)) + 1):
                                if max(lo, t + EPS) <= min(hi, t + 1 - EPS):
                                    expected.setdefault((n_ - 1, t) if ax_ == 0 else (t, n_ - 1), set()).add(k)
        for (i, j), s in sorted(expected.items()):
            miss = s - grid.get((i, j), set())
            if miss:
                return ("omission", None, "feature %d has a segment through cell (%d,%d) = [%s,%s]x[%s,%s] but is not registered there: "
                        "point queries in that cell omit it" % (min(miss), i, j, float(xmin + i * dX), float(xmin + (i + 1) * dX),
                                                                float(ymin + j * dY), float(ymin + (j + 1) * dY)))
        if outside:
            # (no omission inside the grid was found above: the index still does not cover the features it was built over)
            return ("grid", None, "vertex %s is outside the extent %s" % (outside[0], out["info"][:4]))
        near_border = lambda c: (not exact) and min(c - math.floor(c), math.floor(c) + 1 - c) < EPS
        for n, (q, r) in enumerate(zip(case["queries"], out["q"])):
            k = q[0]
            isr = isinstance(r, dict) and "err" in r
            if k == "cell":
                i, j = q[1], q[2]
                if 0 <= i < cs and 0 <= j < ls:
                    if isr:
                        return ("query-raised", n, "request(%d,%d) raised %s" % (i, j, r["err"]))
                    miss = expected.get((i, j), set()) - set(r)
                    if miss:
                        return ("omission", n, "request(%d,%d) omits feature %d which has a segment through that cell" % (i, j, min(miss)))
            elif k == "pt":
                if not inside(q[1:3]):
                    continue
                c = g(q[1:3])
                if isr:
                    return ("query-raised", n, "request(point %s) raised %s for a point inside the extent" % (q[1:3], r["err"]))
                # a point whose abscissa IS xmax is in the last column whatever its computed index rounds to
                bx, by_ = val(q[1]) == xmax, val(q[2]) == ymax
                if (near_border(c[0]) and not bx) or (near_border(c[1]) and not by_):
                    continue
                # the cell containing the point: the last column / row owns the upper border of the extent
                i = cs - 1 if bx else min(math.floor(c[0]), cs - 1)
                j = ls - 1 if by_ else min(math.floor(c[1]), ls - 1)
                miss = expected.get((i, j), set()) - set(r)
                if miss:
                    return ("omission", n, "request(point %s) omits feature %d which has a segment through the cell (%d,%d) containing the point" % (q[1:3], min(miss), i, j))
            elif k in ("seg", "trk"):
                pts = [q[1:3], q[3:5]] if k == "seg" else q[1]
                if len(pts) < 2 or not all(inside(p) for p in pts):
                    continue
                if isr:
                    return ("query-raised", n, "request(%s %s) raised %s for a query inside the extent" % (k, pts, r["err"]))
                want = set()
                for a, b in segments(pts):
                    for cell in seg_cells_mode(g(a), g(b), exact, cs, ls):
                        want |= grid.get(cell, set()) | expected.get(cell, set())
                miss = want - set(r)
                if miss:
                    return ("omission", n, "request(%s %s) omits feature %d registered in a crossed cell" % (k, pts, min(miss)))
            elif k == "nd":
                if not inside(q[1:3]):
                    continue
                d = val(q[3])
                if d < 0:
                    continue
                if isr or isinstance(r.get("res"), dict) or r.get("res") is None:
                    return ("query-raised", n, "neighborhood(point %s, unit=groundDistanceToUnits(%s)) gave %s for a point inside the extent" % (q[1:3], q[3], r))
                qq = (val(q[1]), val(q[2]))
                dd = d * d if exact else (d * (1 - EPS)) ** 2
                for kf, f in feats:
                    if kf in r["res"]:
                        continue
                    for a, b in segments(f):
                        d2 = d2_point_seg(qq, (val(a[0]), val(a[1])), (val(b[0]), val(b[1])))
                        if d2 <= dd:
                            return ("omission", n, "neighborhood(point %s, unit=groundDistanceToUnits(%s)=%d) omits feature %d which has a point at distance %.6g <= %s"
                                    % (q[1:3], q[3], r["u"], kf, math.sqrt(float(d2)), q[3]))
            elif k == "cross":
                a, b = (val(q[1]), val(q[2])), (val(q[3]), val(q[4]))
                if isr:
                    return ("query-raised", n, "__cellsCrossSegment(%s) raised %s" % (q[1:], r["err"]))
                got = {(c[0], c[1]) for c in r}
                miss = seg_cells_mode(a, b, exact, cs, ls) - got
                if miss:
                    return ("omission", n, "__cellsCrossSegment(%s): the segment meets cell %s, which is not returned" % (q[1:], sorted(miss)[0]))
        return None

    # ------------------------------------------------------------------ known-finding classes
    def classify(self, case, impl_out, msg):
        """no finding of C08 is left open: the classes vertex-on-upper-border, query-on-upper-border and
        default-resolution-flat-extent were removed with their repairs (a failure of one of those kinds is a violation)"""
        return None

    # ------------------------------------------------------------------ generators
    def exhaustive_scopes(self, tier):
        n = 7 if tier == "quick" else 9
        return ["__cellsCrossSegment on every ordered pair of points of the half-integer lattice {0,1/2,..,%s}^2 (%d segments) of a grid of that many cells per side (upper border included), exact oracle" % ((n - 1) / 2, n ** 4),
                "every 2-vertex track between two different points of {0,1/2,..,%s}^2 (flat bounding boxes included), margin 1/2 and margin 0, cell sizes (1/2|1|2)x(1/2|1|2) where exact, point query at every half-integer point of the closed extent (upper border included)"
                % (2 if tier == "quick" else 3)]

    def lattice_queries(self, tw, rng, feats, tier, step=F(1, 2), full=False):
        """queries on the lattice of the extent"""
        xmin, xmax, ymin, ymax, cs, ls, dX, dY = tw
        nx = int((xmax - xmin) / step)
        ny = int((ymax - ymin) / step)
        P = lambda: [float(xmin + step * rng.randrange(0, nx + 1)), float(ymin + step * rng.randrange(0, ny + 1))]
        Pin = lambda: [float(xmin + step * rng.randrange(0, max(1, nx))), float(ymin + step * rng.randrange(0, max(1, ny)))]
        qs = []
        if full:
            # every lattice point of the closed extent, its upper border included (a flat axis has nx = 0: the one
            # abscissa xmin = xmax)
            for a in range(nx + 1):
                for b in range(ny + 1):
                    qs.append(["pt", float(xmin + step * a), float(ymin + step * b)])
            return qs
        size = float(max(xmax - xmin, ymax - ymin))
        dists = [0, 0.5, 1, 1.5, 2, 2.5, 3, 4, 5, 6.5, 7.5, 10, 12.5, 13]
        Pin_, bq = Pin, (0.35 if rng.random() < 0.5 else 0.1)
        Pin = lambda: P() if rng.random() < bq else Pin_()       # points of the closed extent: the upper border too
        for _ in range(rng.randrange(4, 9)):
            p = Pin()
            r = rng.random()
            if r < 0.25:
                qs.append(["pt"] + p)
            elif r < 0.5:
                d = rng.choice([x for x in dists if x <= size] or [0])
                if rng.random() < 0.5 and feats:
                    # a distance that is exactly the distance to some feature when that is rational
                    f = rng.choice(feats)
                    a, b = rng.choice(segments(f)) if len(f) > 1 else (f[0], f[0])
                    d2 = d2_point_seg((fr(p[0]), fr(p[1])), (fr(a[0]), fr(a[1])), (fr(b[0]), fr(b[1])))
                    s = math.isqrt(d2.numerator * d2.denominator)
                    if s * s == d2.numerator * d2.denominator:
                        dd = F(s, d2.denominator)
                        if small_dyadic(dd) and dd <= size:
                            d = float(dd)
                qs.append(["nd"] + p + [d])
            elif r < 0.6:
                qs.append(["seg"] + Pin() + Pin())
            elif r < 0.68:
                qs.append(["trk", [Pin() for _ in range(rng.randrange(2, 4))]])
            elif r < 0.76:
                qs.append(["npt"] + p + [rng.choice([-1, 0, 1, 2, 3])])
            elif r < 0.82:
                qs.append(["nseg"] + Pin() + Pin() + [rng.choice([-1, 0, 1, 2])])
            elif r < 0.86:
                qs.append(["ntrk", rng.choice([-1, 0, 1]), [Pin() for _ in range(rng.randrange(2, 4))]])
            elif r < 0.92:
                qs.append(["ncell", rng.randrange(-1, cs + 1), rng.randrange(-1, ls + 1), rng.choice([-1, 0, 1, 2])])
            elif r < 0.96:
                qs.append(["cell", rng.randrange(-1, cs + 1), rng.randrange(-1, ls + 1)])
            else:
                qs.append(["units", rng.choice(dists)])
        return qs

    def lattice_case(self, rng, tier):
        """1-3 features of 2-4 vertices on a half-integer lattice, a configuration on which floats are exact"""
        for _ in range(40):
            margin = rng.choice(["1/2"] * 9 + ["1/20"] * 7 + ["1/4"] * 3 + ["0"] * 4)
            net = rng.random() < 0.25
            entry = "create" if rng.random() < 0.15 else "ctor"
            tc_create = entry == "create" and not net
            if tc_create:
                margin = rng.choice(["0", "1"])      # TrackCollection.createSpatialIndex(res, verbose): the flag is the margin
            r = rng.random()
            default = r < 0.08 and not tc_create
            thin = default and rng.random() < 0.5
            if thin:
                # default resolution on a thin extent (ordinary since 9a44198): long side 8 lattice units, short side
                # 1 or 2, rescaled below so that the extent is 100 x (1/4 .. 4) cells of the long axis
                margin = "1/2"
                W, H = rng.choice([(8, 1), (8, 2), (1, 8), (2, 8)])
                nf, nv = rng.randrange(1, 3), (2, 4)
            elif default:
                margin = "1/2"
                W, H = rng.choice([1, 2, 4, 8, 2.5, 5]), rng.choice([1, 2, 4, 8, 2.5, 5])
                nf, nv = rng.randrange(1, 3), (2, 4)
            else:
                nf, nv = rng.randrange(1, 4), (2, 5)
                if margin == "1/20":
                    W, H = rng.choice([5, 10, 20]), rng.choice([5, 10, 20])
                else:
                    W, H = rng.choice([1, 2, 3, 4, 6, 8, 2.5, 5]), rng.choice([1, 2, 3, 4, 6, 8, 2.5, 5])
            # degenerate extents (ordinary inputs since the degenerate-extent repair): all vertices on one vertical or
            # horizontal line (a straight east-west track), or all at one point
            degen = rng.random() if not thin else 1.0
            if degen < 0.07:
                if degen < 0.03:
                    W = 0
                elif degen < 0.06:
                    H = 0
                else:
                    W = H = 0
            feats = [[[rng.randrange(0, int(2 * W) + 1) / 2, rng.randrange(0, int(2 * H) + 1) / 2] for _ in range(rng.randrange(*nv))]
                     for _ in range(nf)]
            # make the bbox exactly W x H
            flat = [p for f in feats for p in f]
            rng.choice(flat)[0] = 0.0
            rng.choice([p for p in flat if p[0] != 0.0] or flat)[0] = float(W)
            rng.choice(flat)[1] = 0.0
            rng.choice([p for p in flat if p[1] != 0.0] or flat)[1] = float(H)
            if degen < 0.07 and rng.random() < 0.5:
                # not at the origin
                ox, oy = rng.randrange(-6, 7) / 2, rng.randrange(-6, 7) / 2
                feats = [[[p[0] + ox, p[1] + oy] for p in f] for f in feats]
            if default:
                res = None
                # default resolution is exact when the larger side of the extent is 25, 50 or 100
                k = rng.choice([12.5, 25, 50]) / max(W, H) if max(W, H) > 0 else 1
                feats = [[[p[0] * k, p[1] * k] for p in f] for f in feats]
                if thin:
                    # squash the short axis: its extent becomes 1/4, 1/2, 1, 2 or 4 times r = (long extent)/100,
                    # i.e. int(short / r) = 0 (one row/column by the max(1, .)), 1, 2 or 4
                    r100 = 2 * k * max(W, H) / 100
                    ax_short = r100 * rng.choice([0.25, 0.25, 0.5, 1, 2, 4])
                    a = 0 if W < H else 1
                    sq = ax_short / (2 * k * min(W, H))
                    feats = [[[p[0] * (sq if a == 0 else 1), p[1] * (sq if a == 1 else 1)] for p in f] for f in feats]
            elif r < 0.5:
                s = rng.choice([0.5, 1, 2])
                res = [s, s]
            else:
                # non-square cells, up to larger than the extent on an axis (then one column / row)
                res = [rng.choice([0.25, 0.5, 1, 2, 4, 8, 16]), rng.choice([0.25, 0.5, 1, 2, 4, 8, 16])]
            case = {"kind": "lattice", "net": net, "feats": feats, "res": res, "margin": margin, "late": [], "queries": []}
            if entry != "ctor":
                case["entry"] = entry
            if rng.random() < (0.15 if entry == "ctor" else 0.6):
                # argument form of the front-end call: positional, keywords, defaults left out
                case["call"] = rng.choice(["pos", "kw", "dflt"])
            if rng.random() < 0.1:
                case["geo"] = True
            tw = exact_twin(case)
            if tw in (None, "zerodiv"):
                continue
            if res is not None and tw[4] * tw[5] > 1600:
                continue
            if rng.random() < 0.22:
                n0 = len(feats)
                late = []
                for k in range(rng.randrange(1, 3)):
                    num = rng.choice([n0, n0 + 1, 0]) if not (net and entry == "create") else n0 + k
                    out_ = 0 if rng.random() < 0.6 else 2        # 60 %: every vertex inside the extent
                    pts = [[float(tw[0] + F(1, 2) * rng.randrange(-out_, int((tw[1] - tw[0]) * 2) + out_ + 1)),
                            float(tw[2] + F(1, 2) * rng.randrange(-out_, int((tw[3] - tw[2]) * 2) + out_ + 1))] for _ in range(rng.randrange(2, 5))]
                    late.append([num, pts])
                case["late"] = late
            step = F(1, 2) if res is not None else min(tw[6], tw[7])
            case["queries"] = self.lattice_queries(tw, rng, feats, tier, step=step)
            self.make_session(case, rng)
            if exact_case(case):
                return case
        return {"kind": "lattice", "net": False, "feats": [[[0.0, 0.0], [4.0, 3.0]], [[1.0, 2.5], [2.0, 2.5], [4.0, 0.0]]], "res": [1, 1],
                "margin": "1/2", "late": [], "queries": [["pt", 1.0, 1.0], ["nd", 0.0, 3.0, 2.5]]}

    def make_session(self, case, rng):
        """sequences on one index object: the queries are also run BEFORE the later additions (`pre`), so that whatever a
        query leaves behind in the index (a cache, a shared list) faces a changed grid when the same query is asked
        again; and some queries are simply asked twice"""
        qs = case["queries"]
        if not qs:
            return
        if (case.get("late") and rng.random() < 0.85) or rng.random() < 0.06:
            case["pre"] = [list(q) for q in qs]
        if rng.random() < 0.2:
            case["queries"] = qs + [list(rng.choice(qs)) for _ in range(rng.randrange(1, 3))]

    def float_case(self, rng, tier):
        scale = rng.choice([1, 10, 100, 1000])
        rnd = lambda: round(rng.uniform(0, scale), rng.choice([1, 2, 3]))
        nf = rng.randrange(1, 4)
        feats = [[[rnd(), rnd()] for _ in range(rng.randrange(2, 5))] for _ in range(nf)]
        margin = rng.choice(["1/20", "1/20", "1/2", "1/10", "0.3", "0", "0"])
        border_axis = None
        degen = rng.random()
        if degen < 0.06:
            # all vertices on one vertical / horizontal line, or (rarely) at one point
            p0 = feats[0][0]
            for f in feats:
                for p in f:
                    if degen < 0.025 or degen >= 0.05:
                        p[0] = p0[0]
                    if degen >= 0.025:
                        p[1] = p0[1]
        if margin == "0" and rng.random() < 0.5:
            # margin 0: a feature lying on the upper border of the extent (= of the bounding box): a street along the
            # eastern or northern edge of the data set
            allp = [p for f in feats for p in f]
            xs, ys = [p[0] for p in allp], [p[1] for p in allp]
            if rng.random() < 0.5:
                feats.append([[max(xs), rng.choice(ys)], [max(xs), rng.choice(ys)]] + ([[max(xs), rnd()]] if rng.random() < 0.3 else []))
                border_axis = 0
            else:
                feats.append([[rng.choice(xs), max(ys)], [rng.choice(xs), max(ys)]] + ([[rnd(), max(ys)]] if rng.random() < 0.3 else []))
                border_axis = 1
        bb = case_bbox({"feats": feats})
        ax, ay = float(bb[1] - bb[0]) * 1.1, float(bb[3] - bb[2]) * 1.1
        base = min(ax, ay) if min(ax, ay) > 0 else (max(ax, ay) or 1.0)
        r = rng.random()
        if r < 0.1:
            res = None
            feats = [f[:3] for f in feats[:2]]
            if rng.random() < 0.5 and ax > 0 and ay > 0:
                # thin extent: aspect ratio around 30 .. 1000 (int(short / r) = 0 .. 3 rows or columns)
                a, q = rng.randrange(2), rng.choice([30, 60, 90, 150, 400, 1000])
                feats = [[[p[0] / (q if a == 0 else 1), p[1] / (q if a == 1 else 1)] for p in f] for f in feats]
                if len({p[a] for f in feats for p in f}) < 2:
                    return self.float_case(rng, tier)
        elif r < 0.5:
            s = round(base / rng.choice([0.6, 1.5, 3, 7, 12]), 3)
            res = [s, s]
        else:
            # a divisor < 1 gives a cell larger than the extent on that axis: one column / row
            res = [round((ax or base) / rng.choice([0.6, 1.5, 3, 7, 12, 30]), 3), round((ay or base) / rng.choice([0.6, 1.5, 3, 7, 12, 30]), 3)]
        if res is not None and border_axis is not None and rng.random() < 0.7:
            # a float situation: the fractional index of the border, A / (A / n), exceeds n by a rounding error for about 3 %
            # of the (extent, cell size) pairs: look for such a cell size on the axis that carries the border feature
            lo_, hi_ = (bb[0], bb[1]) if border_axis == 0 else (bb[2], bb[3])
            A = float(hi_) - float(lo_)
            for _ in range(40):
                if A <= 0:
                    break
                rr = round(A / rng.choice([1.5, 3, 7, 12, 30]) * rng.uniform(0.8, 1.2), 3)
                if rr <= 0:
                    continue
                n = max(1, int(A / rr))
                if A / (A / n) > n:
                    res = list(res)
                    res[border_axis] = rr
                    break
        if res is not None and (res[0] <= 0 or res[1] <= 0):
            res = None
        case = {"kind": "float", "net": rng.random() < 0.2, "feats": feats, "res": res, "margin": margin, "late": [], "queries": []}
        tw = exact_twin(case)
        if tw in (None, "zerodiv"):
            return case
        if res is not None and (tw[4] * tw[5] > 4000 or max(tw[4], tw[5]) > 400):
            return self.float_case(rng, tier)      # keep the quadratic loops of the code affordable
        xmin, xmax, ymin, ymax = (float(v) for v in tw[:4])
        # (on a flat axis the only admissible abscissa is xmin = xmax itself: no rounding)
        P = lambda: [xmin if xmin == xmax else round(rng.uniform(xmin, xmax), 3), ymin if ymin == ymax else round(rng.uniform(ymin, ymax), 3)]
        size = max(xmax - xmin, ymax - ymin)
        qs = []
        P_ = P
        verts = [p for f in feats for p in f]
        # a quarter of the query points are vertices (with margin 0 the right-most / top-most ones are on the upper border)
        P = lambda: list(rng.choice(verts)) if rng.random() < 0.25 else P_()
        for _ in range(rng.randrange(3, 8)):
            r = rng.random()
            if r < 0.3:
                qs.append(["pt"] + P())
            elif r < 0.6:
                qs.append(["nd"] + P() + [round(rng.uniform(0, size) * rng.choice([0.02, 0.1, 0.3, 1]), 3)])
            elif r < 0.7:
                qs.append(["seg"] + P() + P())
            elif r < 0.78:
                qs.append(["trk", [P() for _ in range(rng.randrange(2, 4))]])
            elif r < 0.86:
                qs.append(["npt"] + P() + [rng.choice([-1, 0, 1, 2])])
            elif r < 0.92:
                qs.append(["nseg"] + P() + P() + [rng.choice([-1, 0, 1])])
            else:
                qs.append(["cross", round(rng.uniform(0, 6), 2), round(rng.uniform(0, 6), 2), round(rng.uniform(0, 6), 2), round(rng.uniform(0, 6), 2)])
        case["queries"] = qs
        if rng.random() < 0.15:
            # later additions inside the extent (random vertices), the queries asked before and after them
            n0 = len(feats)
            case["late"] = [[n0 + k, [P_() for _ in range(rng.randrange(2, 4))]] for k in range(rng.randrange(1, 3))]
        if case["net"] and rng.random() < 0.3:
            case["entry"] = "create"
        if rng.random() < 0.2:
            case["call"] = rng.choice(["pos", "kw", "dflt"])
        self.make_session(case, rng)
        return case

    BASE = {"kind": "cross", "net": False, "feats": [[[0.0, 0.0], [2.0, 2.0]]], "res": [1, 1], "margin": "1/2", "late": []}      # 4 x 4 cells
    BASE3 = {"kind": "cross", "net": False, "feats": [[[0.0, 0.0], [2.0, 2.0]]], "res": [1, 1], "margin": "1/4", "late": []}     # 3 x 3 cells

    def cases(self, rng, tier):
        out = []
        # --- exhaustive: __cellsCrossSegment on every lattice segment (grid coordinates), exact oracle
        n = 7 if tier == "quick" else 9
        pts = [[a / 2, b / 2] for a in range(n) for b in range(n)]
        allseg = [["cross"] + p + q for p in pts for q in pts]
        # (quick: lattice {0..3}^2 on the 3 x 3 grid, thorough: {0..4}^2 on the 4 x 4 grid: the whole closed grid, so
        # that segments ending on, crossing to and lying on the upper border go through the clamped index box)
        base = self.BASE3 if tier == "quick" else self.BASE
        for k in range(0, len(allseg), 60):
            out.append(dict(base, queries=allseg[k:k + 60]))
        # shifted/negative and long segments
        for _ in range(30 if tier == "quick" else 300):
            qs = []
            for _ in range(40):
                qs.append(["cross"] + [rng.randrange(-12, 25) / 4 for _ in range(4)])
            out.append(dict(self.BASE, queries=qs))
        # straddle test itself on lattice segments
        for _ in range(20 if tier == "quick" else 200):
            out.append(dict(self.BASE, queries=[["inter"] + [rng.randrange(-4, 9) / 2 for _ in range(8)] for _ in range(40)]))
        # --- exhaustive: every 2-vertex track of a small lattice, indexed, queried at every lattice point
        m = 5 if tier == "quick" else 7
        lp = [[a / 2, b / 2] for a in range(m) for b in range(m)]
        sizes = [(1, 1), (0.5, 1), (2, 0.5)] if tier == "quick" else [(1, 1), (0.5, 0.5), (0.5, 1), (2, 0.5), (1, 2), (2, 2)]
        for ia, a in enumerate(lp):
            for b in lp[ia + 1:]:
                for res, margin in [(r_, "1/2") for r_ in sizes] + [(r_, "0") for r_ in sizes[:2]]:
                    case = {"kind": "track2", "net": False, "feats": [[a, b]], "res": list(res), "margin": margin, "late": [], "queries": []}
                    tw = exact_twin(case)
                    if tw in (None, "zerodiv") or not self.precondition(case):
                        continue
                    case["queries"] = self.lattice_queries(tw, rng, case["feats"], tier, full=True)
                    if exact_case(case):
                        out.append(case)
        # --- regression / finding witnesses
        out.append({"kind": "witness", "net": False, "feats": [[[0.0, 0.0], [1.0, 1.0]]], "res": [1, 1], "margin": "0", "late": [], "queries": [["pt", 0.5, 0.5], ["pt", 1.0, 1.0]]})
        out.append({"kind": "witness", "net": False, "feats": [[[0.0, 0.0], [2.0, 2.0]]], "res": [1, 1], "margin": "1/2", "late": [], "queries": [["pt", 3.0, 1.0], ["seg", 3.0, -1.0, 3.0, 3.0], ["nd", 3.0, 3.0, 1.5]]})
        out.append({"kind": "witness", "net": False, "feats": [[[0.0, 0.0], [1000.0, 5.0]]], "res": None, "margin": "1/20", "late": [], "queries": [["pt", 500.0, 2.5]]})
        out.append({"kind": "witness", "net": False, "feats": [[[0.0, 0.0], [10.0, 0.0]]], "res": None, "margin": "1/20", "late": [], "queries": [["pt", 5.0, 0.0], ["nd", 2.0, 0.0, 1.0]]})
        out.append({"kind": "witness", "net": False, "feats": [[[0.0, 0.0], [10.0, 0.0]]], "res": [2, 2], "margin": "1/20", "late": [], "queries": [["pt", 5.0, 0.0], ["seg", 1.0, 0.0, 9.0, 0.0]]})
        out.append({"kind": "witness", "net": False, "feats": [[[0.0, 0.0], [10.0, 1.0]]], "res": [2, 5], "margin": "1/20", "late": [], "queries": [["pt", 5.0, 0.5], ["nd", 5.0, 1.0, 0.5]]})
        out.append({"kind": "witness", "net": False, "feats": [[[3.0, 4.0], [3.0, 4.0]]], "res": None, "margin": "1/20", "late": [], "queries": [["pt", 3.0, 4.0], ["nd", 3.0, 4.0, 2.0], ["units", 2.0]]})
        out.append({"kind": "witness", "net": False, "feats": [[[0.0, 0.0], [60.0, 0.0], [60.0, 4.0]], [[0.0, 10.0], [60.0, 10.0]]], "res": [60, 1], "margin": "1/2",
                    "late": [], "queries": [["nd", 30.0, 0.0, 10.0], ["units", 10.0]]})
        # --- random lattice (exact) and float streams
        nl, nf = (1800, 500) if tier == "quick" else (30000, 8000)
        for _ in range(nl):
            out.append(self.lattice_case(rng, tier))
        for _ in range(nf):
            out.append(self.float_case(rng, tier))
        return out

    def describe(self, case):
        res = case["res"]
        t = {"kind": case["kind"], "mode": "rat" if exact_case(case) else "flt", "margin": str(case["margin"]),
             "res": "default" if res is None else "square" if fr(res[0]) == fr(res[1]) else "non-square",
             "net": bool(case.get("net")), "nfeat": len(case["feats"]), "late": bool(case.get("late")),
             "session": ("pre+late" if case.get("pre") and case.get("late") else "pre" if case.get("pre") else "late" if case.get("late") else "-"),
             "entry": ("ctor" if (case.get("entry") or "ctor") == "ctor" else "Network.createSpatialIndex" if case.get("net") else "TrackCollection.createSpatialIndex"),
             "coords": "Geo" if case.get("geo") else "ENU", "call": case.get("call") or "-"}
        bb = case_bbox(case)
        if bb is not None:
            fx, fy = bb[0] == bb[1], bb[2] == bb[3]
            t["extent"] = "point" if fx and fy else "flat" if fx or fy else "2d"
            tw = exact_twin(case)
            if res is not None and tw not in (None, "zerodiv") and not (fx or fy):
                t["cell>extent"] = bool(fr(res[0]) > tw[1] - tw[0] or fr(res[1]) > tw[3] - tw[2])
        return t

    def nontrivial(self, case):
        return self.precondition(case) and len(case["queries"]) > 0

    # ------------------------------------------------------------------ shrinking / search
    def shrink(self, case):
        qs = case["queries"]
        if len(qs) > 1:
            for k in range(len(qs)):
                yield dict(case, queries=[qs[k]])
            yield dict(case, queries=qs[:len(qs) // 2])
            yield dict(case, queries=qs[len(qs) // 2:])
        if case.get("pre") and len(case["pre"]) > 1:
            for k in range(len(case["pre"])):
                yield dict(case, pre=[case["pre"][k]])
        if case.get("late"):
            yield dict(case, late=[])
            if len(case["late"]) > 1:
                for k in range(len(case["late"])):
                    yield dict(case, late=[case["late"][k]])
        if case.get("pre"):
            yield dict(case, pre=[])
        if case.get("geo"):
            yield dict(case, geo=False)
        if case.get("call"):
            yield {k: v for k, v in case.items() if k != "call"}
        fs = case["feats"]
        if len(fs) > 1:
            for k in range(len(fs)):
                yield dict(case, feats=fs[:k] + fs[k + 1:])
        for k, f in enumerate(fs):
            if len(f) > 2:
                for v in range(len(f)):
                    yield dict(case, feats=fs[:k] + [f[:v] + f[v + 1:]] + fs[k + 1:])
        if case.get("net"):
            # (TrackCollection.createSpatialIndex takes no margin: back to the constructor)
            yield dict(case, net=False, entry="ctor")
        elif (case.get("entry") or "ctor") != "ctor" and str(case["margin"]) in ("0", "1"):
            yield dict(case, entry="ctor")

    def mutate(self, case, rng):
        for _ in range(20):
            c = dict(case)
            fs = [[list(p) for p in f] for f in case["feats"]]
            f = rng.choice(fs)
            p = rng.choice(f)
            p[rng.randrange(2)] += rng.choice([-0.5, 0.5, 1, -1])
            c["feats"] = fs
            yield c


# ---- tie to the source by translation (tools/py2lean.py -> lean/TracklibVerif/Gen/Geometry.lean, regenerated on every run)
P.tie_modules = ["TracklibVerif.Tie.C08"]
P.theorems = P.theorems + [
    ("TracklibVerif.Tie.C08", "TV.Tie.C08.tie_cartesienne", "the Lean translation of the CURRENT source of geometry.cartesienne equals the model's cartesienne on every segment list"),
    ("TracklibVerif.Tie.C08", "TV.Tie.C08.tie_eval", "the translation of the CURRENT source of geometry.__eval equals the model's evalLine"),
    ("TracklibVerif.Tie.C08", "TV.Tie.C08.tie_isSegmentIntersects", "the translation of the CURRENT source of geometry.isSegmentIntersects equals the model's straddle test on all pairs of segments"),
    ("TracklibVerif.Tie.C08", "TV.Tie.C08.tie_groundDistanceToUnits", "the translation of the CURRENT source of SpatialIndex.groundDistanceToUnits equals the model's, ZeroDivisionError included (the model's == 0 test is Python's)"),
    ("TracklibVerif.Tie.C08", "TV.Tie.C08.tie_getCellR", "the translation of the CURRENT source of SpatialIndex.__getCell (range tests, divisions with their ZeroDivisionError, caps min(index, size)) equals the model's executed form getCellR"),
    ("TracklibVerif.Tie.C08", "TV.Tie.C08.tie_isSegmentIntersects_short1", "the translated isSegmentIntersects raises IndexError when the first list has fewer than four numbers"),
]
P.theorems = P.theorems + [
    ("TracklibVerif.Tie.C08", "TV.Tie.C08.tie_cellsCrossSegment", "the translation of the CURRENT source of SpatialIndex.__cellsCrossSegment (clamped bounds, the two nested range loops, eight comparisons, four straddle tests, append-if-new) returns the model's cellsCross on all arguments, no hypothesis"),
    ("TracklibVerif.Tie.C08", "TV.Tie.C08.tie_cellsCrossSegment_short1", "the translated __cellsCrossSegment raises IndexError when the first coordinate list has fewer than two numbers"),
    ("TracklibVerif.Tie.C08", "TV.Tie.C08.tie_cellsCrossSegment_short2", "the translated __cellsCrossSegment raises IndexError when the second coordinate list has fewer than two numbers"),
]
