"""C08 — the grid spatial index never omits a feature that is geometrically there
(tracklib/core/spatial_index.py, isSegmentIntersects/cartesienne of tracklib/util/geometry.py).

A case is one scenario: a collection (tracks, or the edges of a small network), a resolution, a margin,
optional later `addFeature` calls, and a list of queries. The Lean model (Model/Grid.lean) runs the same
scenario in one driver line. Two scalar modes:
  rat  every float operation of the Python is exact on the case (checked by `exact_case`: the float run of
       the constructor / __getCell is replayed next to a Fraction run and must agree); the model runs on Rat,
       the oracle is exact rational geometry with closed cells.
  flt  anything else (margin 0.05 on arbitrary extents, default resolution, random coordinates): the model
       runs the same operations on Float; the oracle is exact rational geometry on the float values with a
       declared relative guard EPS against boundary coincidences decided by rounding.
"""
import math, json
from fractions import Fraction as F
from engine import Prop, fbits, bitsf, ratstr, err_kind, close

EPS = F(1, 10 ** 7)       # guard (in cell units / relative on distances) of the flt-mode oracle


def fr(v):
    """case scalar (int, float holding the intended value, or 'p/q' string) -> Fraction"""
    if isinstance(v, str):
        return F(v)
    return F(v)


def fl(v):
    return float(fr(v))


def small_dyadic(q):
    d = q.denominator
    return d & (d - 1) == 0 and d <= 2 ** 16 and abs(q.numerator) < 2 ** 34


# ------------------------------------------------------------------------------------------
# twin of the constructor / __getCell, generic in the number type (float or Fraction)
# ------------------------------------------------------------------------------------------
def twin_build(bb, res, m, hundred):
    bxmin, bxmax, bymin, bymax = bb
    dx = bxmax - bxmin
    dy = bymax - bymin
    xmin = bxmin - m * dx
    xmax = bxmax + m * dx
    ymin = bymin - m * dy
    ymax = bymax + m * dy
    ax = xmax - xmin
    ay = ymax - ymin
    if res is None:
        am = max(ax, ay)
        r = am / hundred
        cs, ls = max(1, int(ax / r)), max(1, int(ay / r))
    else:
        cs, ls = int(ax / res[0]), int(ay / res[1])
    dX = ax / cs
    dY = ay / ls
    return (xmin, xmax, ymin, ymax, cs, ls, dX, dY)


def twin_cell(info, x, y):
    """__getCell; raises ZeroDivisionError for a point inside an extent with a zero cell side"""
    xmin, xmax, ymin, ymax, cs, ls, dX, dY = info
    if x < xmin or x > xmax or y < ymin or y > ymax:
        return None
    return ((x - xmin) / dX, (y - ymin) / dY)


def flat_grid(tw):
    """the twin built a grid with a zero cell side (flat extent, default resolution)"""
    return tw not in (None, "zerodiv") and (tw[6] == 0 or tw[7] == 0)


def case_bbox(case):
    pts = [p for f in case["feats"] for p in f]
    if not pts:
        return None
    xs = [fr(p[0]) for p in pts]
    ys = [fr(p[1]) for p in pts]
    return (min(xs), max(xs), min(ys), max(ys))


def exact_twin(case):
    """Fraction run of the constructor up to the registration loop: info tuple (a cell side may be 0: see `flat_grid`),
    or 'zerodiv', or None (no feature)"""
    bb = case_bbox(case)
    if bb is None:
        return None
    res = None if case["res"] is None else (fr(case["res"][0]), fr(case["res"][1]))
    try:
        return twin_build(bb, res, fr(case["margin"]), F(100))
    except ZeroDivisionError:
        return "zerodiv"


def case_points(case):
    """every ground point that goes through __getCell"""
    pts = [p for f in case["feats"] for p in f]
    for num, t in case.get("late", []):
        pts += t
    for q in case["queries"]:
        k = q[0]
        if k in ("pt", "npt", "nd", "getcell"):
            pts.append(q[1:3])
        elif k in ("seg", "nseg"):
            pts += [q[1:3], q[3:5]]
        elif k == "trk":
            pts += q[1]
        elif k == "ntrk":
            pts += q[2]
    return pts


_EXACT_CACHE = {}


def exact_case(case):
    key = json.dumps(case, sort_keys=True)
    v = _EXACT_CACHE.get(key)
    if v is None:
        if len(_EXACT_CACHE) > 20000:
            _EXACT_CACHE.clear()
        v = _EXACT_CACHE[key] = _exact_case(case)
    return v


def _exact_case(case):
    """True when Python's float arithmetic is exact on every operation the scenario performs (then the
    Rat model applies to the computed values with no gap)"""
    bb = case_bbox(case)
    if bb is None:
        return True
    res_q = None if case["res"] is None else (fr(case["res"][0]), fr(case["res"][1]))
    res_f = None if case["res"] is None else (fl(case["res"][0]), fl(case["res"][1]))
    if not all(small_dyadic(v) for v in bb):
        return False
    for p in case_points(case):
        if not (small_dyadic(fr(p[0])) and small_dyadic(fr(p[1]))):
            return False
    try:
        iq = twin_build(bb, res_q, fr(case["margin"]), F(100))
    except ZeroDivisionError:
        iq = None
    try:
        if_ = twin_build(tuple(float(v) for v in bb), res_f, fl(case["margin"]), 100)
    except ZeroDivisionError:
        if_ = None
    if iq is None or if_ is None:
        return iq is None and if_ is None
    if any(F(a) != b for a, b in zip(if_, iq)):
        return False
    if not (small_dyadic(iq[6]) and small_dyadic(iq[7]) and all(small_dyadic(v) for v in iq[:4])):
        return False
    if iq[6] == 0 or iq[7] == 0:
        return True        # zero cell side: only the (exact) range tests of __getCell are computed before it raises
    for p in case_points(case):
        cq = twin_cell(iq, fr(p[0]), fr(p[1]))
        cf = twin_cell(if_, fl(p[0]), fl(p[1]))
        if (cq is None) != (cf is None):
            return False
        if cq is not None:
            if F(cf[0]) != cq[0] or F(cf[1]) != cq[1] or not (small_dyadic(cq[0]) and small_dyadic(cq[1])):
                return False
    mn = min(iq[6], iq[7])
    for q in case["queries"]:
        k = q[0]
        if k in ("units", "nd"):
            d = q[-1]
            if not small_dyadic(fr(d)):
                return False
            if F(fl(d) / float(mn) + 1) != fr(d) / mn + 1:
                return False
        if k in ("cross", "inter"):
            if not all(small_dyadic(fr(v)) and abs(fr(v)) < 2 ** 20 for v in q[1:]):
                return False
    return True


# ------------------------------------------------------------------------------------------
# exact geometry (the oracle)
# ------------------------------------------------------------------------------------------
def seg_cells(a, b):
    """cells (i, j) whose CLOSED unit square [i,i+1]x[j,j+1] meets the closed segment [a, b] (Fractions):
    column by column, the y-range of the part of the segment inside the slab i <= x <= i+1"""
    (ax, ay), (bx, by) = a, b
    cells = set()
    xlo, xhi = min(ax, bx), max(ax, bx)
    for i in range(math.ceil(xlo) - 1, math.floor(xhi) + 1):
        if ax == bx:
            ylo, yhi = min(ay, by), max(ay, by)
        else:
            t0 = (max(F(i), xlo) - ax) / (bx - ax)
            t1 = (min(F(i + 1), xhi) - ax) / (bx - ax)
            y0 = ay + t0 * (by - ay)
            y1 = ay + t1 * (by - ay)
            ylo, yhi = min(y0, y1), max(y0, y1)
        for j in range(math.ceil(ylo) - 1, math.floor(yhi) + 1):
            cells.add((i, j))
    return cells


def seg_meets_box(a, b, x0, x1, y0, y1):
    """closed segment [a,b] meets the closed box (Liang-Barsky, exact)"""
    if x0 > x1 or y0 > y1:
        return False
    (ax, ay), (bx, by) = a, b
    t0, t1 = F(0), F(1)
    for p, q in ((-(bx - ax), ax - x0), (bx - ax, x1 - ax), (-(by - ay), ay - y0), (by - ay, y1 - ay)):
        if p == 0:
            if q < 0:
                return False
        else:
            r = q / p
            if p < 0:
                t0 = max(t0, r)
            else:
                t1 = min(t1, r)
    return t0 <= t1


def seg_cells_floor(a, b):
    """cells (floor x, floor y) of all points of the closed segment [a, b] (Fractions): the cells, half-open
    [i,i+1)x[j,j+1) as `math.floor` assigns points to them, that contain a point of the segment. The cell of
    a moving point only changes where a coordinate is an integer: sample those parameters and the midpoints
    between consecutive ones."""
    (ax, ay), (bx, by) = a, b
    ts = {F(0), F(1)}
    for p0, p1 in ((ax, bx), (ay, by)):
        if p0 != p1:
            for k in range(math.ceil(min(p0, p1)), math.floor(max(p0, p1)) + 1):
                ts.add((k - p0) / (p1 - p0))
    ts = sorted(ts)
    ts += [(u + v) / 2 for u, v in zip(ts, ts[1:])]
    return {(math.floor(ax + t * (bx - ax)), math.floor(ay + t * (by - ay))) for t in ts}


def seg_cells_mode(a, b, exact):
    if exact:
        return seg_cells_floor(a, b)
    cells = seg_cells(a, b)
    return {(i, j) for (i, j) in cells if seg_meets_box(a, b, i + EPS, i + 1 - EPS, j + EPS, j + 1 - EPS)}


def d2_point_seg(q, a, b):
    (qx, qy), (ax, ay), (bx, by) = q, a, b
    vx, vy = bx - ax, by - ay
    wx, wy = qx - ax, qy - ay
    L = vx * vx + vy * vy
    if L == 0:
        return wx * wx + wy * wy
    t = (wx * vx + wy * vy) / L
    t = max(F(0), min(F(1), t))
    px, py = ax + t * vx, ay + t * vy
    return (qx - px) ** 2 + (qy - py) ** 2


def segments(pts):
    return [(pts[k], pts[k + 1]) for k in range(len(pts) - 1)]


def search_segments(case):
    """(query index, [segments]) of the unit < 0 segment/track neighbourhood searches: their answer depends on the
    cells of the QUERY segments, which are observed too so that the searches can be compared"""
    out = []
    for n, q in enumerate(case["queries"]):
        if q[0] == "nseg" and q[5] < 0:
            out.append((n, [(q[1:3], q[3:5])]))
        elif q[0] == "ntrk" and q[1] < 0:
            out.append((n, segments(q[2])))
    return out




class P(Prop):
    id = "C08"
    design_ref = "DESIGN.md section 5, C08 and appendix A.3"
    M = "TracklibVerif.Props.C08"
    theorems = [
        (M, "TV.C08.straddle_necessary", "two closed segments sharing a point pass isSegmentIntersects (val1 <= 0 and val2 <= 0), touching ends and zero-length segments included"),
        (M, "TV.C08.cells_complete", "a point P of segment [c1,c2] with i <= Px < i+1, j <= Py < j+1 implies (i,j) in __cellsCrossSegment(c1,c2)"),
        (M, "TV.C08.index_complete", "after SpatialIndex(collection,res,margin>=0) returned, every point of every segment of feature k is inside the extent and the cell containing it lists k"),
        (M, "TV.C08.point_query_complete", "request(q), q inside the extent, does not raise and returns every feature having a segment point in the cell containing q"),
        (M, "TV.C08.segment_query_complete", "a returned request([Q1,Q2]) contains every feature listed in the cell of any point of the query segment"),
        (M, "TV.C08.segment_query_returns", "request([Q1,Q2]) does not raise when both ends are inside the extent and strictly below its upper borders"),
        (M, "TV.C08.track_query_complete", "a returned request(track) contains every feature listed in the cell of any point of any segment of the query track"),
        (M, "TV.C08.units_sound", "with positive cell sides groundDistanceToUnits(d) returns floor(d/min(dX,dY)+1) and points at most d apart on each axis fall in cells whose column/row indices differ by at most that many units"),
        (M, "TV.C08.neighboringCells_square", "__neighboringcells(i,j,u) is exactly the Chebyshev square of radius u around (i,j) clipped to the grid"),
        (M, "TV.C08.neighborhood_complete", "groundDistanceToUnits(d) and neighborhood(q, unit=groundDistanceToUnits(d)), q inside the extent, d >= 0, do not raise and every feature with a point within Euclidean distance d of q is returned"),
        (M, "TV.C08.vertex_on_upper_border_raises", "formal side of finding D10: if the constructor returns, no point of a feature segment has x = xmax or y = ymax (so with margin 0 a right-/top-most vertex of a 2+-point track makes it raise)"),
        (M, "TV.C08.point_query_on_upper_border_raises", "formal side of finding query-on-upper-border: request(q) with q.x = xmax or q.y = ymax raises on every built index: IndexError when the extent is not flat, ZeroDivisionError (in __getCell) when it is"),
        (M, "TV.C08.default_resolution_builds", "the repair 9a44198: default resolution, margin >= 0, bounding box not a single point: __init__ reaches the registration loop without raising for every aspect ratio, with >= 1 column and >= 1 row and a positive cell side on every axis of positive length"),
        (M, "TV.C08.flat_extent_raises", "formal side of finding default-resolution-flat-extent: if the constructor returns over a collection that has a segment then xmin < xmax, ymin < ymax and no cell side is 0 (so a straight east-west or north-south track makes it raise ZeroDivisionError)"),
        (M, "TV.C08.isFloor_ratFloor", "Rat.floor, the driver's math.floor, satisfies the floor contract assumed by the theorems"),
    ]
    partial = []
    open_statements = [
        "theorems are over an ordered field with an exact floor: IEEE rounding in (x-xmin)/dX and in the straddle products is outside them (sampled by the flt stream with a 1e-7-cell guard)",
        "segment_query_complete / track_query_complete are conditional on the request returning (a query touching the upper border of the extent raises IndexError: finding query-on-upper-border)",
        "index_complete and the theorems built on it speak about constructor calls that return: with margin 0 none does (finding vertex-on-upper-border), nor over a flat extent (all vertices on one horizontal or vertical line) when a feature has a segment (finding default-resolution-flat-extent, theorem flat_extent_raises); thin extents with the default resolution are ordinary since 9a44198 (theorem default_resolution_builds)",
        "the unit = -1 incremental searches of neighborhood and the given-unit segment/track neighbourhoods are modelled and compared with the implementation, no theorem is stated about them (the property does not mention them)",
    ]
    modelled = ("SpatialIndex.__init__ (extent from bbox + margin, explicit and default resolution), __getCell, "
                "__cellsCrossSegment, __addSegment, addFeature, request (cell/point/segment/track), __neighboringcells, "
                "neighborhood (cell/point/segment/track; unit >= 0 and the incremental unit = -1 search), "
                "groundDistanceToUnits, __addCellValuesInTAB of core/spatial_index.py; cartesienne, __eval, "
                "isSegmentIntersects of util/geometry.py; TrackCollection/Network bbox as min/max of the vertices")
    trusted = ["correspondence relation: implementation ⊇ model on every returned list of features / cells and on cell contents (extras are permitted by the property; "
               "the theorems show the model omits nothing, so any superset omits nothing), equality on extent, cell size, units, None-ness and exceptions",
               "mode flt: the Float instantiation of the model reproduces Python's doubles operation by operation; "
               "rounding is outside the theorems, the flt-mode oracle keeps a guard of 1e-7 cell around cell borders"]
    rule = ("exhaustive: every segment between points of a half-integer lattice through __cellsCrossSegment, every 2-vertex track of a "
            "small lattice indexed and queried at every lattice point of the extent; random: 1-3 features (tracks or network edges) of 2-4 "
            "vertices on a half-integer lattice, square / non-square / default resolutions (the latter with aspect ratios from 1 to 400, i.e. down to one row or column), margins 1/2, 1/20, 1/4, 0, lattice queries "
            "(points, segments, tracks, cells, neighbourhoods in units and from ground distances 0..grid size), later addFeature calls; "
            "plus a float stream with random coordinates. non-trivial = the index is built (or its construction is the finding) and at "
            "least one feature segment and one query are present")

    # ------------------------------------------------------------------ setup
    def setup(self):
        from tracklib.core import ENUCoords, Obs, ObsTime, Track, TrackCollection
        from tracklib.core.spatial_index import SpatialIndex
        from tracklib.core.network import Network, Edge, Node
        self.E, self.Obs, self.T0, self.Track, self.TC = ENUCoords, Obs, ObsTime, Track, TrackCollection
        self.SI, self.Network, self.Edge, self.Node = SpatialIndex, Network, Edge, Node

    def mk(self, pts):
        t = self.Track()
        for k, p in enumerate(pts):
            t.addObs(self.Obs(self.E(fl(p[0]), fl(p[1]), 0.0), self.T0.readUnixTime(k)))
        return t

    def collection(self, case):
        if case.get("net"):
            net = self.Network()
            for k, pts in enumerate(case["feats"]):
                e = self.Edge("e%d" % k, self.mk(pts))
                a = self.Node("n%da" % k, self.E(fl(pts[0][0]), fl(pts[0][1]), 0.0))
                b = self.Node("n%db" % k, self.E(fl(pts[-1][0]), fl(pts[-1][1]), 0.0))
                net.addEdge(e, a, b)
            return net
        return self.TC([self.mk(pts) for pts in case["feats"]])

    # ------------------------------------------------------------------ implementation
    def impl(self, case):
        coll = self.collection(case)
        res = None if case["res"] is None else (fl(case["res"][0]), fl(case["res"][1]))
        si = self.SI(coll, resolution=res, margin=fl(case["margin"]), verbose=False)
        try:
            for num, pts in case.get("late", []):
                si.addFeature(self.mk(pts), num)
        except Exception as e:
            return {"err": err_kind(e), "late": True}
        out = {"info": [float(si.xmin), float(si.xmax), float(si.ymin), float(si.ymax), si.csize, si.lsize,
                        float(si.dX), float(si.dY)]}
        grid = {}
        for i, col in enumerate(si.grid):
            for j, c in enumerate(col):
                if c:
                    grid["%d:%d" % (i, j)] = sorted(c)
        out["grid"] = grid
        out["q"] = [self.run_query(si, q) for q in case["queries"]]
        sc = {}
        for n, segs in search_segments(case):
            cells = []
            for a, b in segs:
                try:
                    p1 = si._SpatialIndex__getCell(self.E(fl(a[0]), fl(a[1]), 0.0))
                    p2 = si._SpatialIndex__getCell(self.E(fl(b[0]), fl(b[1]), 0.0))
                    cells.append(None if p1 is None or p2 is None else
                                 sorted([int(c[0]), int(c[1])] for c in si._SpatialIndex__cellsCrossSegment(p1, p2)))
                except Exception as e:
                    cells.append({"err": err_kind(e)})
            sc[str(n)] = cells
        out["scells"] = sc
        return out

    def run_query(self, si, q):
        E = self.E
        try:
            k = q[0]
            if k == "cell":
                return sorted(si.request(q[1], q[2]))
            if k == "pt":
                return sorted(si.request(E(fl(q[1]), fl(q[2]), 0.0)))
            if k == "seg":
                return sorted(si.request([E(fl(q[1]), fl(q[2]), 0.0), E(fl(q[3]), fl(q[4]), 0.0)]))
            if k == "trk":
                return sorted(si.request(self.mk(q[1])))
            if k == "ncell":
                return sorted(si.neighborhood(q[1], q[2], q[3]))
            if k == "npt":
                r = si.neighborhood(E(fl(q[1]), fl(q[2]), 0.0), None, q[3])
                return None if r is None else sorted(r)
            if k == "nseg":
                r = si.neighborhood([E(fl(q[1]), fl(q[2]), 0.0), E(fl(q[3]), fl(q[4]), 0.0)], None, q[5])
                return None if r is None else sorted(r)
            if k == "ntrk":
                return sorted(si.neighborhood(self.mk(q[2]), None, q[1]))
            if k == "units":
                return int(si.groundDistanceToUnits(fl(q[1])))
            if k == "nd":
                u = int(si.groundDistanceToUnits(fl(q[3])))
                r = si.neighborhood(E(fl(q[1]), fl(q[2]), 0.0), None, u)
                return {"u": u, "res": None if r is None else sorted(r)}
            if k == "cross":
                cells = si._SpatialIndex__cellsCrossSegment((fl(q[1]), fl(q[2])), (fl(q[3]), fl(q[4])))
                return sorted([int(c[0]), int(c[1])] for c in cells)
            if k == "getcell":
                c = si._SpatialIndex__getCell(E(fl(q[1]), fl(q[2]), 0.0))
                return None if c is None else [float(c[0]), float(c[1])]
            if k == "inter":
                from tracklib.util import isSegmentIntersects
                v = [fl(x) for x in q[1:]]
                return int(bool(isSegmentIntersects(v[:4], v[4:])))
            raise ValueError(k)
        except BaseException as e:
            if isinstance(e, KeyboardInterrupt):
                raise
            return {"err": err_kind(e)}

    # ------------------------------------------------------------------ model
    def requests(self, case):
        exact = exact_case(case)
        if exact:
            num = lambda v: ratstr(fr(v))
            mode = "rat"
        else:
            num = lambda v: fbits(fl(v))
            mode = "flt"
        tr = lambda pts: ";".join("%s,%s" % (num(p[0]), num(p[1])) for p in pts) if pts else "_"
        feats = "|".join(tr(f) for f in case["feats"]) if case["feats"] else "_"
        res = "none" if case["res"] is None else "%s,%s" % (num(case["res"][0]), num(case["res"][1]))
        late = "|".join("%d@%s" % (n, tr(t)) for n, t in case.get("late", [])) or "_"
        qs = ["info", "grid"]
        for q in case["queries"]:
            k = q[0]
            if k in ("cell", "ncell"):
                qs.append(";".join([k] + [str(v) for v in q[1:]]))
            elif k in ("npt", "nseg"):
                qs.append(";".join([k] + [num(v) for v in q[1:-1]] + [str(q[-1])]))
            elif k == "trk":
                qs.append(";".join([k] + [num(v) for p in q[1] for v in p]))
            elif k == "ntrk":
                qs.append(";".join([k, str(q[1])] + [num(v) for p in q[2] for v in p]))
            else:
                qs.append(";".join([k] + [num(v) for v in q[1:]]))
        for n, segs in search_segments(case):
            for a, b in segs:
                qs.append(";".join(["gcross", num(a[0]), num(a[1]), num(b[0]), num(b[1])]))
        return ["C08.run %s %s %s %s %s %s" % (mode, feats, res, num(case["margin"]), late, "|".join(qs))]

    def decode(self, case, replies):
        r = replies[0]
        if r == "bad-request":
            raise ValueError("bad-request")
        exact = exact_case(case)
        val = (lambda t: float(F(t))) if exact else bitsf
        if r.startswith("late:"):
            return {"err": r[5:], "late": True}
        if r.startswith("err:"):
            return {"err": r}
        parts = r.split("|")
        ss = search_segments(case)
        nextra = sum(len(segs) for _, segs in ss)
        if len(parts) != len(case["queries"]) + 2 + nextra:
            raise ValueError("reply has %d parts for %d queries" % (len(parts), len(case["queries"])))
        info = parts[0].split(",")
        out = {"info": [val(info[0]), val(info[1]), val(info[2]), val(info[3]), int(info[4]), int(info[5]), val(info[6]), val(info[7])]}
        grid = {}
        if parts[1] != "_":
            for item in parts[1].split(";"):
                key, vals = item.split("=")
                grid[key] = sorted(int(v) for v in vals.split(","))
        out["grid"] = grid
        nats = lambda t: [] if t == "_" else sorted(int(v) for v in t.split(","))
        qo = []
        cellsof = lambda t: [] if t == "_" else sorted([int(c.split(":")[0]), int(c.split(":")[1])] for c in t.split(";"))
        extra = parts[2 + len(case["queries"]):]
        sc, pos = {}, 0
        for n, segs in ss:
            sc[str(n)] = [None if t == "none" else {"err": t} if t.startswith("err:") else cellsof(t) for t in extra[pos:pos + len(segs)]]
            pos += len(segs)
        out["scells"] = sc
        for q, t in zip(case["queries"], parts[2:2 + len(case["queries"])]):
            k = q[0]
            if t.startswith("err:"):
                qo.append({"err": t})
            elif k in ("cell", "pt", "seg", "trk", "ncell", "ntrk"):
                qo.append(nats(t))
            elif k in ("npt", "nseg"):
                qo.append(None if t == "none" else nats(t))
            elif k == "units":
                qo.append(int(t))
            elif k == "nd":
                u, rr = t.split("=")
                qo.append({"u": int(u), "res": ({"err": rr} if rr.startswith("err:") else None if rr == "none" else nats(rr))})
            elif k == "cross":
                qo.append([] if t == "_" else sorted([int(c.split(":")[0]), int(c.split(":")[1])] for c in t.split(";")))
            elif k == "getcell":
                qo.append(None if t == "none" else [val(v) for v in t.split(",")])
            elif k == "inter":
                qo.append(int(t))
            else:
                raise ValueError(k)
        out["q"] = qo
        return out

    def compare(self, case, impl_out, model_out):
        if "err" in impl_out or "err" in model_out:
            if impl_out.get("err") == model_out.get("err") and impl_out.get("late") == model_out.get("late"):
                return None
            return "construction: impl=%s model=%s" % (str(impl_out)[:200], str(model_out)[:200])
        io = dict(impl_out)
        # nd: an error inside comes back as {"err":..} at top level from the implementation
        mo = dict(model_out)
        mq = []
        for a in mo["q"]:
            if isinstance(a, dict) and "u" in a and isinstance(a["res"], dict):
                mq.append(a["res"])
            else:
                mq.append(a)
        mo["q"] = mq
        # The property permits extra candidates and the theorems say the MODEL omits nothing, so what ties the
        # implementation to them is "implementation ⊇ model" on every list of features / cells (a superset of a
        # complete answer is complete); scalars, None-ness and exceptions must be equal. The unit = -1 searches are
        # not monotone in the grid contents: they are compared for equality whenever the two grids are equal.
        if not close(io["info"], mo["info"], self.rel_tol):
            return "info: impl=%s model=%s" % (str(io["info"])[:300], str(mo["info"])[:300])
        for key, vals in mo["grid"].items():
            miss = set(vals) - set(io["grid"].get(key, []))
            if miss:
                return "grid cell %s: the model registers %s, the implementation only %s" % (key, vals, io["grid"].get(key, []))
        same_grid = io["grid"] == mo["grid"]

        def sub(b, a):      # model answer b, implementation answer a
            if isinstance(b, list) and isinstance(a, list):
                return all(x in a for x in b)
            return close(a, b, self.rel_tol)
        for n, (q, a, b) in enumerate(zip(case["queries"], io["q"], mo["q"])):
            search = q[0] in ("ncell", "npt", "nseg", "ntrk") and (q[-1] if q[0] != "ntrk" else q[1]) < 0
            if search:
                same_cells = io.get("scells", {}).get(str(n)) == mo.get("scells", {}).get(str(n))
                ok = close(a, b, self.rel_tol) if (same_grid and same_cells) else True
            elif isinstance(a, dict) and isinstance(b, dict) and "u" in a and "u" in b:
                ok = a["u"] == b["u"] and sub(b["res"], a["res"])
            else:
                ok = sub(b, a)
            if not ok:
                return "query %d %s: impl=%s model=%s" % (n, q, str(a)[:200], str(b)[:200])
        return None

    # ------------------------------------------------------------------ oracle (transfer)
    def precondition(self, case):
        """the configurations the property quantifies over: a non-empty feature set with at least one segment,
        margin >= 0, and either the default resolution or an explicit cell size that is positive and not larger
        than the extent (so that at least one cell exists)"""
        if not case["feats"] or any(len(f) < 1 for f in case["feats"]) or not any(len(f) >= 2 for f in case["feats"]):
            return False
        if fr(case["margin"]) < 0:
            return False
        bb = case_bbox(case)
        m = fr(case["margin"])
        ax = (bb[1] - bb[0]) * (1 + 2 * m)
        ay = (bb[3] - bb[2]) * (1 + 2 * m)
        if case["res"] is None:
            return True
        rx, ry = fr(case["res"][0]), fr(case["res"][1])
        return 0 < rx <= ax and 0 < ry <= ay

    def spec(self, case, out):
        f = self.first_failure(case, out)
        return None if f is None else f[2]

    def first_failure(self, case, out):
        """None, or (tag, query index or None, message) for the first way `out` violates the property"""
        if not self.precondition(case):
            return None
        r = self._failure(case, out)
        return r

    def _failure(self, case, out):
        if out.get("late"):
            return None        # a later addFeature call raised: outside the property (compared with the model only)
        if "err" in out:
            return ("construction", None, "index construction raised %s (%s)" % (out["err"], out.get("detail", "")))
        exact = exact_case(case)
        xmin, xmax, ymin, ymax = (F(v) for v in out["info"][:4])
        cs, ls = out["info"][4], out["info"][5]
        dX, dY = F(out["info"][6]), F(out["info"][7])
        if dX <= 0 or dY <= 0 or cs <= 0 or ls <= 0:
            return ("grid", None, "degenerate grid %s" % (out["info"],))
        val = fr if exact else (lambda v: F(fl(v)))
        inside = lambda p: xmin <= val(p[0]) <= xmax and ymin <= val(p[1]) <= ymax
        g = lambda p: ((val(p[0]) - xmin) / dX, (val(p[1]) - ymin) / dY)
        grid = {}
        for key, vals in out["grid"].items():
            i, j = key.split(":")
            grid[(int(i), int(j))] = set(vals)
        feats = [(k, f) for k, f in enumerate(case["feats"])]
        for p in (p for _, f in feats for p in f):
            if not inside(p):
                return ("grid", None, "vertex %s is outside the extent %s" % (p, out["info"][:4]))
        feats += [(n, t) for n, t in case.get("late", []) if all(inside(p) for p in t)]
        expected = {}
        for k, f in feats:
            for a, b in segments(f):
                for (i, j) in seg_cells_mode(g(a), g(b), exact):
                    if 0 <= i < cs and 0 <= j < ls:
                        expected.setdefault((i, j), set()).add(k)
        for (i, j), s in sorted(expected.items()):
            miss = s - grid.get((i, j), set())
            if miss:
                return ("omission", None, "feature %d has a segment through cell (%d,%d) = [%s,%s]x[%s,%s] but is not registered there: "
                        "point queries in that cell omit it" % (min(miss), i, j, float(xmin + i * dX), float(xmin + (i + 1) * dX),
                                                                float(ymin + j * dY), float(ymin + (j + 1) * dY)))
        near_border = lambda c: (not exact) and min(c - math.floor(c), math.floor(c) + 1 - c) < EPS
        for n, (q, r) in enumerate(zip(case["queries"], out["q"])):
            k = q[0]
            isr = isinstance(r, dict) and "err" in r
            if k == "cell":
                i, j = q[1], q[2]
                if 0 <= i < cs and 0 <= j < ls:
                    if isr:
                        return ("query-raised", n, "request(%d,%d) raised %s" % (i, j, r["err"]))
                    miss = expected.get((i, j), set()) - set(r)
                    if miss:
                        return ("omission", n, "request(%d,%d) omits feature %d which has a segment through that cell" % (i, j, min(miss)))
            elif k == "pt":
                if not inside(q[1:3]):
                    continue
                c = g(q[1:3])
                if near_border(c[0]) or near_border(c[1]):
                    continue
                if isr:
                    return ("query-raised", n, "request(point %s) raised %s for a point inside the extent" % (q[1:3], r["err"]))
                i, j = math.floor(c[0]), math.floor(c[1])
                miss = expected.get((i, j), set()) - set(r)
                if miss:
                    return ("omission", n, "request(point %s) omits feature %d which has a segment through the cell (%d,%d) containing the point" % (q[1:3], min(miss), i, j))
            elif k in ("seg", "trk"):
                pts = [q[1:3], q[3:5]] if k == "seg" else q[1]
                if len(pts) < 2 or not all(inside(p) for p in pts):
                    continue
                if isr:
                    return ("query-raised", n, "request(%s %s) raised %s for a query inside the extent" % (k, pts, r["err"]))
                want = set()
                for a, b in segments(pts):
                    for cell in seg_cells_mode(g(a), g(b), exact):
                        want |= grid.get(cell, set()) | expected.get(cell, set())
                miss = want - set(r)
                if miss:
                    return ("omission", n, "request(%s %s) omits feature %d registered in a crossed cell" % (k, pts, min(miss)))
            elif k == "nd":
                if not inside(q[1:3]):
                    continue
                d = val(q[3])
                if d < 0:
                    continue
                if isr or isinstance(r.get("res"), dict) or r.get("res") is None:
                    return ("query-raised", n, "neighborhood(point %s, unit=groundDistanceToUnits(%s)) gave %s for a point inside the extent" % (q[1:3], q[3], r))
                qq = (val(q[1]), val(q[2]))
                dd = d * d if exact else (d * (1 - EPS)) ** 2
                for kf, f in feats:
                    if kf in r["res"]:
                        continue
                    for a, b in segments(f):
                        d2 = d2_point_seg(qq, (val(a[0]), val(a[1])), (val(b[0]), val(b[1])))
                        if d2 <= dd:
                            return ("omission", n, "neighborhood(point %s, unit=groundDistanceToUnits(%s)=%d) omits feature %d which has a point at distance %.6g <= %s"
                                    % (q[1:3], q[3], r["u"], kf, math.sqrt(float(d2)), q[3]))
            elif k == "cross":
                a, b = (val(q[1]), val(q[2])), (val(q[3]), val(q[4]))
                if isr:
                    return ("query-raised", n, "__cellsCrossSegment(%s) raised %s" % (q[1:], r["err"]))
                got = {(c[0], c[1]) for c in r}
                miss = seg_cells_mode(a, b, exact) - got
                if miss:
                    return ("omission", n, "__cellsCrossSegment(%s): the segment meets cell %s, which is not returned" % (q[1:], sorted(miss)[0]))
        return None

    # ------------------------------------------------------------------ known-finding classes
    def classify(self, case, impl_out, msg):
        """classes of the listed findings, each a decidable predicate on the case and the first failure:
        vertex-on-upper-border: margin 0 and construction raises IndexError (a vertex with x = xmax or y = ymax of the
            extent gets column/row index csize/lsize)
        default-resolution-flat-extent: resolution None, all vertices on one horizontal or vertical line (a side of the
            bounding box is 0) and construction raises ZeroDivisionError (cell side 0 in __getCell, or r = 0 when the
            bounding box is a single point)
        query-on-upper-border: a point/segment/track request having a point with x = xmax or y = ymax raises IndexError"""
        if not isinstance(impl_out, dict):
            return None
        f = self.first_failure(case, impl_out)
        if f is None:
            return None
        tag, n, _ = f
        tw = exact_twin(case)
        if tag == "construction":
            if impl_out["err"] == "err:zerodiv" and case["res"] is None and (tw == "zerodiv" or flat_grid(tw)):
                bb = case_bbox(case)
                if bb[1] == bb[0] or bb[3] == bb[2]:
                    return "default-resolution-flat-extent"
            if impl_out["err"] == "err:index" and tw not in (None, "zerodiv") and fr(case["margin"]) == 0:
                xmax, ymax = tw[1], tw[3]
                pts = [p for f in case["feats"] for p in f]
                if any(fr(p[0]) == xmax or fr(p[1]) == ymax for p in pts):
                    return "vertex-on-upper-border"
            return None
        if tag == "query-raised" and n is not None:
            q, r = case["queries"][n], impl_out["q"][n]
            if isinstance(r, dict) and r.get("err") == "err:index" and q[0] in ("pt", "seg", "trk"):
                xmax, ymax = F(impl_out["info"][1]), F(impl_out["info"][3])
                val = fr if exact_case(case) else (lambda v: F(fl(v)))
                pts = [q[1:3]] if q[0] == "pt" else [q[1:3], q[3:5]] if q[0] == "seg" else q[1]
                if any(val(p[0]) == xmax or val(p[1]) == ymax for p in pts):
                    return "query-on-upper-border"
        return None

    # ------------------------------------------------------------------ generators
    def exhaustive_scopes(self, tier):
        n = 7 if tier == "quick" else 9
        return ["__cellsCrossSegment on every ordered pair of points of the half-integer lattice {0,1/2,..,%s}^2 (%d segments), exact oracle" % ((n - 1) / 2, n ** 4),
                "every 2-vertex track between points of {0,1/2,..,%s}^2 with non-degenerate bbox, margin 1/2, cell sizes (1/2|1|2)x(1/2|1|2) where exact, point query at every half-integer point of the extent"
                % (2 if tier == "quick" else 3)]

    def lattice_queries(self, tw, rng, feats, tier, step=F(1, 2), full=False):
        """queries on the lattice of the extent"""
        xmin, xmax, ymin, ymax, cs, ls, dX, dY = tw
        nx = int((xmax - xmin) / step)
        ny = int((ymax - ymin) / step)
        P = lambda: [float(xmin + step * rng.randrange(0, nx + 1)), float(ymin + step * rng.randrange(0, ny + 1))]
        Pin = lambda: [float(xmin + step * rng.randrange(0, max(1, nx))), float(ymin + step * rng.randrange(0, max(1, ny)))]
        qs = []
        if full:
            border = 1 if rng.random() < 0.03 else 0
            for a in range(nx + border):
                for b in range(ny + border):
                    qs.append(["pt", float(xmin + step * a), float(ymin + step * b)])
            return qs
        size = float(max(xmax - xmin, ymax - ymin))
        dists = [0, 0.5, 1, 1.5, 2, 2.5, 3, 4, 5, 6.5, 7.5, 10, 12.5, 13]
        for _ in range(rng.randrange(4, 9)):
            p = Pin() if rng.random() < 0.9 else P()
            r = rng.random()
            if r < 0.25:
                qs.append(["pt"] + p)
            elif r < 0.5:
                d = rng.choice([x for x in dists if x <= size] or [0])
                if rng.random() < 0.5 and feats:
                    # a distance that is exactly the distance to some feature when that is rational
                    f = rng.choice(feats)
                    a, b = rng.choice(segments(f)) if len(f) > 1 else (f[0], f[0])
                    d2 = d2_point_seg((fr(p[0]), fr(p[1])), (fr(a[0]), fr(a[1])), (fr(b[0]), fr(b[1])))
                    s = math.isqrt(d2.numerator * d2.denominator)
                    if s * s == d2.numerator * d2.denominator:
                        dd = F(s, d2.denominator)
                        if small_dyadic(dd) and dd <= size:
                            d = float(dd)
                qs.append(["nd"] + p + [d])
            elif r < 0.6:
                qs.append(["seg"] + Pin() + Pin())
            elif r < 0.68:
                qs.append(["trk", [Pin() for _ in range(rng.randrange(2, 4))]])
            elif r < 0.76:
                qs.append(["npt"] + p + [rng.choice([-1, 0, 1, 2, 3])])
            elif r < 0.82:
                qs.append(["nseg"] + Pin() + Pin() + [rng.choice([-1, 0, 1, 2])])
            elif r < 0.86:
                qs.append(["ntrk", rng.choice([-1, 0, 1]), [Pin() for _ in range(rng.randrange(2, 4))]])
            elif r < 0.92:
                qs.append(["ncell", rng.randrange(-1, cs + 1), rng.randrange(-1, ls + 1), rng.choice([-1, 0, 1, 2])])
            elif r < 0.96:
                qs.append(["cell", rng.randrange(-1, cs + 1), rng.randrange(-1, ls + 1)])
            else:
                qs.append(["units", rng.choice(dists)])
        return qs

    def lattice_case(self, rng, tier):
        """1-3 features of 2-4 vertices on a half-integer lattice, a configuration on which floats are exact"""
        for _ in range(40):
            margin = rng.choice(["1/2"] * 10 + ["1/20"] * 8 + ["1/4"] * 3 + ["0"])
            r = rng.random()
            default = r < 0.08
            thin = default and rng.random() < 0.5
            if thin:
                # default resolution on a thin extent (ordinary since 9a44198): long side 8 lattice units, short side
                # 1 or 2, rescaled below so that the extent is 100 x (1/4 .. 4) cells of the long axis
                margin = "1/2"
                W, H = rng.choice([(8, 1), (8, 2), (1, 8), (2, 8)])
                nf, nv = rng.randrange(1, 3), (2, 4)
            elif default:
                margin = "1/2"
                W, H = rng.choice([1, 2, 4, 8, 2.5, 5]), rng.choice([1, 2, 4, 8, 2.5, 5])
                nf, nv = rng.randrange(1, 3), (2, 4)
            else:
                nf, nv = rng.randrange(1, 4), (2, 5)
                if margin == "1/20":
                    W, H = rng.choice([5, 10, 20]), rng.choice([5, 10, 20])
                else:
                    W, H = rng.choice([1, 2, 3, 4, 6, 8, 2.5, 5]), rng.choice([1, 2, 3, 4, 6, 8, 2.5, 5])
            feats = [[[rng.randrange(0, int(2 * W) + 1) / 2, rng.randrange(0, int(2 * H) + 1) / 2] for _ in range(rng.randrange(*nv))]
                     for _ in range(nf)]
            # make the bbox exactly W x H
            flat = [p for f in feats for p in f]
            rng.choice(flat)[0] = 0.0
            rng.choice([p for p in flat if p[0] != 0.0] or flat)[0] = float(W)
            rng.choice(flat)[1] = 0.0
            rng.choice([p for p in flat if p[1] != 0.0] or flat)[1] = float(H)
            if default:
                res = None
                # default resolution is exact when the larger side of the extent is 25, 50 or 100
                k = rng.choice([12.5, 25, 50]) / max(W, H)
                feats = [[[p[0] * k, p[1] * k] for p in f] for f in feats]
                if thin:
                    # squash the short axis: its extent becomes 1/4, 1/2, 1, 2 or 4 times r = (long extent)/100,
                    # i.e. int(short / r) = 0 (one row/column by the max(1, .)), 1, 2 or 4
                    r100 = 2 * k * max(W, H) / 100
                    ax_short = r100 * rng.choice([0.25, 0.25, 0.5, 1, 2, 4])
                    a = 0 if W < H else 1
                    sq = ax_short / (2 * k * min(W, H))
                    feats = [[[p[0] * (sq if a == 0 else 1), p[1] * (sq if a == 1 else 1)] for p in f] for f in feats]
            elif r < 0.5:
                s = rng.choice([0.5, 1, 2])
                res = [s, s]
            else:
                res = [rng.choice([0.25, 0.5, 1, 2, 4]), rng.choice([0.25, 0.5, 1, 2, 4])]
            case = {"kind": "lattice", "net": rng.random() < 0.25, "feats": feats, "res": res, "margin": margin, "late": [], "queries": []}
            tw = exact_twin(case)
            if tw in (None, "zerodiv") or flat_grid(tw):
                if rng.random() < 0.05 and exact_case(case):
                    return case
                continue
            if res is not None and tw[4] * tw[5] > 1600:
                continue
            if rng.random() < 0.12:
                n0 = len(feats)
                late = []
                for _ in range(rng.randrange(1, 3)):
                    num = rng.choice([n0, n0 + 1, 0])
                    pts = [[float(tw[0] + F(1, 2) * rng.randrange(-2, int((tw[1] - tw[0]) * 2) + 2)),
                            float(tw[2] + F(1, 2) * rng.randrange(-2, int((tw[3] - tw[2]) * 2) + 2))] for _ in range(rng.randrange(2, 5))]
                    late.append([num, pts])
                case["late"] = late
            step = F(1, 2) if res is not None else min(tw[6], tw[7])
            case["queries"] = self.lattice_queries(tw, rng, feats, tier, step=step)
            if exact_case(case):
                return case
        return {"kind": "lattice", "net": False, "feats": [[[0.0, 0.0], [4.0, 3.0]], [[1.0, 2.5], [2.0, 2.5], [4.0, 0.0]]], "res": [1, 1],
                "margin": "1/2", "late": [], "queries": [["pt", 1.0, 1.0], ["nd", 0.0, 3.0, 2.5]]}

    def float_case(self, rng, tier):
        scale = rng.choice([1, 10, 100, 1000])
        rnd = lambda: round(rng.uniform(0, scale), rng.choice([1, 2, 3]))
        nf = rng.randrange(1, 4)
        feats = [[[rnd(), rnd()] for _ in range(rng.randrange(2, 5))] for _ in range(nf)]
        margin = rng.choice(["1/20", "1/20", "1/2", "1/10", "0.3"])
        bb = case_bbox({"feats": feats})
        ax, ay = float(bb[1] - bb[0]) * 1.1, float(bb[3] - bb[2]) * 1.1
        if ax <= 0 or ay <= 0:
            return self.float_case(rng, tier)
        r = rng.random()
        if r < 0.1:
            res = None
            feats = [f[:3] for f in feats[:2]]
            if rng.random() < 0.5:
                # thin extent: aspect ratio around 30 .. 1000 (int(short / r) = 0 .. 3 rows or columns)
                a, q = rng.randrange(2), rng.choice([30, 60, 90, 150, 400, 1000])
                feats = [[[p[0] / (q if a == 0 else 1), p[1] / (q if a == 1 else 1)] for p in f] for f in feats]
                if len({p[a] for f in feats for p in f}) < 2:
                    return self.float_case(rng, tier)
        elif r < 0.5:
            s = round(min(ax, ay) / rng.choice([1.5, 3, 7, 12]), 3)
            res = [s, s]
        else:
            res = [round(ax / rng.choice([1.5, 3, 7, 12, 30]), 3), round(ay / rng.choice([1.5, 3, 7, 12, 30]), 3)]
        if res is not None and (res[0] <= 0 or res[1] <= 0):
            res = None
        case = {"kind": "float", "net": rng.random() < 0.2, "feats": feats, "res": res, "margin": margin, "late": [], "queries": []}
        tw = exact_twin(case)
        if tw in (None, "zerodiv") or flat_grid(tw):
            return case
        if res is not None and (tw[4] * tw[5] > 4000 or max(tw[4], tw[5]) > 400):
            return self.float_case(rng, tier)      # keep the quadratic loops of the code affordable
        xmin, xmax, ymin, ymax = (float(v) for v in tw[:4])
        P = lambda: [round(rng.uniform(xmin, xmax), 3), round(rng.uniform(ymin, ymax), 3)]
        size = max(xmax - xmin, ymax - ymin)
        qs = []
        for _ in range(rng.randrange(3, 8)):
            r = rng.random()
            if r < 0.3:
                qs.append(["pt"] + P())
            elif r < 0.6:
                qs.append(["nd"] + P() + [round(rng.uniform(0, size) * rng.choice([0.02, 0.1, 0.3, 1]), 3)])
            elif r < 0.7:
                qs.append(["seg"] + P() + P())
            elif r < 0.78:
                qs.append(["trk", [P() for _ in range(rng.randrange(2, 4))]])
            elif r < 0.86:
                qs.append(["npt"] + P() + [rng.choice([-1, 0, 1, 2])])
            elif r < 0.92:
                qs.append(["nseg"] + P() + P() + [rng.choice([-1, 0, 1])])
            else:
                qs.append(["cross", round(rng.uniform(0, 6), 2), round(rng.uniform(0, 6), 2), round(rng.uniform(0, 6), 2), round(rng.uniform(0, 6), 2)])
        case["queries"] = qs
        return case

    BASE = {"kind": "cross", "net": False, "feats": [[[0.0, 0.0], [2.0, 2.0]]], "res": [1, 1], "margin": "1/2", "late": []}

    def cases(self, rng, tier):
        out = []
        # --- exhaustive: __cellsCrossSegment on every lattice segment (grid coordinates), exact oracle
        n = 7 if tier == "quick" else 9
        pts = [[a / 2, b / 2] for a in range(n) for b in range(n)]
        allseg = [["cross"] + p + q for p in pts for q in pts]
        for k in range(0, len(allseg), 60):
            out.append(dict(self.BASE, queries=allseg[k:k + 60]))
        # shifted/negative and long segments
        for _ in range(30 if tier == "quick" else 300):
            qs = []
            for _ in range(40):
                qs.append(["cross"] + [rng.randrange(-12, 25) / 4 for _ in range(4)])
            out.append(dict(self.BASE, queries=qs))
        # straddle test itself on lattice segments
        for _ in range(20 if tier == "quick" else 200):
            out.append(dict(self.BASE, queries=[["inter"] + [rng.randrange(-4, 9) / 2 for _ in range(8)] for _ in range(40)]))
        # --- exhaustive: every 2-vertex track of a small lattice, indexed, queried at every lattice point
        m = 5 if tier == "quick" else 7
        lp = [[a / 2, b / 2] for a in range(m) for b in range(m)]
        sizes = [(1, 1), (0.5, 1), (2, 0.5)] if tier == "quick" else [(1, 1), (0.5, 0.5), (0.5, 1), (2, 0.5), (1, 2), (2, 2)]
        for ia, a in enumerate(lp):
            for b in lp[ia + 1:]:
                if a[0] == b[0] or a[1] == b[1]:
                    continue
                for res in sizes:
                    case = {"kind": "track2", "net": False, "feats": [[a, b]], "res": list(res), "margin": "1/2", "late": [], "queries": []}
                    tw = exact_twin(case)
                    if tw in (None, "zerodiv") or flat_grid(tw) or not self.precondition(case):
                        continue
                    case["queries"] = self.lattice_queries(tw, rng, case["feats"], tier, full=True)
                    if exact_case(case):
                        out.append(case)
        # --- regression / finding witnesses
        out.append({"kind": "witness", "net": False, "feats": [[[0.0, 0.0], [1.0, 1.0]]], "res": [1, 1], "margin": "0", "late": [], "queries": [["pt", 0.5, 0.5]]})
        out.append({"kind": "witness", "net": False, "feats": [[[0.0, 0.0], [1000.0, 5.0]]], "res": None, "margin": "1/20", "late": [], "queries": [["pt", 500.0, 2.5]]})
        out.append({"kind": "witness", "net": False, "feats": [[[0.0, 0.0], [60.0, 0.0], [60.0, 4.0]], [[0.0, 10.0], [60.0, 10.0]]], "res": [60, 1], "margin": "1/2",
                    "late": [], "queries": [["nd", 30.0, 0.0, 10.0], ["units", 10.0]]})
        # --- random lattice (exact) and float streams
        nl, nf = (1800, 500) if tier == "quick" else (30000, 8000)
        for _ in range(nl):
            out.append(self.lattice_case(rng, tier))
        for _ in range(nf):
            out.append(self.float_case(rng, tier))
        return out

    def describe(self, case):
        res = case["res"]
        t = {"kind": case["kind"], "mode": "rat" if exact_case(case) else "flt", "margin": str(case["margin"]),
             "res": "default" if res is None else "square" if fr(res[0]) == fr(res[1]) else "non-square",
             "net": bool(case.get("net")), "nfeat": len(case["feats"]), "late": bool(case.get("late"))}
        return t

    def nontrivial(self, case):
        return self.precondition(case) and len(case["queries"]) > 0

    # ------------------------------------------------------------------ shrinking / search
    def shrink(self, case):
        qs = case["queries"]
        if len(qs) > 1:
            for k in range(len(qs)):
                yield dict(case, queries=[qs[k]])
            yield dict(case, queries=qs[:len(qs) // 2])
            yield dict(case, queries=qs[len(qs) // 2:])
        if case.get("late"):
            yield dict(case, late=[])
        fs = case["feats"]
        if len(fs) > 1:
            for k in range(len(fs)):
                yield dict(case, feats=fs[:k] + fs[k + 1:])
        for k, f in enumerate(fs):
            if len(f) > 2:
                for v in range(len(f)):
                    yield dict(case, feats=fs[:k] + [f[:v] + f[v + 1:]] + fs[k + 1:])
        if case.get("net"):
            yield dict(case, net=False)

    def mutate(self, case, rng):
        for _ in range(20):
            c = dict(case)
            fs = [[list(p) for p in f] for f in case["feats"]]
            f = rng.choice(fs)
            p = rng.choice(f)
            p[rng.randrange(2)] += rng.choice([-0.5, 0.5, 1, -1])
            c["feats"] = fs
            yield c


# ---- tie to the source by translation (tools/py2lean.py -> lean/TracklibVerif/Gen/Geometry.lean, regenerated on every run)
P.tie_modules = ["TracklibVerif.Tie.C08"]
P.theorems = P.theorems + [
    ("TracklibVerif.Tie.C08", "TV.Tie.C08.tie_cartesienne", "the Lean translation of the CURRENT source of geometry.cartesienne equals the model's cartesienne on every segment list"),
    ("TracklibVerif.Tie.C08", "TV.Tie.C08.tie_eval", "the translation of the CURRENT source of geometry.__eval equals the model's evalLine"),
    ("TracklibVerif.Tie.C08", "TV.Tie.C08.tie_isSegmentIntersects", "the translation of the CURRENT source of geometry.isSegmentIntersects equals the model's straddle test on all pairs of segments"),
    ("TracklibVerif.Tie.C08", "TV.Tie.C08.tie_getCell", "the translation of the CURRENT source of SpatialIndex.__getCell equals the model's getCell (cell sizes != 0)"),
    ("TracklibVerif.Tie.C08", "TV.Tie.C08.tie_getCell_ok", "whenever the translated __getCell returns, it returns the model's value (no hypothesis on the cell sizes)"),
    ("TracklibVerif.Tie.C08", "TV.Tie.C08.tie_groundDistanceToUnits", "the translation of the CURRENT source of SpatialIndex.groundDistanceToUnits equals the model's, ZeroDivisionError included (the model's == 0 test is Python's)"),
    ("TracklibVerif.Tie.C08", "TV.Tie.C08.tie_getCellR", "the translation of the CURRENT source of SpatialIndex.__getCell equals the model's executed form getCellR, ZeroDivisionError included (the model's == 0 test is Python's)"),
    ("TracklibVerif.Tie.C08", "TV.Tie.C08.tie_isSegmentIntersects_short1", "the translated isSegmentIntersects raises IndexError when the first list has fewer than four numbers"),
]
